"""C08 — reported equilibrium compositions are genuine whenever the solver claims success  (PARTIAL)

Proved (Lean, Props/C08.lean): the logic chempy itself contributes — sanity check, elemental upper bounds,
`dissolved`, the precipitation switch conditions, `non_precip_rids`, the bracket and the residual of the scalar solver.
Tied by exact correspondence (this file, ops below).
Sampled, NOT proved (exploration): real solver runs under the default chain and the variants; the oracle checks
every run that reports success and a sane result against the defining equations.
"""
from collections import OrderedDict
from fractions import Fraction
import json, math, warnings
from lib.framework import Property
from .util import *

F = Fraction

# ----------------------------------------------------------------------------------------------
# pools for the solver exploration (textbook constants, log10 K; water written with [H2O] = 55.5)
POOL = {
    'water': ({'H2O': 1}, {'H+': 1, 'OH-': 1}, -14 - math.log10(55.5)),
    'nh4': ({'NH4+': 1}, {'H+': 1, 'NH3': 1}, -9.26),
    'hoac': ({'CH3COOH': 1}, {'H+': 1, 'CH3COO-': 1}, -4.76),
    'co3a': ({'H2CO3': 1}, {'H+': 1, 'HCO3-': 1}, -6.35),
    'co3b': ({'HCO3-': 1}, {'H+': 1, 'CO3-2': 1}, -10.33),
    'fescn': ({'Fe+3': 1, 'SCN-': 1}, {'FeSCN+2': 1}, 2.95),
    'cunh3a': ({'Cu+2': 1, 'NH3': 1}, {'CuNH3+2': 1}, 4.3),
    'cunh3b': ({'CuNH3+2': 1, 'NH3': 1}, {'Cu(NH3)2+2': 1}, 3.6),
    'hf': ({'HF': 1}, {'H+': 1, 'F-': 1}, -3.17),
    'agnh3': ({'Ag+': 1, 'NH3': 2}, {'Ag(NH3)2+': 1}, 7.2),
}
# equilibria whose row-reduced stoichiometry has fractional entries for some substance orders (dimerisations, 2:1 / 3:2 / 2:2 complexes)
PIVOT = {
    'dichromate': ({'HCrO4-': 2}, {'Cr2O7-2': 1, 'H2O': 1}, 1.53 + math.log10(55.5)),
    'n2o4': ({'NO2': 2}, {'N2O4': 1}, 2.2),
    'cu2oh2': ({'Cu+2': 2, 'OH-': 2}, {'Cu2(OH)2+2': 1}, 17.0),
    'al2so43': ({'Al+3': 2, 'SO4-2': 3}, {'Al2(SO4)3': 1}, 3.0),
    'hg2': ({'Hg+2': 1, 'Hg': 1}, {'Hg2+2': 1}, 2.0),
    'i3': ({'I2': 1, 'I-': 1}, {'I3-': 1}, 2.9),
}
POOL.update(PIVOT)
PIVOT_NAMES = tuple(PIVOT) + ('agnh3',)
SALTS = {
    'AgCl': ('AgCl(s)', {'Ag+': 1, 'Cl-': 1}, -9.74),
    'BaSO4': ('BaSO4(s)', {'Ba+2': 1, 'SO4-2': 1}, -9.97),
    'CaF2': ('CaF2(s)', {'Ca+2': 1, 'F-': 2}, -10.4),
    'NaCl': ('NaCl(s)', {'Na+': 1, 'Cl-': 1}, 0.6),
    'Ag2CrO4': ('Ag2CrO4(s)', {'Ag+': 2, 'CrO4-2': 1}, -11.9),
}
ACIDBASE = ('nh4', 'hoac', 'co3a', 'co3b')
VARIANTS = ('default', 'log', 'lin', 'square', 'loglin', 'loglin_rref', 'condchain')
LOG_SMALL = math.exp(-36)          # NumSysLog.small: "zero" in the logarithmic formulation

# Oracle tolerances are multiples of the tolerance `tol` the root finder was actually run with (pyneqsys default 1e-8 unless a chain
# passes its own).  Measured on /repo over 5 thorough seeds (17 780 success & sane runs outside the lm finding):
#   totals:  |delta_k| / (tol * sum_j |a_kj| * max(x_j, c0_j))                    max 6.6   (p99.9 2.2)    -> factor 100  (x10 margin, rounded up)
#   Q = K :  |ln Q - ln K| / (tol * sum_j |nu_j| * (1 + |ln x_j|))                max 0.021 (p99.9 0.019)  -> factor 0.25
# (the second scale is the conditioning of ln Q w.r.t. a relative error tol*(1+|ln x_j|) of each concentration: the default formulation
#  iterates on ln c).  Salts use the Q scale for ln(ion product) - ln Ksp.
TOT_FACTOR = 100.0
Q_FACTOR = 0.25
ROUND_ATOL = 1e-13                # float rounding floor, relative to the largest concentration


def _solver_tol(variant):
    """the tolerance the solver is run with for this variant: an explicit `tol` of the chain, else pyneqsys' default"""
    kw = _variant_kwargs(variant) if variant in VARIANTS else {}
    if 'tol' in kw:
        return float(kw['tol'])
    try:
        import inspect
        from pyneqsys.core import NeqSys
        return float(inspect.signature(NeqSys._solve_scipy).parameters['tol'].default)
    except Exception:
        return 1e-8

NEG_ATOL = 0.0                     # _result_is_sane admits no negative entry at all


def _variant_kwargs(v):
    from chempy.equilibria import NumSysLin, NumSysLog
    from chempy._eqsys import NumSysSquare
    return {
        'default': {},
        'log': dict(NumSys=(NumSysLog,)),
        'lin': dict(NumSys=(NumSysLin,)),
        'square': dict(NumSys=(NumSysSquare,)),
        'loglin': dict(NumSys=(NumSysLog, NumSysLin)),
        'loglin_rref': dict(NumSys=(NumSysLog, NumSysLin), rref_preserv=True),
        'condchain': dict(NumSys=(NumSysLog, NumSysLin), neqsys_type='conditional_chained'),
    }[v]


def _run_kwargs(c):
    """solver keyword arguments of a run case: chain variant plus the reduction configuration `rref` = [rref_equil, rref_preserv] if given"""
    kw = dict(_variant_kwargs(c['variant']))
    if c.get('rref') is not None:
        kw['rref_equil'], kw['rref_preserv'] = bool(c['rref'][0]), bool(c['rref'][1])
    return kw


def _fr(v):
    return F(*v) if isinstance(v, list) else F(v)


def _frl(l):
    return [_fr(v) for v in l]


def _success(sol):
    if isinstance(sol, dict):
        return bool(sol['success'])
    return bool(sol[-1]['success'])


def _inner_top(sol):
    """the top-level info dict (the last one if the solver returned a list)"""
    return sol if isinstance(sol, dict) else (sol[-1] if sol else {})


def _inner(sol):
    """the info dict of the last stage actually run (ChainedNeqSys / ConditionalNeqSys nest them in 'intermediate_info')"""
    s = sol
    for _ in range(10):
        if isinstance(s, (list, tuple)) and s:
            s = s[-1]
        elif isinstance(s, dict) and s.get('intermediate_info'):
            s = s['intermediate_info'][-1]
        else:
            break
    return s if isinstance(s, dict) else {}


def _max_fun(sol):
    """largest |residual| the solver itself reports at the returned point (None if it reports none)"""
    best = None
    stack = [sol]
    while stack:
        s = stack.pop()
        if isinstance(s, dict):
            if 'fun' in s:
                try:
                    import numpy as np
                    m = float(np.max(np.abs(np.asarray(s['fun'], dtype=float))))
                    best = m          # the last one visited below is the final one; keep the final stage's value
                except Exception:
                    pass
            for k in ('intermediate_info',):
                if k in s:
                    stack.extend(s[k][-1:])
        elif isinstance(s, (list, tuple)):
            stack.extend(s[-1:])
    return best


class C08(Property):
    pid = 'C08'
    title = ('whenever an equilibrium calculation reports success and a sane result the concentrations are non-negative, '
             'carry the elements and charge of the initial state and satisfy Q = K (Ksp conditions for a sparingly soluble '
             'phase); the default chain succeeds on well-conditioned homogeneous systems; single equilibria agree with brentq')
    props_module = 'ChemModel.Props.C08'
    build_modules = ('ChemModel.Model.EqSolve', 'ChemModel.Basic.Proto')
    driver = 'ChemModel/Driver/C08.lean'
    n_quick, n_thorough = 700, 12000
    float_tol = 1e-12
    rule = ('correspondence (exact, Fractions / dyadic floats): random systems of 1-6 species with phases, compositions and 1-4 '
            'reactions (incl. inactive species, two-solid and zero-net-solid reactions, wrong lengths) for upper_conc_bounds, '
            '_result_is_sane (negative / excessive / boundary entries, default and dyadic rtol), precipitate_stoich, dissolved, '
            'fw/bw switch callbacks (at and around the margin), phase_transfer_reaction_idxs, non_precip_rids, equilibrium_quotient, '
            '_get_rc_interval, the brentq bracket of _solve_equilibrium_coord and equilibrium_residual. '
            'Exploration (not proof): EqSystem.root on systems of 1-3 equilibria drawn from a pool of 10 acid/base/complexation '
            'equilibria (constants +-2 decades, initial concentrations log-uniform 1e-6..1, water 55.5) under the default chain and '
            'the variants log/lin/square/loglin/loglin_rref/condchain; single-salt precipitation systems (5 salts, either '
            'direction); single equilibria against solve_equilibrium (brentq). Buckets "solve:*" in input_distribution carry the '
            'outcome counts. Success rate (success & sane & genuine; failures <= max(2, floor(0.05 n)), n >= 40) is evaluated by four "rate" cases: '
            'root() default (NumSysLog) and the solve()/_solve default chain (NumSysLog, NumSysLin), each on the general pool and on '
            'multi-equilibrium acid/base systems (water + 2-4 of ammonia/acetate/carbonate x2, constants +-1.5 decades, initial '
            'concentrations 1e-6..1e-1). Structural "stages" cases: for multi-stage chains of every neqsys type the residual function '
            'and post-processor of each per-stage system are compared with NumSys_i(eqsys).f evaluated directly. '
            'A case is non-trivial when it is a distinct JSON value.')
    assumptions = (
        'PARTIAL: convergence of pyneqsys/scipy (and what they call success) is runtime behaviour; it is sampled, not proved. '
        'The theorems cover the sanity check, the bounds, dissolved(), the switch conditions and the scalar bracket/residual.',
        'exact model vs Python driven with Fractions / dyadic floats; float rounding inside chempy is not modelled '
        '(numpy float division by zero giving inf/nan instead of ZeroDivisionError is outside the model)',
        'success-rate criterion (the 19-of-20 clause of the property): each default chain (root: NumSysLog; solve/_solve: (NumSysLog, NumSysLin)) must '
        'give success, sane and genuine results on all but max(2, floor(0.05 n)) of n >= 40 well-conditioned homogeneous runs, per pool; '
        'n and the number of failures are in the solve:rate:* buckets '
        '(property asks 19/20; the margin avoids flakiness, the measured rate is in the failure text / notes)',
        'oracle tolerances are multiples of the tolerance tol the solver was run with (pyneqsys default 1e-8): totals |delta_k| <= 100*tol*sum_j|a_kj|*max(x_j,c0_j), '
        '|ln Q - ln K| <= 0.25*tol*sum_j|nu_j|(1+|ln x_j|) (same scale for ln(ion product) - ln Ksp); factors = 10 x the maxima measured over 5 thorough seeds; '
        'solid counted as absent below max(4*exp(-36), 1e-12*scale)',
    )
    clauses_without_theorem = (
        'success AND sane => genuine, as a statement about real runs: that a run reporting sol["success"] has driven the residual of its '
        'last stage to zero (the meaning of "success" in pyneqsys/scipy) is sampled only; the theorems give residual zero AND sane => '
        'genuine (zero_residual_and_sane_is_genuine) and the dichotomy for the final state of the conditional iteration '
        '(precipitate_dichotomy). It is FALSE on the pinned tree for chains ending in NumSysLin/NumSysSquare '
        '(open finding lm-nonroot-reported-as-success).',
        'convergence of the delegated root finders (pyneqsys ConditionalNeqSys/ChainedNeqSys loops, scipy root lm/hybr, brentq), '
        'termination of the condition-switching loop (conditional_maxiter), existence of the root in the brentq bracket (needs continuity '
        'over the reals; uniqueness IS proved): sampled only',
        'the default solver chains report success in at least 19 of 20 well-conditioned homogeneous cases: measured by the four rate cases '
        '(root default, solve()/_solve default chain; general and acid/base pools), threshold failures <= max(2, floor(0.05 n))',
        'numerical agreement of EqSystem.root on single equilibria with solve_equilibrium (brentq): sampled (rtol 1e-5, atol 1e-11 + 1e-9 max c0); '
        'the theorem side is that both characterise the same unique state (scalar_root_is_equilibrium_and_unique + C07 lin/log_zero_iff)',
        'precipitation clause on real runs (5 salts, all chains): oracle only; precipitate_dichotomy assumes small = 0 in the off-branch '
        '(NumSysLin; for NumSysLog/Square an absent solid is represented by small = exp(-36) resp. 1e-35) and single-salt systems',
        'pre/post-processors and float rounding of the NumSys formulations (internal_x0_cb of NumSysLin now has a model op lin_x0 and the theorem lin_internal_x0_spec; those of Log/Square are constants / sqrt|c0|); stage i of a chain uses formulation i '
        '(structural "stages" oracle, no theorem); rref_equil / rref_preserv variants',
        'histories on one EqSystem object (solve, change rxn.param in place, solve again: every result judged against the CURRENT constants) '
        'and the varied entry points solve(init, varied) / roots on real runs: oracle only (kinds history, grid); the grid construction itself '
        'has a theorem (varied_grid_point_spec) and exact correspondence (op varied); fw callbacks re-read the constant at call time: correspondence (k_first)',
        'warm starts on real runs (x0 = solution / initial state of another composition, array or dict; root and _solve): oracle kind warm; that the '
        'parameter vector is init_concs ++ constants whatever x0 is: correspondence op root_args (stand-in solver capturing the real call) tied to the '
        'model function rootArgs, about which warm_start_keeps_initial_totals is a theorem',
        'reduction configurations rref_equil x rref_preserv (sympy row reduction via pyneqsys; fractional exponents for non-unit pivot coefficients): the exact-zero composition with C07 is '
        'zero_residual_and_sane_is_genuine_cfg (row-equivalence of the reduced blocks, i.e. what sympy returned, is a hypothesis there); on real runs covered by solver runs on the pivot family (dimerisations, 2:1 / 3:2 / 2:2 complexes, pivot species first) '
        'under every configuration and chain with the genuineness oracle, and by the structural stages oracle comparing the residual the solver sees with '
        'an independent evaluation of the row-reduced equations (exact rational exponents)',
        'EqCalcResult.solve / _solve bookkeeping (recorded success, sane, conc, nfev equal those of the underlying _solve; a failed root finding is '
        'warned about and never recorded as success) and roots(..., plot_kwargs=...) (same numbers as without plotting, ValueError for contradictory '
        'plot arguments): oracle kinds calc / roots_plot, no model (driver plumbing around pyneqsys / matplotlib)',
        'precipitation x reduction configuration x under-/super-saturated starts on real runs: oracle only (family saltrref); on the pinned tree NumSysLin + '
        'rref_equil with a switched-off solid yields a NaN residual reported as success (open finding nan-residual-reported-as-success)',
        'hon/hoff of precipitate_dichotomy are assumptions, not derived from the C07 residual rows (the two system models are not bridged), and its off-branch '
        'assumes small = 0 (review 2-F top-2, not done); the epsilon-theorems (small_residual_and_sane_is_approximately_genuine, lin/log_residual_within_iff) '
        'cover homogeneous systems with rref=False: what stays outside is that a run reporting success really ends with |f| <= tol (pyneqsys/scipy), and the '
        'epsilon-version under the reduction configurations',
        '_result_is_sane on non-finite entries: NaN passes both tests (theorem sane_accepts_nan_defect_witness, correspondence op sane_nan); sane => non-negative '
        'therefore holds only for NaN-free results; fw_cond/bw_cond ignore the parameter vector p and read rxn.param (correspondence passes a junk p)',
    )
    anchors = (
        ('chempy/equilibria.py', 'EqSystem._result_is_sane'),
        ('chempy/equilibria.py', 'EqSystem.dissolved'),
        ('chempy/equilibria.py', 'EqSystem._fw_cond_factory'),
        ('chempy/equilibria.py', 'EqSystem._bw_cond_factory'),
        ('chempy/equilibria.py', 'EqSystem.non_precip_rids'),
        ('chempy/equilibria.py', 'EqSystem.phase_transfer_reaction_idxs'),
        ('chempy/equilibria.py', 'EqSystem.root'),
        ('chempy/equilibria.py', 'EqSystem._solve'),
        ('chempy/equilibria.py', 'EqSystem.get_neqsys_chained_conditional'),
        ('chempy/equilibria.py', 'EqSystem.get_neqsys_conditional_chained'),
        ('chempy/equilibria.py', 'EqSystem.get_neqsys_static_conditions'),
        ('chempy/equilibria.py', 'EqSystem.get_neqsys'),
        ('chempy/equilibria.py', 'EqSystem._SymbolicSys_from_NumSys'),
        ('chempy/equilibria.py', 'EqSystem.solve'),
        ('chempy/_eqsys.py', 'EqCalcResult.__init__'),
        ('chempy/_eqsys.py', 'EqCalcResult.solve'),
        ('chempy/reactionsystem.py', 'ReactionSystem.upper_conc_bounds'),
        ('chempy/reactionsystem.py', 'ReactionSystem.per_substance_varied'),
        ('chempy/equilibria.py', 'EqSystem.roots'),
        ('chempy/chemistry.py', 'Reaction.precipitate_stoich'),
        ('chempy/chemistry.py', 'Reaction._xprecipitate_stoich'),
        ('chempy/chemistry.py', 'Reaction.has_precipitates'),
        ('chempy/chemistry.py', 'Reaction.net_stoich'),
        ('chempy/chemistry.py', 'equilibrium_quotient'),
        ('chempy/_equilibrium.py', '_get_rc_interval'),
        ('chempy/_equilibrium.py', 'equilibrium_residual'),
        ('chempy/_equilibrium.py', '_solve_equilibrium_coord'),
        ('chempy/_equilibrium.py', 'solve_equilibrium'),
        ('chempy/_eqsys.py', 'NumSysLog'),
        ('chempy/_eqsys.py', 'NumSysLin'),
    )

    def __init__(self):
        self._runs = {}

    # ------------------------------------------------------------------------------------------
    # generators
    def _dy(self, rng, lo=0, hi=64, den=8):
        """a dyadic non-negative rational (exact as a float)"""
        return F(rng.randint(lo, hi), den)

    def _gen_rxn(self, rng, ns, phases):
        idxs = list(range(ns))
        rng.shuffle(idxs)
        nre = rng.randint(1, max(1, min(2, ns - 1)))
        npr = rng.randint(1, max(1, min(2, ns - nre)))
        re_, pr_ = idxs[:nre], idxs[nre:nre + npr]
        r = {'reac': [[k, rng.randint(1, 3)] for k in re_], 'prod': [[k, rng.randint(1, 3)] for k in pr_],
             'inact_reac': [], 'inact_prod': []}
        u = rng.random()
        if u < 0.15:        # an inactive species
            k = rng.randrange(ns)
            side = rng.choice(['inact_reac', 'inact_prod'])
            if all(k != kk for kk, _ in r[side]):
                r[side].append([k, rng.randint(1, 2)])
        elif u < 0.25:      # the same species on both sides (may cancel -> zero net solid)
            k, v = rng.choice(r['reac'])
            if all(k != kk for kk, _ in r['prod']):
                r['prod'].append([k, rng.choice([v, v, rng.randint(1, 3)])])
        return r

    def _gen_system(self, rng, single_solid_bias=0.7):
        ns = rng.randint(1, 6)
        phases = [0] * ns
        u = rng.random()
        if u < 0.75 and ns >= 2:
            phases[rng.randrange(ns)] = rng.choice([1, 1, 2])
            if rng.random() > single_solid_bias:
                phases[rng.randrange(ns)] = 1
        nr = rng.randint(1, 4)
        rxns = [self._gen_rxn(rng, ns, phases) for _ in range(nr)]
        return phases, rxns

    def _gen_salt_system(self, rng):
        """a balanced salt system: ions (and spectators) in phase 0, one solid per phase-transfer reaction;
        returns phases, rxns, comps (balanced)"""
        n_salts = rng.choice([1, 1, 2])
        phases, comps, rxns = [], [], []
        elem = 10
        for s in range(n_salts):
            a, b = rng.randint(1, 3), rng.randint(1, 3)
            ea, eb = elem, elem + 1
            elem += 2
            i0 = len(phases)
            za, zb = b, -a     # charges so that a*za + b*zb = 0
            phases += [0, 0, 1]
            comps += [[[0, za], [ea, 1]], [[0, zb], [eb, 1]], [[ea, a], [eb, b]]]
            if rng.random() < 0.5:
                rxns.append({'reac': [[i0 + 2, 1]], 'prod': [[i0, a], [i0 + 1, b]], 'inact_reac': [], 'inact_prod': []})
            else:
                rxns.append({'reac': [[i0, a], [i0 + 1, b]], 'prod': [[i0 + 2, 1]], 'inact_reac': [], 'inact_prod': []})
        if rng.random() < 0.4:     # a homogeneous reaction between the ions of salt 0: A + B = AB(aq)
            i0 = len(phases)
            phases.append(0)
            ca, cb = comps[0], comps[1]
            comps.append([[0, ca[0][1] + cb[0][1]], [ca[1][0], 1], [cb[1][0], 1]])
            rxns.append({'reac': [[0, 1], [1, 1]], 'prod': [[i0, 1]], 'inact_reac': [], 'inact_prod': []})
        return phases, rxns, comps

    def _gen_comps(self, rng, ns, zero_coeff=False):
        comps = []
        keys = [1, 6, 7, 8, 11, 17, 29]
        for _ in range(ns):
            u = rng.random()
            if u < 0.08:
                comp = [[0, rng.choice([-1, 1])]] if rng.random() < 0.5 else []
            else:
                ks = rng.sample(keys, rng.randint(1, 3))
                comp = [[k, rng.randint(1, 4)] for k in ks]
                if rng.random() < 0.5:
                    comp.insert(rng.randint(0, len(comp)), [0, rng.randint(-3, 3)])
                if zero_coeff and rng.random() < 0.5:
                    comp[rng.randrange(len(comp))][1] = 0
            comps.append(comp)
        return comps

    def _ub_exact(self, comps, init):
        """independent evaluation of the elemental upper bounds (Fractions); None = unbounded"""
        tot = {}
        for c, comp in zip(init, comps):
            for k, v in comp:
                if k != 0:
                    tot[k] = tot.get(k, 0) + F(v) * c
        out = []
        for comp in comps:
            ch = [tot[k] / F(v) for k, v in comp if k != 0]
            out.append(min(ch) if ch else None)
        return out

    def generate(self, rng, n, tier):
        cases = []
        n_solver = max(60, n // 5)
        n_craft = n - n_solver
        ops = ['ucb', 'sane', 'sane', 'sane', 'precip_stoich', 'dissolved', 'dissolved', 'fw', 'fw', 'bw', 'ptidx', 'nonprecip',
               'quotient', 'rc_interval', 'rc_interval', 'bracket', 'residual', 'net_stoich', 'varied', 'varied', 'root_args', 'quotient_rows', 'residual_act', 'residual_multi', 'sane_nan', 'dissolved_int', 'lin_x0']
        for i in range(n_craft):
            cases.append(self._gen_crafted(rng, ops[i % len(ops)]))
        cases.extend(self._gen_solver(rng, n_solver))
        return cases

    def _gen_crafted(self, rng, op):
        rj = rat_json
        if op == 'ucb':
            ns = rng.randint(1, 6)
            comps = self._gen_comps(rng, ns, zero_coeff=rng.random() < 0.1)
            init = [rj(self._dy(rng) * 60) for _ in range(ns if rng.random() < 0.93 else ns + rng.choice([1, 2]))]
            return {'op': 'ucb', 'comps': comps, 'init': init}
        if op == 'sane':
            ns = rng.randint(2, 6)
            comps = self._gen_comps(rng, ns)
            init = [self._dy(rng) * 60 for _ in range(ns)]
            ub = self._ub_exact(comps, init)
            mode = rng.choice(['inside', 'negative', 'tiny-negative', 'excess', 'boundary', 'boundary+', 'default-in', 'default-out',
                               'mismatch'])
            c = {'op': 'sane', 'comps': comps, 'init': [rj(v) for v in init], 'mode': mode}
            rtol = None
            if not mode.startswith('default'):
                rtol = F(1, 2 ** rng.choice([10, 20, 30]))
                c['rtol'] = rj(rtol)
            x = []
            for b in ub:
                if b is None:
                    x.append(self._dy(rng) * 1000)
                else:
                    x.append(b * F(rng.randint(0, 16), 16))
            j = rng.randrange(ns)
            bj = ub[j]
            if mode == 'negative':
                x[j] = -self._dy(rng, 1) - F(1, 8)
            elif mode == 'tiny-negative':
                x[j] = -F(1, 2 ** rng.choice([40, 200, 1000]))
            elif mode == 'excess' and bj is not None:
                x[j] = bj * F(rng.randint(17, 40), 16) + F(1, 8)
            elif mode == 'boundary' and bj is not None:
                x[j] = bj * (1 + rtol)
            elif mode == 'boundary+' and bj is not None and bj > 0:
                x[j] = bj * (1 + rtol) + F(1, 2 ** 34)
            elif mode == 'default-in' and bj is not None:
                x[j] = bj * (1 + F(1, 2 ** 31))          # 4.7e-10 < 1e-9
            elif mode == 'default-out' and bj is not None and bj > 0:
                x[j] = bj * (1 + F(1, 2 ** 29))          # 1.9e-9 > 1e-9
            elif mode == 'mismatch':
                x = x + [F(1)] if rng.random() < 0.5 else x + [F(1), F(2)]
            if any(F(float(v)) != v for v in x):      # keep every entry exactly representable as a double
                x = [F(float(v)) for v in x]
                c['mode'] = mode + ':rounded'
            c['x'] = [rj(v) for v in x]
            return c
        if op in ('precip_stoich', 'net_stoich'):
            phases, rxns = self._gen_system(rng, single_solid_bias=0.5)
            r = rng.choice(rxns)
            if op == 'net_stoich':
                return {'op': 'net_stoich', 'ns': len(phases), 'rxn': r, 'phases': phases}
            return {'op': 'precip_stoich', 'phases': phases, 'rxn': r}
        if op in ('ptidx', 'nonprecip'):
            phases, rxns = self._gen_system(rng)
            c = {'op': op, 'phases': phases, 'rxns': rxns}
            if op == 'nonprecip':
                c['precipitates'] = [rng.random() < 0.5 for _ in range(rng.randint(0, len(rxns) + 1))]
            return c
        if op == 'quotient':
            n = rng.randint(0, 5)
            concs = [rj(F(rng.randint(0 if rng.random() < 0.15 else 1, 9), rng.randint(1, 5))) for _ in range(n)]
            stoich = [rng.randint(-3, 3) for _ in range(max(0, n + rng.choice([0, 0, 0, 1, -1])))]
            return {'op': 'quotient', 'concs': concs, 'stoich': stoich}
        if op in ('dissolved', 'fw', 'bw'):
            balanced = rng.random() < 0.6
            if balanced:
                phases, rxns, comps = self._gen_salt_system(rng)
            else:
                phases, rxns = self._gen_system(rng)
                comps = None
            ns = len(phases)
            x = [F(rng.randint(0 if rng.random() < 0.2 else 1, 40), rng.choice([1, 2, 3, 5, 8])) for _ in range(ns)]
            if op == 'dissolved':
                if rng.random() < 0.06 and ns >= 2:
                    x = x[:-1] if rng.random() < 0.5 else x + [F(1), F(2)]
                c = {'op': 'dissolved', 'phases': phases, 'rxns': rxns, 'c': [rj(v) for v in x], 'balanced': balanced}
                if comps:
                    c['comps'] = comps
                return c
            pt = [i for i, r in enumerate(rxns) if any(phases[k] > 0 for side in ('reac', 'prod', 'inact_reac', 'inact_prod') for k, _ in r[side])]
            ri = rng.choice(pt) if pt and rng.random() < 0.9 else rng.randrange(len(rxns))
            if op == 'bw':
                small = rng.choice([F(0), F(1, 10 ** 35), F(math.exp(-36)), F(1, 2), F(5)])
                if rng.random() < 0.3:      # exactly at the threshold
                    sidx = [k for k in range(ns) if phases[k] > 0]
                    if sidx:
                        x[rng.choice(sidx)] = small
                return {'op': 'bw', 'phases': phases, 'rxns': rxns, 'ri': ri, 'small': rj(small), 'x': [rj(v) for v in x]}
            # fw: choose K relative to the ion product of the dissolved state so that the margin is probed
            c = {'op': 'fw', 'phases': phases, 'rxns': rxns, 'ri': ri, 'x': [rj(v) for v in x], 'balanced': balanced}
            q = self._q_dissolved(phases, rxns, ri, x)
            mode = rng.choice(['far', 'far', 'at', 'just-in', 'just-out', 'default-in', 'default-out'])
            c['mode'] = mode
            if mode.startswith('default'):
                rtol = F(1, 10 ** 14)
            else:
                rtol = F(1, 2 ** rng.choice([20, 40]))
                c['rtol'] = rj(rtol)
            if q is None or q == 0:
                k = F(rng.randint(1, 50), rng.randint(1, 50))
            else:
                coeff = self._solid_coeff(phases, rxns[ri])
                up = coeff is not None and coeff > 0
                base = q * (1 + rtol) if up else q / (1 + rtol)
                if mode == 'far':
                    k = q * F(rng.randint(1, 40), rng.randint(1, 40))
                elif mode == 'at':
                    k = base
                elif mode == 'just-in':
                    k = base * (1 + F(1, 2 ** 60)) if up else base * (1 - F(1, 2 ** 60))
                elif mode == 'just-out':
                    k = base * (1 - F(1, 2 ** 60)) if up else base * (1 + F(1, 2 ** 60))
                elif mode == 'default-in':      # margin 3e-14 vs rtol 1e-14
                    k = q * (1 + F(3, 10 ** 14)) if up else q / (1 + F(3, 10 ** 14))
                else:                           # margin 0.3e-14
                    k = q * (1 + F(3, 10 ** 15)) if up else q / (1 + F(3, 10 ** 15))
            c['k'] = rj(k)
            if rng.random() < 0.3:       # history: the callback is created while the reaction has another constant, which is then changed in place
                c['k_first'] = rj(k * F(rng.choice([1, 3, 1000]), rng.choice([1, 7, 1000])))
            return c
        if op == 'sane_nan':           # float results with NaN entries: both comparisons of _result_is_sane are False for NaN
            base = self._gen_crafted(rng, 'sane')
            while base['mode'].startswith('mismatch'):
                base = self._gen_crafted(rng, 'sane')
            x = list(base['x'])
            for j in rng.sample(range(len(x)), rng.randint(1, len(x))):
                x[j] = None
            base.update(op='sane_nan', x=x, mode='nan:' + base['mode'])
            return base
        if op == 'lin_x0':             # NumSysLin.internal_x0_cb: (99*c0 + dissolved(c0))/100
            base = self._gen_crafted(rng, 'dissolved')
            base['op'] = 'lin_x0'
            return base
        if op == 'dissolved_int':      # integer numpy array: the in-place update cannot be cast back
            phases, rxns = self._gen_system(rng)
            return {'op': 'dissolved_int', 'phases': phases, 'rxns': rxns, 'c': [rng.randint(0, 9) for _ in phases]}
        if op == 'quotient_rows':       # 2-d concs: one state per row (float arrays in numpy: dyadic values, powers stay exact)
            nrow, n = rng.randint(1, 4), rng.randint(1, 4)
            concs = [[rj(F(2) ** rng.randint(-3, 3) * rng.choice([1, 1, 3])) for _ in range(n)] for _ in range(nrow)]
            stoich = [rng.randint(-2, 3) for _ in range(max(0, n + rng.choice([0, 0, 0, 1, -1])))]
            return {'op': 'quotient_rows', 'concs': concs, 'stoich': stoich}
        if op == 'residual_act':
            n = rng.randint(1, 4)
            stoich = [rng.choice([-2, -1, -1, 1, 1, 2]) for _ in range(n)]
            c0 = [F(rng.randint(1, 30), rng.choice([1, 2, 3, 7])) for _ in range(n)]
            rc = F(rng.randint(-8, 8), rng.choice([1, 3, 8, 16]))
            act = [rng.choice([0, 0, 1, -1, 2]) for _ in range(n)]
            c = {'op': 'residual_act', 'stoich': stoich, 'c0': [rj(v) for v in c0], 'rc': rj(rc), 'act_exp': act}
            cs = [a_ + s_ * rc for a_, s_ in zip(c0, stoich)]
            if rng.random() < 0.5 and all(v != 0 for v in cs):
                k = F(1)
                for v, s_, e in zip(cs, stoich, act):
                    k *= v ** (s_ + e)
                c['K'], c['at_equilibrium'] = rj(k), True
            else:
                c['K'] = rj(F(rng.randint(1, 99), rng.randint(1, 99)))
            if rng.random() < 0.06 and n >= 2:
                c['c0'] = c['c0'] + [1]
            return c
        if op == 'residual_multi':
            ns, nr = rng.randint(1, 5), rng.randint(1, 3)
            stoich = [[rng.choice([-2, -1, 0, 0, 1, 1, 2]) for _ in range(nr)] for _ in range(ns)]
            c0 = [F(rng.randint(0 if rng.random() < 0.1 else 1, 30), rng.choice([1, 2, 3, 7])) for _ in range(ns)]
            rc = [F(rng.randint(-6, 6), rng.choice([1, 3, 8, 16])) for _ in range(nr)]
            c = {'op': 'residual_multi', 'stoich': stoich, 'c0': [rj(v) for v in c0], 'rc': [rj(v) for v in rc]}
            cs = [a_ + sum(n_ * r_ for n_, r_ in zip(row, rc)) for a_, row in zip(c0, stoich)]
            if rng.random() < 0.5 and all(v != 0 for v in cs):
                ks = []
                for r_ in range(nr):
                    k = F(1)
                    for v, row in zip(cs, stoich):
                        k *= v ** row[r_]
                    ks.append(k)
                c['K'], c['at_equilibrium'] = [rj(k) for k in ks], True
            else:
                c['K'] = [rj(F(rng.randint(1, 99), rng.randint(1, 99))) for _ in range(nr)]
            u = rng.random()
            if u < 0.04 and ns >= 2:
                c['c0'] = c['c0'] + [1, 1]
            elif u < 0.08 and nr >= 2:
                c['rc'] = c['rc'] + [1, 1]
            return c
        if op == 'root_args':
            ns = rng.randint(2, 5)
            nr = rng.randint(1, 3)
            u = rng.random()
            x0 = None if u < 0.25 else [rj(self._dy(rng, 0, 400, 16)) for _ in range(ns)]
            return {'op': 'root_args', 'entry': rng.choice(['root', '_solve']), 'x0_as': rng.choice(['array', 'array', 'list']),
                    'init': [rj(self._dy(rng, 1, 400, 16)) for _ in range(ns)], 'x0': x0,
                    'consts': [rj(self._dy(rng, 1, 4000, 32)) for _ in range(nr)]}
        if op == 'varied':
            ns = rng.randint(1, 5)
            base = [self._dy(rng) for _ in range(ns)]
            nv = rng.randint(0, min(3, ns))
            ks = rng.sample(range(ns), nv)            # the user's dict order: arbitrary w.r.t. the substance order
            equal = rng.random() < 0.6                  # equal numbers of levels: a transposed grid has the same shape
            m = rng.randint(1, 3)
            varied = [[k, [rj(self._dy(rng, 0, 400, 16)) for _ in range(m if equal else rng.randint(0, 3))]] for k in ks]
            u = rng.random()
            if u < 0.06:
                varied.insert(rng.randint(0, len(varied)), [ns + rng.randint(0, 2), [rj(self._dy(rng))]])
            elif u < 0.1:
                base = base + [F(1)]
            return {'op': 'varied', 'ns': ns, 'base': [rj(v) for v in base], 'varied': varied}
        if op in ('rc_interval', 'bracket', 'residual'):
            n = rng.randint(1, 5)
            stoich = [rng.choice([-3, -2, -1, -1, 1, 1, 2, 3]) for _ in range(n)]
            c0 = [F(rng.randint(1, 30), rng.choice([1, 2, 3, 7])) for _ in range(n)]
            u = rng.random()
            if u < 0.2:
                c0[rng.randrange(n)] = F(0)
            elif u < 0.25:
                c0 = [F(0)] * n
            if op == 'rc_interval':
                if rng.random() < 0.08:
                    stoich[rng.randrange(n)] = 0
                if rng.random() < 0.06 and n >= 2:
                    c0 = c0 + [F(1), F(1)]
                return {'op': 'rc_interval', 'stoich': stoich, 'c0': [rj(v) for v in c0]}
            if op == 'bracket':
                for _ in range(rng.choice([0, 1, 2])):
                    pos = rng.randint(0, len(stoich))
                    stoich.insert(pos, 0)
                    c0.insert(pos, F(rng.randint(0, 9), 2))
                return {'op': 'bracket', 'stoich': stoich, 'c0': [rj(v) for v in c0]}
            # residual: optionally at an exactly constructed equilibrium
            rc = F(rng.randint(-20, 20), rng.choice([1, 3, 8, 16]))
            c = {'op': 'residual', 'stoich': stoich, 'c0': [rj(v) for v in c0], 'rc': rj(rc)}
            cs = [a + s * rc for a, s in zip(c0, stoich)]
            if rng.random() < 0.5 and all(v != 0 for v in cs):
                k = F(1)
                for v, s in zip(cs, stoich):
                    k *= v ** s
                c['K'] = rj(k)
                c['at_equilibrium'] = True
            else:
                c['K'] = rj(F(rng.randint(1, 99), rng.randint(1, 99)))
            return c
        raise AssertionError(op)

    @staticmethod
    def _solid_coeff(phases, r):
        net = {}
        for side, sg in (('prod', 1), ('inact_prod', 1), ('reac', -1), ('inact_reac', -1)):
            for k, v in r[side]:
                net[k] = net.get(k, 0) + sg * v
        nz = [(k, v) for k, v in sorted(net.items()) if phases[k] > 0 and v != 0]
        return nz[0][1] if len(nz) == 1 else None

    def _q_dissolved(self, phases, rxns, ri, x):
        """ion product (Q over non-solid species) of the fully dissolved state, computed here independently; None if undefined"""
        try:
            d = self._dissolve_indep(phases, rxns, x)
            if d is None:
                return None
            return self._q_indep(phases, rxns[ri], d)
        except ZeroDivisionError:
            return None

    @staticmethod
    def _net(r, ns):
        net = [0] * ns
        for side, sg in (('prod', 1), ('inact_prod', 1), ('reac', -1), ('inact_reac', -1)):
            for k, v in r[side]:
                net[k] += sg * v
        return net

    def _dissolve_indep(self, phases, rxns, x):
        """move every solid of a single-solid reaction into the other species (independent of chempy)"""
        ns = len(phases)
        if len(x) != ns:
            return None
        d = list(x)
        for r in rxns:
            keys = [k for side in ('reac', 'prod', 'inact_reac', 'inact_prod') for k, _ in r[side]]
            if not any(phases[k] > 0 for k in keys):
                continue
            net = self._net(r, ns)
            sol = [k for k in range(ns) if phases[k] > 0 and net[k] != 0]
            if len(sol) != 1:
                return None
            s = sol[0]
            f = d[s] / net[s]
            d = [a - f * n for a, n in zip(d, net)]
        return d

    def _q_indep(self, phases, r, d):
        net = self._net(r, len(phases))
        q = F(1)
        for k, n in enumerate(net):
            if phases[k] == 0:
                q *= F(d[k]) ** n
        return q

    # ---- solver exploration cases ---------------------------------------------------------------
    def _gen_solver(self, rng, n):
        cases = []
        n_h = max(40, int(n * 0.6))
        n_s = max(8, int(n * 0.15))
        n_1 = max(8, int(n * 0.12))
        names = [k for k in POOL if k not in PIVOT]
        rate_specs, solve_specs, rate_ab, solve_ab = [], [], [], []
        others = [v for v in VARIANTS if v not in ('default', 'condchain')]
        i = 0
        while len(rate_specs) < max(42, n_h // 2):
            k = rng.choice([1, 1, 2, 2, 3])
            sel = rng.sample(names, k)
            subs = []
            for nm in sel:
                for s in list(POOL[nm][0]) + list(POOL[nm][1]):
                    if s not in subs:
                        subs.append(s)
            rng.shuffle(subs)
            spec = {'kind': 'homog', 'eqs': sel, 'logK': [round(POOL[nm][2] + rng.uniform(-2, 2), 6) for nm in sel],
                    'subs': subs, 'init': [55.5 if s == 'H2O' else float('%.6g' % 10 ** rng.uniform(-6, 0)) for s in subs]}
            d = dict(spec, variant='default')
            cases.append(d)
            rate_specs.append(d)
            d2 = dict(spec, variant='solve')          # the (NumSysLog, NumSysLin) default chain of EqSystem.solve/_solve
            cases.append(d2)
            solve_specs.append(d2)
            cases.append(dict(spec, variant=others[i % len(others)]))
            i += 1
        # multi-equilibrium acid/base systems (water + 2..4 of ammonia / acetate / carbonate x2) sharing H+, spanning many decades
        for j in range(max(42, n_h // 3)):
            sel = ['water'] + rng.sample(ACIDBASE, rng.randint(2, 4))
            subs = []
            for nm in sel:
                for s_ in list(POOL[nm][0]) + list(POOL[nm][1]):
                    if s_ not in subs:
                        subs.append(s_)
            rng.shuffle(subs)
            spec = {'kind': 'homog', 'family': 'acidbase', 'eqs': sel,
                    'logK': [round(POOL[nm][2] + rng.uniform(-1.5, 1.5), 6) for nm in sel], 'subs': subs,
                    'init': [55.5 if s_ == 'H2O' else float('%.6g' % 10 ** rng.uniform(-6, -1)) for s_ in subs]}
            d, d2 = dict(spec, variant='default'), dict(spec, variant='solve')
            cases += [d, d2]
            rate_ab.append(d)
            solve_ab.append(d2)
        # non-unit pivot coefficients x every reduction configuration (rref_equil x rref_preserv) x chain, in several substance orders
        pv_chains = ['log', 'lin', 'square', 'loglin', 'default']
        for j in range(max(24, n // 20)):
            sel = rng.sample(PIVOT_NAMES, rng.choice([1, 1, 2]))
            if rng.random() < 0.3 and ('cu2oh2' in sel or 'dichromate' in sel):
                sel.append('water')
            subs = []
            for nm in sel:
                for s_ in list(POOL[nm][0]) + list(POOL[nm][1]):
                    if s_ not in subs:
                        subs.append(s_)
            rng.shuffle(subs)
            if j % 2 == 0:        # a species with coefficient >= 2 first: it becomes the pivot of the row reduction
                heavy = [s_ for nm in sel for s_, v in list(POOL[nm][0].items()) + list(POOL[nm][1].items()) if v >= 2]
                if heavy:
                    h = rng.choice(heavy)
                    subs.remove(h)
                    subs.insert(0, h)
            cases.append({'kind': 'homog', 'family': 'pivot', 'eqs': sel, 'logK': [round(POOL[nm][2] + rng.uniform(-1.5, 1.5), 6) for nm in sel],
                          'subs': subs, 'init': [55.5 if s_ == 'H2O' else float('%.6g' % 10 ** rng.uniform(-4, -1)) for s_ in subs],
                          'variant': pv_chains[j % len(pv_chains)], 'rref': [bool((j // 5) % 2), bool((j // 10) % 2)]})
        # precipitation x reduction configuration x under-/super-saturated start (solid initially present or not) x chain
        sr_chains = ['default', 'log', 'loglin', 'lin', 'square', 'condchain']
        for j in range(max(24, n // 20)):
            nm = rng.choice(list(SALTS))
            solid, ions, lk = SALTS[nm]
            subs = list(ions) + [solid]
            rng.shuffle(subs)
            init = [float('%.4g' % 10 ** rng.uniform(-4, -0.5)) if s_ != solid else rng.choice([0.0, float('%.3g' % 10 ** rng.uniform(-3, -1))]) for s_ in subs]
            lip = sum(v * math.log10(init[subs.index(k_)]) for k_, v in ions.items())
            cases.append({'kind': 'salt', 'family': 'saltrref', 'salt': nm, 'logKsp': round(lip + (1.5 if (j // 2) % 2 == 0 else -1.5) + rng.uniform(-0.4, 0.4), 6),
                          'flip': rng.random() < 0.5, 'subs': subs, 'init': init, 'variant': sr_chains[j % len(sr_chains)],
                          'rref': [j % 2 == 0 or j % 5 == 0, (j // 6) % 3 == 2]})
        # structural: stage i of a multi-stage chain is built from NumSys class i
        chains = [['log', 'lin'], ['lin', 'log'], ['log', 'square'], ['square', 'lin'], ['log', 'lin', 'square']]
        types = ['chained_conditional', 'chained_conditional', 'conditional_chained', 'static_conditions']
        for j in range(max(12, n // 30)):
            if j % 3 == 2:
                nm = rng.choice(list(SALTS))
                solid, ions, lk = SALTS[nm]
                sys_ = {'kind': 'salt', 'salt': nm, 'logKsp': round(lk + rng.uniform(-2, 2), 6), 'flip': rng.random() < 0.5,
                        'subs': list(ions) + [solid]}
            else:
                sel = rng.sample(names, rng.choice([1, 2]))
                subs = []
                for nm in sel:
                    for s_ in list(POOL[nm][0]) + list(POOL[nm][1]):
                        if s_ not in subs:
                            subs.append(s_)
                sys_ = {'kind': 'homog', 'eqs': sel, 'logK': [round(POOL[nm][2] + rng.uniform(-2, 2), 6) for nm in sel], 'subs': subs}
            rref = None
            if sys_['kind'] == 'homog' and j % 2 == 1:      # the residual the solver sees under a reduction configuration, pivot systems
                sel = rng.sample(PIVOT_NAMES, rng.choice([1, 2]))
                subs = []
                for nm in sel:
                    for s_ in list(POOL[nm][0]) + list(POOL[nm][1]):
                        if s_ not in subs:
                            subs.append(s_)
                rng.shuffle(subs)
                sys_ = {'kind': 'homog', 'eqs': sel, 'logK': [round(POOL[nm][2] + rng.uniform(-1, 1), 6) for nm in sel], 'subs': subs}
                rref = [[True, False], [True, True], [False, True]][(j // 2) % 3]
            cases.append({'kind': 'stages', 'system': sys_, 'chain': chains[j % len(chains)], 'neqsys_type': types[j % len(types)], 'rref': rref,
                          'y': [round(rng.uniform(0.05, 2.0), 4) for _ in sys_['subs']],
                          'init': [float('%.4g' % 10 ** rng.uniform(-4, 0)) for _ in sys_['subs']]})
        for j in range(n_s):
            nm = rng.choice(list(SALTS))
            solid, ions, lk = SALTS[nm]
            subs = list(ions) + [solid]
            rng.shuffle(subs)
            spec = {'kind': 'salt', 'salt': nm, 'logKsp': round(lk + rng.uniform(-2, 2), 6), 'flip': rng.random() < 0.5, 'subs': subs,
                    'init': [(rng.choice([0.0, float('%.6g' % 10 ** rng.uniform(-6, 0))]) if s == solid else float('%.6g' % 10 ** rng.uniform(-7, 0)))
                             for s in subs], 'variant': VARIANTS[j % len(VARIANTS)]}
            cases.append(spec)
        for j in range(n_1):
            nm = rng.choice(names)
            subs = list(POOL[nm][0]) + list(POOL[nm][1])
            cases.append({'kind': 'single', 'eqs': [nm], 'logK': [round(POOL[nm][2] + rng.uniform(-2, 2), 6)], 'subs': subs,
                          'init': [55.5 if s == 'H2O' else float('%.6g' % 10 ** rng.uniform(-6, 0)) for s in subs],
                          'variant': rng.choice(['default', 'loglin'])})
        for j in range(max(6, n // 12)):       # the scalar solver on its own, strictly positive and with zeros
            m = rng.randint(2, 4)
            stoich = [rng.choice([-2, -1, -1, 1, 1, 2]) for _ in range(m)]
            if all(s > 0 for s in stoich) or all(s < 0 for s in stoich):
                stoich[0] = -stoich[0]
            c0 = [float('%.6g' % 10 ** rng.uniform(-4, 0)) for _ in range(m)]
            cases.append({'kind': 'scalar', 'stoich': stoich, 'c0': c0, 'logK': round(rng.uniform(-6, 6), 4)})
        # varied entry points: EqSystem.solve(init, varied) / roots — 2-3 varied substances in an arbitrary dict order
        for j in range(max(8, n // 40)):
            sel = (['water'] + rng.sample(ACIDBASE, rng.randint(1, 2))) if j % 2 else rng.sample(names, rng.choice([1, 2]))
            subs = []
            for nm in sel:
                for s_ in list(POOL[nm][0]) + list(POOL[nm][1]):
                    if s_ not in subs:
                        subs.append(s_)
            rng.shuffle(subs)
            cand = [s_ for s_ in subs if s_ != 'H2O']
            api = 'roots' if j % 4 == 3 else 'solve'
            nv = 1 if api == 'roots' else min(len(cand), rng.choice([2, 2, 3]))
            m = rng.choice([2, 3]) if nv < 3 else 2
            vk = rng.sample(cand, nv)                 # the user's order
            cases.append({'kind': 'grid', 'api': api, 'eqs': sel, 'logK': [round(POOL[nm][2] + rng.uniform(-1.5, 1.5), 6) for nm in sel],
                          'subs': subs, 'init': [55.5 if s_ == 'H2O' else float('%.6g' % 10 ** rng.uniform(-5, -1)) for s_ in subs],
                          'varied': [[k, sorted(float('%.6g' % 10 ** rng.uniform(-5, -1)) for _ in range(m))] for k in vk]})
        # warm starts: the documented x0= argument with a guess that belongs to ANOTHER composition (titration / series walking)
        for j in range(max(12, n // 35)):
            fam = j % 2
            sel = (['water'] + rng.sample(ACIDBASE, rng.randint(1, 3))) if fam else rng.sample(names, rng.choice([1, 2, 3]))
            subs = []
            for nm in sel:
                for s_ in list(POOL[nm][0]) + list(POOL[nm][1]):
                    if s_ not in subs:
                        subs.append(s_)
            rng.shuffle(subs)
            mk = lambda: [55.5 if s_ == 'H2O' else float('%.6g' % 10 ** rng.uniform(-5, -1)) for s_ in subs]
            cases.append({'kind': 'warm', 'eqs': sel, 'logK': [round(POOL[nm][2] + rng.uniform(-1.5, 1.5), 6) for nm in sel], 'subs': subs,
                          'init1': mk(), 'init2': mk(), 'entry': ['root', 'root', '_solve'][j % 3],
                          'variant': rng.choice(['default', 'log', 'loglin']), 'guess': rng.choice(['solution1', 'solution1', 'init1']),
                          'x0_as': rng.choice(['array', 'dict'])})
        # bookkeeping of EqCalcResult.solve / _solve: failures must be recorded as failures (and warned about), list-valued solver info
        for j in range(max(8, n // 60)):
            sel = ['water'] + rng.sample(ACIDBASE, rng.randint(1, 3))
            subs = []
            for nm in sel:
                for s_ in list(POOL[nm][0]) + list(POOL[nm][1]):
                    if s_ not in subs:
                        subs.append(s_)
            rng.shuffle(subs)
            cand = [s_ for s_ in subs if s_ != 'H2O']
            cases.append({'kind': 'calc', 'eqs': sel, 'logK': [round(POOL[nm][2] + rng.uniform(-1.5, 1.5), 6) for nm in sel], 'subs': subs,
                          'init': [55.5 if s_ == 'H2O' else float('%.6g' % 10 ** rng.uniform(-6, -1)) for s_ in subs],
                          'varied': [[rng.choice(cand), sorted(float('%.6g' % 10 ** rng.uniform(-5, -1)) for _ in range(3))]] if j % 2 else [],
                          'chain': ['lin', 'lin', 'default', 'square'][j % 4], 'info_as': 'dict'})
        # roots(..., plot_kwargs=...): the plotting driver returns the same numbers; its refusal branch
        for j in range(max(3, n // 250)):
            sel = ['water', rng.choice(ACIDBASE)]
            subs = []
            for nm in sel:
                for s_ in list(POOL[nm][0]) + list(POOL[nm][1]):
                    if s_ not in subs:
                        subs.append(s_)
            rng.shuffle(subs)
            cand = [s_ for s_ in subs if s_ != 'H2O']
            cases.append({'kind': 'roots_plot', 'eqs': sel, 'logK': [round(POOL[nm][2] + rng.uniform(-1, 1), 6) for nm in sel], 'subs': subs,
                          'init': [55.5 if s_ == 'H2O' else float('%.6g' % 10 ** rng.uniform(-5, -2)) for s_ in subs],
                          'varied': [rng.choice(cand), sorted(float('%.6g' % 10 ** rng.uniform(-5, -2)) for _ in range(3))],
                          'plot_kwargs': [{}, {'latex_names': True, 'conc_unit_str': 'mM'}, {'substances': [cand[0]]},
                                          {'substances': [cand[0]], 'indices': [0]}][j % 4]})
        # histories on ONE EqSystem object: constants changed in place between solves (Ksp / K scans)
        for j in range(max(15, n // 30)):
            if j % 3 != 2:
                nm = rng.choice(list(SALTS))
                solid, ions, lk = SALTS[nm]
                subs = list(ions) + [solid]
                init = [float('%.4g' % 10 ** rng.uniform(-3, 0)) for _ in ions] + [rng.choice([0.0, 0.0, 0.0, float('%.4g' % 10 ** rng.uniform(-3, 0))])]
                lip = sum(v * math.log10(init[i]) for i, (k_, v) in enumerate(ions.items()))     # log10 ion product of the initial solution
                steps = [2.0, 1.0, 0.3, -0.3, -1.0, -2.0, -0.3, 0.3, 2.0]      # Ksp scan down through the ion product and up again
                if rng.random() < 0.3:
                    steps = [-d for d in steps]
                cases.append({'kind': 'history', 'system': {'kind': 'salt', 'salt': nm, 'flip': rng.random() < 0.5, 'subs': subs},
                              'init': init, 'logKs': [[round(lip + d, 6)] for d in steps], 'variant': rng.choice(['default', 'log'])})
            else:
                sel = rng.sample(names, rng.choice([1, 2]))
                subs = []
                for nm in sel:
                    for s_ in list(POOL[nm][0]) + list(POOL[nm][1]):
                        if s_ not in subs:
                            subs.append(s_)
                base_lk = [POOL[nm][2] for nm in sel]
                cases.append({'kind': 'history', 'system': {'kind': 'homog', 'eqs': sel, 'subs': subs},
                              'init': [55.5 if s_ == 'H2O' else float('%.6g' % 10 ** rng.uniform(-5, 0)) for s_ in subs],
                              'logKs': [[round(b + d + rng.uniform(-0.3, 0.3), 6) for b in base_lk] for d in (2.0, 0.0, -2.0, 1.0)],
                              'variant': rng.choice(['default', 'log', 'loglin', 'solve'])})
        cases.append({'kind': 'rate', 'chain': 'root() default (NumSysLog)', 'pool': 'general', 'runs': rate_specs})
        cases.append({'kind': 'rate', 'chain': 'solve()/_solve default (NumSysLog, NumSysLin)', 'pool': 'general', 'runs': solve_specs})
        cases.append({'kind': 'rate', 'chain': 'root() default (NumSysLog)', 'pool': 'acidbase', 'runs': rate_ab})
        cases.append({'kind': 'rate', 'chain': 'solve()/_solve default (NumSysLog, NumSysLin)', 'pool': 'acidbase', 'runs': solve_ab})
        return cases

    # ------------------------------------------------------------------------------------------
    # building the real objects
    def _build(self, phases, rxns, comps=None, params=None):
        from chempy import Equilibrium, Species
        from chempy.equilibria import EqSystem
        ns = len(phases)
        subs = []
        for i in range(ns):
            comp = OrderedDict((int(k), (_fr(v) if isinstance(v, list) else v)) for k, v in comps[i]) if comps is not None else {1: 1}
            subs.append(Species('S%d' % i, composition=comp, phase_idx=phases[i]))
        eqs = []
        for j, r in enumerate(rxns):
            d = lambda side: OrderedDict(('S%d' % k, v) for k, v in r[side])
            eqs.append(Equilibrium(d('reac'), d('prod'), (params[j] if params else F(1)), inact_reac=d('inact_reac'),
                                   inact_prod=d('inact_prod'), checks=()))
        return EqSystem(eqs, subs, checks=())

    def _build_pool(self, c):
        from chempy import Equilibrium, Species
        from chempy.equilibria import EqSystem
        if c['kind'] == 'salt':
            solid, ions, _ = SALTS[c['salt']]
            ksp = 10 ** c['logKsp']
            eq = Equilibrium(dict(ions), {solid: 1}, 1 / ksp) if c['flip'] else Equilibrium({solid: 1}, dict(ions), ksp)
            eqs = [eq]
        else:
            eqs = [Equilibrium(dict(POOL[nm][0]), dict(POOL[nm][1]), 10 ** lk) for nm, lk in zip(c['eqs'], c['logK'])]
        return EqSystem(eqs, [Species.from_formula(s) for s in c['subs']])

    def _run(self, c):
        """one real solver run (cached): dict(outcome=..., x=..., success=..., sane=..., maxfun=..., exc=...)"""
        key = json.dumps(c, sort_keys=True)
        if key in self._runs:
            return self._runs[key]
        import numpy as np
        res = {}
        try:
            es = self._build_pool(c)
            init = dict(zip(c['subs'], c['init']))
            with warnings.catch_warnings():
                warnings.simplefilter('ignore')
                if c['variant'] == 'solve':
                    r_ = es.solve(init)                      # EqCalcResult: default chain (NumSysLog, NumSysLin) of _solve
                    x, sane = np.asarray(r_.conc, dtype=float).reshape(-1), bool(r_.sane)
                    sol = {'success': bool(r_.success)}
                else:
                    x, sol, sane = es.root(init, **_run_kwargs(c))
            res.update(success=_success(sol), sane=bool(sane), x=[float(v) for v in np.asarray(x, dtype=float)], maxfun=_max_fun(sol),
                       inner_success=bool(_inner(sol).get('success')) if 'success' in _inner(sol) else None,
                       conditions=[bool(b) for b in sol['conditions']] if isinstance(sol, dict) and 'conditions' in sol else None)
            if c['variant'] == 'solve':          # EqCalcResult carries no stage info; known_key fetches it from _solve when needed
                del res['maxfun'], res['inner_success']
            res['outcome'] = ('success' if res['success'] else 'nosuccess') + ('+sane' if res['sane'] else '+insane')
        except Exception as e:
            res.update(success=False, sane=False, x=None, exc='%s: %s' % (type(e).__name__, str(e)[:120]), outcome='exception:' + type(e).__name__)
        self._runs[key] = res
        return res

    # ------------------------------------------------------------------------------------------
    def model_case(self, c):
        if not c.get('op'):
            return None
        drop = {'mode', 'balanced', 'at_equilibrium'}      # k_first stays: impl needs it, the driver ignores unknown fields
        if c['op'] not in ('ucb', 'sane', 'sane_nan'):
            drop.add('comps')
        return {k: v for k, v in c.items() if k not in drop}

    def impl(self, c):
        import numpy as np
        from chempy.chemistry import equilibrium_quotient
        from chempy import _equilibrium as _eq
        op = c['op']
        obj = lambda l: np.array(_frl(l) + [None], dtype=object)[:-1]      # 1-d object array of Fractions
        try:
            with warnings.catch_warnings():
                warnings.simplefilter('ignore')
                if op == 'ucb':
                    es = self._build([0] * len(c['comps']), [], c['comps'])
                    r = es.upper_conc_bounds(_frl(c['init']), dtype=object)
                    return '[' + ','.join('inf' if (isinstance(v, float) and math.isinf(v)) else repr(float(v)) for v in r) + ']'
                if op == 'sane':
                    es = self._build([0] * len(c['comps']), [], c['comps'])
                    kw = {'rtol': float(_fr(c['rtol']))} if 'rtol' in c else {}
                    init = np.array([float(v) for v in _frl(c['init'])])
                    x = np.array([float(v) for v in _frl(c['x'])])
                    assert all(F(float(v)) == v for v in _frl(c['x']) + _frl(c['init'])), 'inexact float input'
                    return str(bool(es._result_is_sane(init, x, **kw)))
                if op in ('precip_stoich', 'nonprecip_stoich', 'net_stoich'):
                    es = self._build(c['phases'], [c['rxn']])
                    r = es.rxns[0]
                    if op == 'net_stoich':
                        return show_int_list(r.net_stoich(es.substances))
                    if op == 'nonprecip_stoich':
                        return show_int_list(r.non_precipitate_stoich(es.substances))
                    net, s, i = r.precipitate_stoich(es.substances)
                    return '%s;%d;%d' % (show_int_list(net), s, i)
                if op == 'ptidx':
                    return show_int_list(self._build(c['phases'], c['rxns']).phase_transfer_reaction_idxs())
                if op == 'nonprecip':
                    return show_int_list(self._build(c['phases'], c['rxns']).non_precip_rids(c['precipitates']))
                if op == 'quotient':
                    return show_rat(equilibrium_quotient(_frl(c['concs']), c['stoich']))
                if op == 'dissolved':
                    es = self._build(c['phases'], c['rxns'])
                    return show_rat_list(es.dissolved(obj(c['c'])))
                if op == 'fw':
                    es = self._build(c['phases'], c['rxns'], params=[_fr(c.get('k_first', c['k']))] * len(c['rxns']))
                    fw = es._fw_cond_factory(c['ri'], rtol=_fr(c['rtol'])) if 'rtol' in c else es._fw_cond_factory(c['ri'])
                    for r_ in es.rxns:                   # constants changed in place after the callback was made: the current ones count
                        r_.param = _fr(c['k'])
                    return str(bool(fw(obj(c['x']), [F(7, 3)] * (len(c['x']) + len(c['rxns'])))))      # `p` is ignored by the callback
                if op == 'varied':
                    return self._varied_impl(c)
                if op == 'sane_nan':
                    es = self._build([0] * len(c['comps']), [], c['comps'])
                    kw = {'rtol': float(_fr(c['rtol']))} if 'rtol' in c else {}
                    x = np.array([float('nan') if v is None else float(_fr(v)) for v in c['x']])
                    return str(bool(es._result_is_sane(np.array([float(v) for v in _frl(c['init'])]), x, **kw)))
                if op == 'lin_x0':
                    from chempy.equilibria import NumSysLin
                    es = self._build(c['phases'], c['rxns'])
                    return show_rat_list(NumSysLin(es).internal_x0_cb(obj(c['c']), None))
                if op == 'dissolved_int':
                    es = self._build(c['phases'], c['rxns'])
                    try:
                        return show_int_list(es.dissolved(np.array(c['c'], dtype=int)))
                    except TypeError:          # numpy's UFuncTypeError is a TypeError
                        return 'TypeError'
                if op == 'quotient_rows':
                    a2 = np.array([[float(_fr(v)) for v in row] for row in c['concs']], dtype=float).reshape(len(c['concs']), -1)
                    if a2.shape[0] == 0:
                        a2 = np.zeros((0, len(c['stoich'])))
                    r_ = equilibrium_quotient(a2, c['stoich'])
                    return show_rat_list(F(float(v)) for v in np.atleast_1d(r_))
                if op == 'residual_act':
                    e = c['act_exp']

                    def act(cc):
                        g = F(1)
                        for v, n_ in zip(cc, e):
                            g *= F(v) ** n_
                        return g
                    return show_rat(_eq.equilibrium_residual(_fr(c['rc']), obj(c['c0']), np.array(c['stoich'], dtype=object), _fr(c['K']), act))
                if op == 'residual_multi':
                    st = np.array(c['stoich'], dtype=object).reshape(len(c['stoich']), -1)
                    r_ = _eq.equilibrium_residual(obj(c['rc']), obj(c['c0']), st, obj(c['K']))
                    return show_rat_list(np.atleast_1d(r_))
                if op == 'root_args':
                    g, p_ = self._captured_root_args(c)
                    return '%s;%s' % (show_rat_list(F(float(v)) for v in g), show_rat_list(F(float(v)) for v in p_))
                if op == 'bw':
                    es = self._build(c['phases'], c['rxns'])
                    return str(bool(es._bw_cond_factory(c['ri'], _fr(c['small']))(obj(c['x']), None)))
                if op == 'rc_interval':
                    lo, up = _eq._get_rc_interval(np.array(c['stoich'], dtype=object), obj(c['c0']))
                    return '%s,%s' % (show_rat(lo), show_rat(up))
                if op == 'bracket':
                    import scipy.optimize as so
                    rec = {}
                    orig = so.brentq

                    def stub(f, a, b, args=()):
                        rec['ab'] = (a, b)
                        return a
                    so.brentq = stub
                    try:
                        _eq._solve_equilibrium_coord(obj(c['c0']), np.array(c['stoich'], dtype=object), F(1))
                    finally:
                        so.brentq = orig
                    return '%s,%s' % (show_rat(rec['ab'][0]), show_rat(rec['ab'][1]))
                if op == 'residual':
                    return show_rat(_eq.equilibrium_residual(_fr(c['rc']), obj(c['c0']), np.array(c['stoich'], dtype=object), _fr(c['K'])))
        except Exception as e:
            return exc_name(e)
        return '!unknown-op'

    def _captured_root_args(self, c):
        """(x0, params) that EqSystem.root / _solve really hand to the solver, captured with a stand-in solver object"""
        import numpy as np
        ns = len(c['init'])
        rx = {'reac': [[0, 1]], 'prod': [[1, 1]], 'inact_reac': [], 'inact_prod': []}
        es = self._build([0] * ns, [rx] * len(c['consts']), params=[float(_fr(v)) for v in c['consts']])
        box = {}

        class Capture:
            def solve(self, x0, params, **kw):
                box['x0'], box['params'] = [float(v) for v in x0], [float(v) for v in params]
                return np.asarray(x0, dtype=float), {'success': True}
        init = np.array([float(_fr(v)) for v in c['init']])
        x0 = None
        if c.get('x0') is not None:
            x0 = [float(_fr(v)) for v in c['x0']]
            if c.get('x0_as') != 'list':
                x0 = np.array(x0)
        (es.root if c.get('entry', 'root') == 'root' else es._solve)(init, x0=x0, neqsys=Capture())
        return box['x0'], box['params']

    def _varied_call(self, c):
        from chempy import ReactionSystem, Substance
        rs = ReactionSystem([], [Substance('S%d' % i) for i in range(c['ns'])], checks=())
        varied = OrderedDict(('S%d' % k, [float(_fr(v)) for v in vals]) for k, vals in c['varied'])
        import numpy as np
        return rs.per_substance_varied(np.array([float(_fr(v)) for v in c['base']]), varied)

    def _varied_impl(self, c):
        arr, keys = self._varied_call(c)
        rows = arr.reshape(-1, arr.shape[-1]) if arr.size else arr.reshape(-1, c['ns'])
        return '%s;%s;[%s]' % (show_int_list(int(k[1:]) for k in keys), show_int_list(arr.shape[:-1]),
                               ','.join(show_rat_list(F(float(v)) for v in row) for row in rows))

    def same(self, c, io, mo):
        if c['op'] in ('quotient_rows', 'residual_multi') and io.startswith('[') and mo.startswith('['):
            # numpy turns these into floats (float array / Fraction ** ndarray): compared to 1e-12 of the scale of the terms
            a, b = parse_rat_list(io), parse_rat_list(mo)
            scale = max([1.0] + [abs(float(_fr(v))) for v in c.get('K', [])]) if c['op'] == 'residual_multi' else 0.0
            return len(a) == len(b) and all(close(float(x), y, 1e-12, 1e-12 * scale) for x, y in zip(a, b))
        if c['op'] == 'ucb' and io.startswith('[') and mo.startswith('['):
            a, b = io[1:-1].split(','), mo[1:-1].split(',')
            if io == '[]' or mo == '[]':
                return io == mo
            if len(a) != len(b):
                return False
            for x, y in zip(a, b):
                if (x == 'inf') != (y == 'inf'):
                    return False
                if x != 'inf' and not close(float(x), F(y), self.float_tol):
                    return False
            return True
        return io == mo

    # ------------------------------------------------------------------------------------------
    # the property on the real code, independent of the Lean model
    def oracle(self, c):
        with warnings.catch_warnings():
            warnings.simplefilter('ignore')
            if c.get('op'):
                return self._oracle_crafted(c)
            return self._oracle_solver(c)

    def _oracle_crafted(self, c):
        import numpy as np
        from chempy import _equilibrium as _eq
        op = c['op']
        obj = lambda l: np.array(list(l) + [None], dtype=object)[:-1]
        if op == 'sane':
            comps, init, x = c['comps'], _frl(c['init']), _frl(c['x'])
            if len(x) != len(init) or any(v == 0 for comp in comps for k, v in comp if k != 0):
                return None
            ub = self._ub_exact(comps, init)
            rtol = _fr(c['rtol']) if 'rtol' in c else F(1, 10 ** 9)
            # stay away from the float-rounding zone of the default rtol
            want = all(v >= 0 for v in x) and all(b is None or v <= b * (1 + rtol) for v, b in zip(x, ub))
            es = self._build([0] * len(comps), [], comps)
            kw = {'rtol': float(rtol)} if 'rtol' in c else {}
            got = bool(es._result_is_sane(np.array([float(v) for v in init]), np.array([float(v) for v in x]), **kw))
            if got != want:
                return '_result_is_sane=%s but (all >= 0 and all <= bound*(1+rtol)) is %s; x=%s bounds=%s' % (
                    got, want, [str(v) for v in x], [str(b) for b in ub])
        elif op == 'ucb':
            comps, init = c['comps'], _frl(c['init'])
            if len(init) != len(comps) or any(v == 0 for comp in comps for k, v in comp if k != 0):
                return None
            es = self._build([0] * len(comps), [], comps)
            got = es.upper_conc_bounds(init, dtype=object)
            # validity: the initial state itself (a non-negative state with these totals) never exceeds its bound
            for g, v, comp in zip(got, init, comps):
                if all(vv > 0 for k, vv in comp if k != 0) and float(v) > float(g) * (1 + 1e-12):
                    return 'upper bound %r is below the initial concentration %s' % (g, v)
            want = self._ub_exact(comps, init)
            for g, w in zip(got, want):
                if (w is None) != (isinstance(g, float) and math.isinf(g)) or (w is not None and not close(g, w, 1e-12)):
                    return 'upper_conc_bounds gives %r, min over elements of total/coefficient is %s' % (g, w)
        elif op == 'dissolved':
            phases, rxns, x = c['phases'], c['rxns'], _frl(c['c'])
            want = self._dissolve_indep(phases, rxns, x)
            if want is None:
                return None
            try:
                got = list(self._build(phases, rxns).dissolved(obj(x)))
            except ZeroDivisionError:
                return None
            for r in rxns:     # every solid of a phase-transfer reaction is gone
                net = self._net(r, len(phases))
                for k in range(len(phases)):
                    if phases[k] > 0 and net[k] != 0 and got[k] != 0:
                        return 'dissolved() leaves %s of solid %d' % (got[k], k)
            if c.get('comps'):   # balanced system: every element and the charge are conserved
                keys = sorted({k for comp in c['comps'] for k, _ in comp})
                for key in keys:
                    t0 = sum(F(dict(map(tuple, comp)).get(key, 0)) * v for comp, v in zip(c['comps'], x))
                    t1 = sum(F(dict(map(tuple, comp)).get(key, 0)) * v for comp, v in zip(c['comps'], got))
                    if t0 != t1:
                        return 'dissolved() changes the total of component %d from %s to %s' % (key, t0, t1)
            if [F(v) for v in got] != want:
                return 'dissolved() = %s, expected %s' % ([str(v) for v in got], [str(v) for v in want])
        elif op == 'fw':
            phases, rxns, ri, x, k = c['phases'], c['rxns'], c['ri'], _frl(c['x']), _fr(c['k'])
            coeff = self._solid_coeff(phases, rxns[ri])
            q = self._q_dissolved(phases, rxns, ri, x)
            if coeff is None or q is None:
                return None
            rtol = _fr(c['rtol']) if 'rtol' in c else F(1, 10 ** 14)
            want = (q * (1 + rtol) < k) if coeff > 0 else (q > k * (1 + rtol))
            es = self._build(phases, rxns, params=[_fr(c.get('k_first', c['k']))] * len(rxns))
            fw = es._fw_cond_factory(ri, rtol=rtol) if 'rtol' in c else es._fw_cond_factory(ri)
            for r_ in es.rxns:            # history: constants changed in place after the callback was made — the CURRENT ones count
                r_.param = k
            try:
                got = bool(fw(obj(x), None))
            except ZeroDivisionError:
                return None
            if got != want:
                return ('fw_cond=%s but the ion quotient of the dissolved state (%s) compared with the current K=%s%s (solid coefficient %+d, '
                        'rtol %s) says %s' % (got, q, k, (' (the callback was created while K was %s)' % _fr(c['k_first'])) if 'k_first' in c else '',
                                              coeff, rtol, want))
        elif op == 'bw':
            phases, rxns, ri, x, small = c['phases'], c['rxns'], c['ri'], _frl(c['x']), _fr(c['small'])
            net = self._net(rxns[ri], len(phases))
            sol = [k for k in range(len(phases)) if phases[k] > 0 and net[k] != 0]
            if len(sol) != 1:
                return None
            got = bool(self._build(phases, rxns)._bw_cond_factory(ri, small)(obj(x), None))
            if got != (x[sol[0]] >= small):
                return 'bw_cond=%s with solid amount %s and small=%s' % (got, x[sol[0]], small)
        elif op == 'rc_interval':
            stoich, c0 = c['stoich'], _frl(c['c0'])
            if len(stoich) != len(c0) or any(s == 0 for s in stoich) or not all(v > 0 for v in c0):
                return None
            lo, up = _eq._get_rc_interval(np.array(stoich, dtype=object), obj(c0))
            for rc in (lo, up, (lo + up) / 2, lo / 3, up / 3):
                if any(a + s * rc < 0 for a, s in zip(c0, stoich)):
                    return 'reaction coordinate %s inside [%s, %s] makes a concentration negative' % (rc, lo, up)
            if any(s > 0 for s in stoich) and all(a + s * (lo - F(1, 10 ** 6)) >= 0 for a, s in zip(c0, stoich)):
                return 'lower end %s of the bracket is not the largest feasible one' % lo
            if any(s < 0 for s in stoich) and all(a + s * (up + F(1, 10 ** 6)) >= 0 for a, s in zip(c0, stoich)):
                return 'upper end %s of the bracket is not the largest feasible one' % up
        elif op == 'lin_x0':
            phases, rxns, x = c['phases'], c['rxns'], _frl(c['c'])
            want = self._dissolve_indep(phases, rxns, x)
            if want is None:
                return None
            from chempy.equilibria import NumSysLin
            try:
                got = [F(v) for v in NumSysLin(self._build(phases, rxns)).internal_x0_cb(obj(x), None)]
            except ZeroDivisionError:
                return None
            if got != [(99 * a + d) / 100 for a, d in zip(x, want)]:
                return 'NumSysLin.internal_x0_cb = %s, expected (99*c0 + dissolved)/100' % [str(v) for v in got]
            if c.get('comps'):      # balanced: the starting point carries the totals of c0
                for key in sorted({k for comp in c['comps'] for k, _ in comp}):
                    t0 = sum(F(dict(map(tuple, comp)).get(key, 0)) * v for comp, v in zip(c['comps'], x))
                    t1 = sum(F(dict(map(tuple, comp)).get(key, 0)) * v for comp, v in zip(c['comps'], got))
                    if t0 != t1:
                        return 'internal_x0_cb changes the total of component %d from %s to %s' % (key, t0, t1)
        elif op == 'sane_nan':
            comps, init = c['comps'], _frl(c['init'])
            if len(c['x']) != len(init) or any(v == 0 for comp in comps for k, v in comp if k != 0):
                return None
            ub = self._ub_exact(comps, init)
            rtol = _fr(c['rtol']) if 'rtol' in c else F(1, 10 ** 9)
            fin = [(None if v is None else _fr(v)) for v in c['x']]
            # what the code does (recorded defect, theorem sane_accepts_nan_defect_witness): NaN entries are ignored by both tests
            want = all(v is None or v >= 0 for v in fin) and all(v is None or b is None or v <= b * (1 + rtol) for v, b in zip(fin, ub))
            es = self._build([0] * len(comps), [], comps)
            kw = {'rtol': float(rtol)} if 'rtol' in c else {}
            got = bool(es._result_is_sane(np.array([float(v) for v in init]), np.array([float('nan') if v is None else float(v) for v in fin]), **kw))
            if got != want:
                return '_result_is_sane=%s on %s: the finite entries %s the two tests' % (got, c['x'], 'pass' if want else 'fail')
        elif op == 'quotient_rows':
            st = c['stoich']
            rows = [_frl(r) for r in c['concs']]
            if not rows or any(v == 0 for r in rows for v in r):
                return None
            from chempy.chemistry import equilibrium_quotient
            got = np.atleast_1d(equilibrium_quotient(np.array([[float(v) for v in r] for r in rows]), st))
            for i, r in enumerate(rows):
                q = F(1)
                for v, n_ in zip(r, st):
                    q *= v ** n_
                if not close(got[i], q, 1e-12):
                    return 'equilibrium_quotient on a 2-d array: row %d gives %r, the product of c^nu is %s' % (i, got[i], q)
        elif op in ('residual_act', 'residual_multi'):
            c0 = _frl(c['c0'])
            if op == 'residual_act':
                st, rc, K, e = c['stoich'], _fr(c['rc']), _fr(c['K']), c['act_exp']
                if len(c0) != len(st):
                    return None
                cs = [a_ + s_ * rc for a_, s_ in zip(c0, st)]
                if any(v == 0 for v in cs):
                    return None
                q = F(1)
                for v, s_, n_ in zip(cs, st, e):
                    q *= v ** (s_ + n_)

                def act(cc):
                    g = F(1)
                    for v, n_ in zip(cc, e):
                        g *= F(v) ** n_
                    return g
                got = _eq.equilibrium_residual(rc, obj(c0), np.array(st, dtype=object), K, act)
                if (got == 0) != (q == K):
                    return 'equilibrium_residual with an activity product = %s although Q*gamma = %s, K = %s' % (got, q, K)
            else:
                st, rc, K = c['stoich'], _frl(c['rc']), _frl(c['K'])
                nr = len(rc)
                if len(c0) != len(st) or len(K) != nr or any(len(r) != nr for r in st):
                    return None
                cs = [a_ + sum(n_ * r_ for n_, r_ in zip(row, rc)) for a_, row in zip(c0, st)]
                if any(v == 0 for v in cs):
                    return None
                got = np.atleast_1d(_eq.equilibrium_residual(obj(rc), obj(c0), np.array(st, dtype=object).reshape(len(st), -1), obj(K)))
                for r_ in range(nr):
                    q = F(1)
                    for v, row in zip(cs, st):
                        q *= v ** row[r_]
                    if (abs(float(got[r_])) <= 1e-12 * max(abs(float(q)), abs(float(K[r_])), 1e-300)) != (q == K[r_]) and \
                            not (q != K[r_] and abs(float(q / K[r_]) - 1) < 1e-9):
                        return 'equilibrium_residual (2-d stoich): entry %d is %s although Q_%d = %s, K_%d = %s' % (r_, got[r_], r_, q, r_, K[r_])
        elif op == 'root_args':
            g, p_ = self._captured_root_args(c)
            init, consts = [float(_fr(v)) for v in c['init']], [float(_fr(v)) for v in c['consts']]
            if p_ != init + consts:
                return ('%s(init, x0=%s): the parameter vector handed to the solver is %s, not init_concs ++ constants = %s (the conservation '
                        'equations must refer to the initial composition, never to the guess)' % (c.get('entry'), c.get('x0'), p_, init + consts))
            want_g = init if c.get('x0') is None else [float(_fr(v)) for v in c['x0']]
            if g != want_g:
                return '%s: the starting guess handed to the solver is %s, expected %s' % (c.get('entry'), g, want_g)
        elif op == 'varied':
            ns, base = c['ns'], _frl(c['base'])
            if len(base) != ns or any(k >= ns for k, _ in c['varied']):
                return None
            from itertools import product
            try:
                arr, keys = self._varied_call(c)
            except Exception as e:
                return 'per_substance_varied raised %s for a well-formed varied dict (order of the keys: %s)' % (exc_name(e), [k for k, _ in c['varied']])
            levels = {k: _frl(vals) for k, vals in c['varied']}
            kidx = [int(k[1:]) for k in keys]
            if kidx != sorted(levels) or tuple(arr.shape) != tuple(len(levels[k]) for k in kidx) + (ns,):
                return 'per_substance_varied: keys %s / shape %s do not follow the substance order of the varied substances' % (list(keys), arr.shape)
            for index in product(*[range(n) for n in arr.shape[:-1]]):
                want = list(base)
                for a, k in enumerate(kidx):        # what varied_keys documents: axis a belongs to substance keys[a]
                    want[k] = levels[k][index[a]]
                got = [F(float(v)) for v in arr[index]]
                if got != want:
                    return ('per_substance_varied: grid point %s is %s but varied_keys=%s documents the initial state %s' % (
                        list(index), [str(v) for v in got], list(keys), [str(v) for v in want]))
        elif op == 'residual':
            stoich, c0, rc, K = c['stoich'], _frl(c['c0']), _fr(c['rc']), _fr(c['K'])
            cs = [a + s * rc for a, s in zip(c0, stoich)]
            if any(v == 0 for v in cs):
                return None
            q = F(1)
            for v, s in zip(cs, stoich):
                q *= v ** s
            got = _eq.equilibrium_residual(rc, obj(c0), np.array(stoich, dtype=object), K)
            if (got == 0) != (q == K):
                return 'equilibrium_residual=%s although Q=%s, K=%s' % (got, q, K)
        return None

    def _genuine(self, es, c0, x, homogeneous=True, solid=None, ions=None, ksp=None, tol=None):
        """the defining equations on a returned state, to the tolerance the solver was run with; None or a description"""
        import numpy as np
        tol = _solver_tol('default') if tol is None else tol
        x = np.asarray(x, dtype=float)
        c0 = np.asarray(c0, dtype=float)
        if not np.all(np.isfinite(x)):
            return 'non-finite', 'returned concentrations are not finite: %r' % x.tolist()
        if np.any(x < -NEG_ATOL):
            return 'negative', 'negative concentration in %r' % x.tolist()
        A, ck = es.composition_balance_vectors()
        A = np.array(A, dtype=float)
        t0, t1 = A @ c0, A @ x
        big = float(max(np.max(np.abs(x)), np.max(np.abs(c0))))
        scale = np.abs(A) @ np.maximum(np.abs(x), np.abs(c0))
        for k, a, b, s in zip(ck, t0, t1, scale):
            if abs(a - b) > TOT_FACTOR * tol * s + ROUND_ATOL * big:
                return 'totals', 'total of component %s changed from %r to %r (allowed: %g = %g*tol*scale, tol=%g)' % (
                    k, a, b, TOT_FACTOR * tol * s, TOT_FACTOR, tol)

        def lnq(row):
            """(ln prod x^nu, conditioning scale sum |nu|(1+|ln x|)); None if a needed concentration is zero"""
            idx = [j for j, n in enumerate(row) if n != 0]
            if any(x[j] <= 0 for j in idx):
                return None, None
            return (sum(float(row[j]) * math.log(x[j]) for j in idx),
                    sum(abs(float(row[j])) * (1 + abs(math.log(x[j]))) for j in idx))
        if homogeneous:
            for r, row in zip(es.rxns, es.stoichs()):
                v, cond = lnq(row)
                if v is None:
                    return 'Q!=K', 'a species of %s has concentration 0: Q is 0 or undefined' % r
                if not (abs(v - math.log(r.param)) <= Q_FACTOR * tol * cond + 1e-14 * cond):
                    return 'Q!=K', 'Q/K = %r for %s (allowed |ln Q/K|: %g = %g*tol*conditioning, tol=%g)' % (
                        math.exp(v - math.log(r.param)), r, Q_FACTOR * tol * cond, Q_FACTOR, tol)
        else:
            names = list(es.substances)
            row = [ions.get(nm, 0) for nm in names]
            s = x[names.index(solid)]
            absent = s <= max(4 * LOG_SMALL, 1e-12 * float(np.max(np.abs(c0))))
            v, cond = lnq(row)
            if v is None:
                if not absent:
                    return 'ksp', 'solid present (%r) but an ion has concentration 0' % s
            else:
                d = v - math.log(ksp)
                allowed = Q_FACTOR * tol * cond + 1e-14 * cond
                if absent and d > allowed:
                    return 'ksp', 'solid absent (%r) but the ion product is %r * Ksp' % (s, math.exp(d))
                if not absent and abs(d) > allowed:
                    return 'ksp', 'solid present (%r) but the ion product is %r * Ksp' % (s, math.exp(d))
        return None

    def _oracle_solver(self, c):
        import numpy as np
        kind = c['kind']
        if kind in ('homog', 'salt', 'single'):
            r = self._run(c)
            if not (r['success'] and r['sane']):
                return None                    # the property is conditional on success and sanity
            es = self._build_pool(c)
            c0 = es.as_per_substance_array(dict(zip(c['subs'], c['init'])))
            if kind == 'salt':
                solid, ions, _ = SALTS[c['salt']]
                bad = self._genuine(es, c0, r['x'], homogeneous=False, solid=solid, ions=ions, ksp=10 ** c['logKsp'], tol=_solver_tol(c['variant']))
            else:
                bad = self._genuine(es, c0, r['x'], tol=_solver_tol(c['variant']))
            if bad:
                return '%s reports success and a sane result but %s (residual reported by the solver: %r)' % (
                    'solve() [default chain (NumSysLog, NumSysLin)]' if c['variant'] == 'solve' else 'root(%s)' % c['variant'], bad[1], r.get('maxfun'))
            if kind == 'single':
                from chempy._equilibrium import solve_equilibrium
                st = es.stoichs()[0].astype(int)
                ref = solve_equilibrium(c0, st, 10 ** c['logK'][0])
                x = np.asarray(r['x'])
                # brentq works to an absolute tolerance xtol = 2e-12 on the reaction coordinate
                if not np.allclose(x, ref, rtol=1e-5, atol=1e-11 + 1e-9 * float(np.max(np.abs(c0)))):
                    return 'root gives %r, solve_equilibrium (brentq) gives %r' % (x.tolist(), ref.tolist())
            return None
        if kind == 'scalar':
            from chempy._equilibrium import solve_equilibrium
            st, c0, K = np.array(c['stoich']), np.array(c['c0'], dtype=float), 10 ** c['logK']
            x = solve_equilibrium(c0, st, K)
            if np.any(x < 0):
                return 'solve_equilibrium returns a negative concentration: %r' % x.tolist()
            # brentq stops on an absolute tolerance (xtol = 2e-12) of the reaction coordinate: accept Q = K to 1e-6 or a
            # sign change of the residual within +-4e-12 (+ 1e-14 relative) of the returned coordinate (backward error)
            j = int(np.argmax(np.abs(st)))
            rc = (x[j] - c0[j]) / st[j]

            def resid(r):
                cc = c0 + st * r
                if np.any(cc <= 0):
                    return None
                return K - float(np.prod(cc ** st))
            f0 = resid(rc)
            if f0 is not None and abs(f0 / K) <= 1e-6:
                return None
            d = 4e-12 + 1e-14 * abs(rc)
            fa, fb = resid(rc - d), resid(rc + d)
            if fa is None or fb is None or fa * fb <= 0:
                return None
            return 'solve_equilibrium: Q/K = %r and the residual keeps its sign within +-%g of the returned coordinate' % (1 - f0 / K, d)
        if kind == 'rate':
            ok, n = self._rate(c)
            allowed = max(2, (5 * n) // 100)      # the property: at least 19 of 20 -> failures <= max(2, floor(0.05 n)), n >= 40
            if n >= 40 and n - ok > allowed:
                return ('%s gave success, a sane and a genuine result on only %d of %d well-conditioned homogeneous %s systems '
                        '(%d failures, at most %d allowed by the 19-of-20 clause)' % (
                            c.get('chain', 'default chain'), ok, n, c.get('pool', ''), n - ok, allowed))
            return None
        if kind == 'stages':
            return self._oracle_stages(c)
        if kind == 'grid':
            return self._oracle_grid(c)
        if kind == 'history':
            return self._oracle_history(c)
        if kind == 'warm':
            return self._oracle_warm(c)
        if kind == 'calc':
            return self._oracle_calc(c)
        if kind == 'roots_plot':
            return self._oracle_roots_plot(c)
        return None

    def _oracle_calc(self, c):
        """EqCalcResult.solve / EqSystem._solve bookkeeping: for every grid point the recorded success / sane / conc are those of the
        underlying _solve call (never success=True for a run the solver flagged as failed, also when the solver info is a list of stage
        infos), a failed root finding is warned about, and every recorded success & sane point is genuine"""
        import numpy as np
        from itertools import product
        from chempy._eqsys import EqCalcResult
        es = self._build_pool({'kind': 'homog', 'eqs': c['eqs'], 'logK': c['logK'], 'subs': c['subs']})
        base = dict(zip(c['subs'], c['init']))
        levels = OrderedDict((k, list(v)) for k, v in c['varied'])
        kw = {} if c['chain'] == 'default' else {'NumSys': _variant_kwargs(c['chain'])['NumSys']}
        log = []

        class ListInfo:
            """a solver object whose info is a LIST of stage infos (EqCalcResult must then read the last one)"""
            def __init__(self, inner):
                self.inner = inner

            def solve(self, x0, params, **k):
                x, info = self.inner.solve(x0, params, **k)
                return x, [dict(success=not info['success'], nfev=-1), info]
        if c['info_as'] == 'list':
            kw2 = dict(kw)
            kw2['neqsys'] = ListInfo(es.get_neqsys('chained_conditional', NumSys=kw.get('NumSys', _variant_kwargs('loglin')['NumSys'])))
        else:
            kw2 = kw
        res = EqCalcResult(es, base, levels or None)
        with warnings.catch_warnings(record=True) as wlist:
            warnings.simplefilter('always')
            res.solve(**kw2)
        msgs = [str(w.message) for w in wlist]
        n_fail_warn = sum(1 for m in msgs if 'indicated as failed by solver' in m)
        keys = list(res.varied_keys)
        n_fail = 0
        for index in product(*[range(len(levels[k])) for k in keys]):
            doc = dict(base)
            for a, k in enumerate(keys):
                doc[k] = levels[k][index[a]]
            c0 = es.as_per_substance_array(doc)
            with warnings.catch_warnings():
                warnings.simplefilter('ignore')
                x, sol, sane = es._solve(c0, **kw)           # the reference call (deterministic)
            succ = _success(sol)
            n_fail += (not succ)
            if bool(res.success[index]) != succ or bool(res.sane[index]) != bool(sane):
                return ('EqCalcResult.solve(%s, solver info as %s): grid point %s records success=%s sane=%s but _solve gives success=%s sane=%s' % (
                    c['chain'], c['info_as'], list(index), bool(res.success[index]), bool(res.sane[index]), succ, bool(sane)))
            if not np.allclose(res.conc[index], x, rtol=1e-12, atol=0, equal_nan=True):
                return 'EqCalcResult.solve: grid point %s stores %r, _solve returns %r' % (list(index), res.conc[index].tolist(), list(x))
            if c['info_as'] == 'dict' and int(res.nfev[index]) != int(_inner_top(sol).get('nfev', res.nfev[index])):
                return 'EqCalcResult.solve: nfev recorded %r, solver reported %r' % (int(res.nfev[index]), _inner_top(sol).get('nfev'))
            if succ and sane:
                bad = self._genuine(es, c0, x, tol=_solver_tol('default'))
                if bad and c['chain'] not in ('lin', 'square'):
                    return 'EqCalcResult.solve(%s): grid point %s records success and sane but %s' % (c['chain'], list(index), bad[1])
        if n_fail_warn != n_fail:
            return '%d root findings failed but %d warnings "Root-finding indicated as failed by solver." were issued' % (n_fail, n_fail_warn)
        return None

    def _oracle_roots_plot(self, c):
        """roots(..., plot_kwargs=...) returns the numbers of roots(...) (plotting must not change them), every success & sane point is
        genuine, and contradictory plot arguments are refused with ValueError"""
        import io, contextlib
        import numpy as np
        import matplotlib
        matplotlib.use('Agg')
        import matplotlib.pyplot as plt
        es = self._build_pool({'kind': 'homog', 'eqs': c['eqs'], 'logK': c['logK'], 'subs': c['subs']})
        base = dict(zip(c['subs'], c['init']))
        k, data = c['varied']
        pk = {kk: (list(v) if isinstance(v, list) else v) for kk, v in c['plot_kwargs'].items()}
        refuse = 'substances' in pk and 'indices' in pk
        try:
            with contextlib.redirect_stdout(io.StringIO()):
                xs, extra, sanity = es.roots(base, np.array(data), k, plot_kwargs=pk)
        except ValueError as e:
            plt.close('all')
            return None if refuse else 'roots(plot_kwargs=%s) raised ValueError: %s' % (c['plot_kwargs'], str(e)[:100])
        finally:
            plt.close('all')
        if refuse:
            return 'roots(plot_kwargs with both substances and indices) was accepted'
        xs0, infos0, sanity0 = es.roots(base, np.array(data), k)
        if not np.allclose(xs, xs0, rtol=1e-12, atol=0, equal_nan=True) or list(sanity) != list(sanity0):
            return 'roots with plot_kwargs=%s returns other numbers than roots without plotting' % (c['plot_kwargs'],)
        infos = extra['info'] if isinstance(extra, dict) else extra
        for i, val in enumerate(data):
            if _success(infos[i]) != _success(infos0[i]):
                return 'roots with plotting reports success=%s at point %d, without plotting %s' % (_success(infos[i]), i, _success(infos0[i]))
            if _success(infos[i]) and sanity[i]:
                bad = self._genuine(es, es.as_per_substance_array(dict(base, **{k: val})), xs[i])
                if bad:
                    return 'roots(plot_kwargs=%s): point %d reports success and a sane result but %s' % (c['plot_kwargs'], i, bad[1])
        return None

    def _oracle_warm(self, c):
        """root / _solve with x0 = the solution (or the initial state) of ANOTHER composition: a result reporting success and sane must be a
        genuine equilibrium of init2 — its totals are those of init_concs, never those of the guess"""
        import numpy as np
        es = self._build_pool({'kind': 'homog', 'eqs': c['eqs'], 'logK': c['logK'], 'subs': c['subs']})
        kw = _variant_kwargs(c['variant'])
        i1, i2 = dict(zip(c['subs'], c['init1'])), dict(zip(c['subs'], c['init2']))
        if c['guess'] == 'solution1':
            x1, sol1, sane1 = es.root(i1, **kw)
            if not (_success(sol1) and sane1):
                return None
            guess = np.asarray(x1, dtype=float)
        else:
            guess = es.as_per_substance_array(i1)
        x0 = dict(zip(c['subs'], [float(v) for v in guess])) if c['x0_as'] == 'dict' else guess
        c2 = es.as_per_substance_array(i2)
        try:
            if c['entry'] == 'root':
                x, sol, sane = es.root(i2, x0=x0, **kw)
            else:
                x, sol, sane = es._solve(c2, x0=x0, **({} if c['variant'] == 'default' else kw))
        except Exception:
            return None                     # e.g. a dict guess is not accepted: no success claimed
        if not (_success(sol) and sane):
            return None
        bad = self._genuine(es, c2, x, tol=_solver_tol(c['variant']))
        if bad:
            A = np.array(es.composition_balance_vectors()[0], dtype=float)
            like_guess = bool(np.allclose(A @ np.asarray(x, dtype=float), A @ guess, rtol=1e-6, atol=1e-12))
            return ('%s(init2, x0=<%s of another composition, as %s>, %s) reports success and a sane result but %s%s' % (
                c['entry'], c['guess'], c['x0_as'], c['variant'], bad[1],
                ' — the result carries the element totals of the GUESS' if like_guess else ''))
        return None

    def _oracle_grid(self, c):
        """EqSystem.solve(init, varied) / roots: every grid point that reports success and a sane result must be a genuine equilibrium
        of the initial state that `varied_keys` (resp. the varied_data entry) documents for that point"""
        import numpy as np
        from itertools import product
        es = self._build_pool({'kind': 'homog', 'eqs': c['eqs'], 'logK': c['logK'], 'subs': c['subs']})
        base = dict(zip(c['subs'], c['init']))
        levels = OrderedDict((k, list(v)) for k, v in c['varied'])
        if c['api'] == 'roots':
            (k, data), = levels.items()
            xs, infos, sanity = es.roots(base, np.array(data), k)
            for i, val in enumerate(data):
                if not (_success(infos[i]) and sanity[i]):
                    continue
                c0 = es.as_per_substance_array(dict(base, **{k: val}))
                bad = self._genuine(es, c0, xs[i])
                if bad:
                    return 'roots(varied=%s): point %d (%s=%r) reports success and a sane result but %s' % (k, i, k, val, bad[1])
            return None
        res = es.solve(base, levels)
        keys = list(res.varied_keys)
        if set(keys) != set(levels) or res.conc.shape != tuple(len(levels[k]) for k in keys) + (es.ns,):
            return 'solve(varied): varied_keys %s / shape %s inconsistent with the varied levels' % (keys, res.conc.shape)
        for index in product(*[range(len(levels[k])) for k in keys]):
            if not (bool(res.success[index]) and bool(res.sane[index])):
                continue
            doc = dict(base)
            for a, k in enumerate(keys):
                doc[k] = levels[k][index[a]]
            bad = self._genuine(es, es.as_per_substance_array(doc), res.conc[index])
            if bad:
                return ('solve(varied given in the order %s): grid point %s (documented by varied_keys=%s as %s) reports success and a sane '
                        'result but %s' % (list(levels), list(index), keys, {k: doc[k] for k in keys}, bad[1]))
        return None

    def _oracle_history(self, c):
        """one EqSystem object, constants changed in place between solves: every success & sane result is judged against the CURRENT constants"""
        import numpy as np
        sy = c['system']
        first = dict(sy, logKsp=c['logKs'][0][0]) if sy['kind'] == 'salt' else dict(sy, logK=c['logKs'][0])
        es = self._build_pool(first)
        init = dict(zip(sy['subs'], c['init']))
        c0 = es.as_per_substance_array(init)
        for step, lks in enumerate(c['logKs']):
            if sy['kind'] == 'salt':
                ksp = 10 ** lks[0]
                es.rxns[0].param = 1 / ksp if sy['flip'] else ksp
            else:
                for r_, lk in zip(es.rxns, lks):
                    r_.param = 10 ** lk
            try:
                if c['variant'] == 'solve':
                    r_ = es.solve(init)
                    x, succ, sane = np.asarray(r_.conc, dtype=float).reshape(-1), bool(r_.success), bool(r_.sane)
                else:
                    x, sol, sane = es.root(init, **_variant_kwargs(c['variant']))
                    succ = _success(sol)
            except Exception:
                continue                       # e.g. conditional_maxiter reached: no success claimed
            if not (succ and sane):
                continue
            if sy['kind'] == 'salt':
                solid, ions, _ = SALTS[sy['salt']]
                bad = self._genuine(es, c0, x, homogeneous=False, solid=solid, ions=ions, ksp=10 ** lks[0])
            else:
                bad = self._genuine(es, c0, x)
            if bad:
                return ('step %d of a history on one EqSystem object (constants set in place to log10 K = %s after %s): %s reports success and a '
                        'sane result but %s' % (step, lks, c['logKs'][:step], c['variant'], bad[1]))
        return None

    def _rate(self, c):
        """(number of runs that are success & sane & genuine, number of runs) of a rate case (runs are cached)"""
        n = len(c['runs'])
        ok = 0
        with warnings.catch_warnings():
            warnings.simplefilter('ignore')
            for d in c['runs']:
                r = self._run(d)
                if r['success'] and r['sane']:
                    if 'genuine' not in r:
                        es = self._build_pool(d)
                        r['genuine'] = self._genuine(es, es.as_per_substance_array(dict(zip(d['subs'], d['init']))), r['x']) is None
                    ok += bool(r['genuine'])
        self.measured_rates = getattr(self, 'measured_rates', {})
        self.measured_rates[(c.get('chain'), c.get('pool'))] = (ok, n)
        return ok, n

    def _oracle_stages(self, c):
        try:
            return self._oracle_stages_inner(c)
        except ValueError as e:
            if 'nder-determined' in str(e) or 'nderdetermined' in str(e):
                return None          # pyneqsys refuses to build the system (rank-deficient reduction): nothing is claimed
            raise

    def _oracle_stages_inner(self, c):
        """stage i of a multi-stage chain must be built from NumSys class i: the residual function (and the post-processor) of each
        per-stage system produced by get_neqsys_* is compared with NumSys_i(eqsys).f evaluated directly"""
        import numpy as np
        from chempy.equilibria import NumSysLin, NumSysLog
        from chempy._eqsys import NumSysSquare
        cls = {'log': NumSysLog, 'lin': NumSysLin, 'square': NumSysSquare}
        es = self._build_pool(c['system'])
        chain = [cls[k] for k in c['chain']]
        rref = c.get('rref')
        if es.nr + len(es.composition_balance_vectors()[1]) < es.ns:
            return None      # fewer equations than unknowns (e.g. two sub-systems sharing only the charge balance): pyneqsys refuses, nothing is claimed
        if rref:
            ne = es.get_neqsys(c['neqsys_type'], NumSys=tuple(chain), rref_equil=bool(rref[0]), rref_preserv=bool(rref[1]))
        else:
            ne = es.get_neqsys(c['neqsys_type'], NumSys=tuple(chain))
        npt = len(es.phase_transfer_reaction_idxs())
        cond_sets = [(False,) * npt] if (c['neqsys_type'] == 'static_conditions' or npt == 0) else [(False,) * npt, (True,) * npt]
        y = np.array(c['y'], dtype=float)
        params = np.concatenate((np.array(c['init'], dtype=float), [float(k) for k in es.eq_constants()]))
        for conds in cond_sets:
            if c['neqsys_type'] == 'chained_conditional':
                stages = [cn.neqsys_factory(conds) for cn in ne.neqsystems]
            elif c['neqsys_type'] == 'conditional_chained':
                stages = list(ne.neqsys_factory(conds).neqsystems)
            else:
                stages = list(ne.neqsystems)
            if len(stages) != len(chain):
                return '%s chain %s has %d stages' % (c['neqsys_type'], c['chain'], len(stages))
            for i, (st, NS) in enumerate(zip(stages, chain)):
                got = np.asarray(st.f_cb(y, params), dtype=float).reshape(-1)

                def direct(N):
                    if rref:      # independent evaluation of the row-reduced equations (homogeneous systems)
                        return self._reduced_residual(es, {v: k for k, v in cls.items()}[N], y, params, bool(rref[0]), bool(rref[1]))
                    return np.asarray([float(v) for v in N(es, precipitates=conds, backend='math').f(list(y), list(params))])
                want = direct(NS)
                if got.shape != want.shape or not np.allclose(got, want, rtol=1e-9, atol=1e-300):
                    like = [k for k, N in cls.items() if direct(N).shape == got.shape and np.allclose(got, direct(N), rtol=1e-9, atol=1e-300)]
                    return ('stage %d of the %s chain %s (conditions %s%s) does not evaluate the %s residual function at y=%s%s' % (
                        i, c['neqsys_type'], c['chain'], list(conds), (', rref_equil=%s, rref_preserv=%s' % tuple(rref)) if rref else '', NS.__name__, c['y'],
                        '; it evaluates like %s' % ', '.join(like) if like else ''))
                ns_obj = NS(es, precipitates=conds)
                if ns_obj.post_processor is not None:
                    a = np.asarray(st.post_process(y, params)[0], dtype=float)
                    b = np.asarray(ns_obj.post_processor(y, params)[0], dtype=float)
                    if not np.allclose(a, b, rtol=1e-12):
                        return 'stage %d of the %s chain %s does not use the post-processor of %s' % (i, c['neqsys_type'], c['chain'], NS.__name__)
        return None

    @staticmethod
    def _reduced_residual(es, form, y, params, rref_equil, rref_preserv):
        """what NumSys{Lin,Square,Log}.f must evaluate to for a homogeneous system under a reduction configuration, computed here from
        the definitions: equilibrium rows  prod c^R_i / K'_i - 1  (Log: R_i.y - ln K'_i) with (R | ln K') the reduced row echelon form of
        (N | ln K) — exact rational exponents —, conservation rows  B'.c - b'  with (B' | b') the rref of (B | B.c0) (or B, B.c0 as is)."""
        import numpy as np
        import sympy as sp
        ns = es.ns
        y = [float(v) for v in y]
        c0 = [float(v) for v in params[:ns]]
        lnK = [math.log(float(k)) for k in params[ns:]]
        N = [[int(v) for v in row] for row in es.stoichs()]
        conc = {'lin': y, 'square': [v * v for v in y], 'log': [math.exp(v) for v in y]}[form]
        lnc = [math.log(v) for v in conc]

        def reduce(rows, rhs):
            # rref of (rows | I): R = T.rows, so the reduced right-hand side is T.rhs (keeps the rhs out of the exact elimination)
            m = len(rows)
            aug = sp.Matrix([[sp.Rational(v) for v in row] + [1 if i == j else 0 for j in range(m)] for i, row in enumerate(rows)])
            red, piv = aug.rref()
            ncol = len(rows[0])
            keep = [i for i in range(m) if any(red[i, j] != 0 for j in range(ncol))]
            R = [[Fraction(int(red[i, j].p), int(red[i, j].q)) for j in range(ncol)] for i in keep]
            T = [[Fraction(int(red[i, ncol + j].p), int(red[i, ncol + j].q)) for j in range(m)] for i in keep]
            return R, [sum(float(t) * r for t, r in zip(Trow, rhs)) for Trow in T]
        R, lk = reduce(N, lnK) if rref_equil else ([[Fraction(v) for v in row] for row in N], lnK)
        if form == 'log':
            f_eq = [sum(float(e) * v for e, v in zip(row, y)) - k for row, k in zip(R, lk)]
        else:
            f_eq = [math.exp(sum(float(e) * l for e, l in zip(row, lnc) if e != 0) - k) - 1 for row, k in zip(R, lk)]
        B = [[int(v) if float(v).is_integer() else float(v) for v in row] for row in es.composition_balance_vectors()[0]]
        b = [sum(bv * cv for bv, cv in zip(row, c0)) for row in B]
        if rref_preserv:
            Rb, rb = reduce(B, b)
        else:
            Rb, rb = B, b
        f_pr = [sum(float(e) * v for e, v in zip(row, conc)) - r for row, r in zip(Rb, rb)]
        return np.asarray(f_eq + f_pr, dtype=float)

    def known_key(self, c, failure):
        """Finding `lm-nonroot-reported-as-success`: the Lin / Square formulations are over-determined (nr + #components equations
        for ns unknowns), so pyneqsys hands them to scipy's least-squares driver 'lm', whose success flag means "the least-squares
        iteration converged", not "a root was found"; chempy passes that flag on.  Characterising predicate: the chain ends in
        NumSysLin/NumSysSquare, the last stage itself reports success, and the residual that stage reports at the returned point
        exceeds the solver tolerance (1e-8).  Anything else (small reported residual but wrong state, success not reported by the
        stage, the default / logarithmic chain) is a new violation."""
        if c.get('kind') in ('homog', 'salt', 'single') and c.get('variant') in ('lin', 'square', 'loglin', 'loglin_rref', 'condchain', 'solve'):
            r = self._run(c)
            if c['variant'] == 'solve' and 'maxfun' not in r:      # EqCalcResult does not expose the stage info: ask _solve
                try:
                    es = self._build_pool(c)
                    with warnings.catch_warnings():
                        warnings.simplefilter('ignore')
                        _, sol, _ = es._solve(es.as_per_substance_array(dict(zip(c['subs'], c['init']))))
                    r['maxfun'], r['inner_success'] = _max_fun(sol), (bool(_inner(sol).get('success')) if 'success' in _inner(sol) else None)
                except Exception:
                    r['maxfun'] = None
            if r.get('maxfun') is None and r.get('x') is not None and c['variant'] == 'condchain':
                # ConditionalNeqSys wrapping a chain drops the stages' info: evaluate the residual of the last formulation (NumSysLin) at the
                # returned point ourselves, with the condition vector the solver reports
                try:
                    import numpy as np
                    from chempy.equilibria import NumSysLin
                    es = self._build_pool(c)
                    c0 = es.as_per_substance_array(dict(zip(c['subs'], c['init'])))
                    params = list(c0) + [float(k) for k in es.eq_constants()]
                    conds = tuple(r.get('conditions') or (False,) * len(es.phase_transfer_reaction_idxs()))
                    f = NumSysLin(es, precipitates=conds, backend='math').f(list(r['x']), params)
                    r['maxfun'] = float(np.max(np.abs(np.asarray([float(v) for v in f]))))
                except Exception:
                    r['maxfun'] = None
            if (r.get('maxfun') is not None and r['maxfun'] != r['maxfun'] and r.get('inner_success') is True
                    and isinstance(failure, str) and 'reports success and a sane result' in failure):
                # finding `nan-residual-reported-as-success`: with rref_equil=True and a formulation whose `small` is 0 (Lin) a switched-off solid
                # puts ln(0) = -inf into the row reduction; the residual is NaN, the solver returns its starting point and reports success
                return 'nan-residual-reported-as-success'
            if (r.get('maxfun') is not None and r['maxfun'] > 1e-8 and r.get('inner_success') is True
                    and isinstance(failure, str) and 'reports success and a sane result' in failure):
                return 'lm-nonroot-reported-as-success'
        return None

    def classify(self, c):
        if c.get('op'):
            op = c['op']
            if op in ('sane', 'fw', 'sane_nan'):
                return '%s:%s' % (op, c.get('mode', 'corpus'))
            if op in ('dissolved', 'lin_x0'):
                return op + ':' + ('balanced-salts' if c.get('balanced') else 'random')
            return op
        k = c.get('kind')
        if k in ('homog', 'salt', 'single'):
            return 'solve:%s:%s%s:%s' % (c.get('family', k), c['variant'], (':rref=%d%d' % tuple(map(int, c['rref']))) if c.get('rref') else '',
                                       self._run(c)['outcome'])
        if k == 'rate':
            ok, n = self._rate(c)
            return 'solve:rate:%s:%s:n=%d:failures=%d' % (c.get('pool'), 'solve' if 'solve' in c.get('chain', '') else 'root', n, n - ok)
        if k == 'stages':
            return 'stages:%s:%s%s' % (c['neqsys_type'], '-'.join(c['chain']), (':rref=%d%d' % tuple(map(int, c['rref']))) if c.get('rref') else '')
        if k == 'grid':
            return 'grid:%s:%d-varied' % (c['api'], len(c['varied']))
        if k == 'history':
            return 'history:%s:%s' % (c['system']['kind'], c['variant'])
        if k == 'warm':
            return 'warm:%s:%s:%s:%s' % (c['entry'], c['variant'], c['guess'], c['x0_as'])
        if k == 'calc':
            return 'calc:%s:%s:%d-varied' % (c['chain'], c['info_as'], len(c['varied']))
        if k == 'roots_plot':
            return 'roots_plot:%s' % ('+'.join(sorted(c['plot_kwargs'])) or 'plain')
        return 'solve:' + str(k)

    def nontrivial(self, c):
        return True

    def extra_search(self, rng, tier, hints):
        return self.generate(rng, self.n_quick if tier == 'quick' else self.n_thorough // 4, tier)


PROPERTY = C08()
