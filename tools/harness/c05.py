"""C05 — only balanced reactions are admitted and their elements and charge are conserved"""
from collections import OrderedDict
from fractions import Fraction
from math import gcd
import json, re
from lib.framework import Property
from . import kinetics_gen as kg
from .util import *

ELEMENTS = kg.ELEMENTS
FORMULAS = ['H2O', 'H+', 'OH-', 'H2', 'O2', 'H2O2', 'Fe+3', 'Fe+2', 'NH3', 'NH4+', 'CO2', 'HCO3-', 'CO3-2', 'Na+', 'Cl-', 'NaCl',
            'Fe(CN)6-3', 'Fe(CN)6-4', 'CN-', 'HCl', 'N2', 'NO3-', 'CH4', 'e-']


def _comp_json(comp):
    return None if comp is None else [[int(k), rat_json(v)] for k, v in comp.items()]


def _comp_of(cj):
    if cj is None:
        return None
    return OrderedDict((int(k), (kg.frac(v) if isinstance(v, list) else int(v))) for k, v in cj)


def _merge(pairs):
    d = OrderedDict()
    for k, v in pairs:
        d[k] = d.get(k, 0) + v
    return [[k, v] for k, v in d.items()]


class C05(Property):
    pid = 'C05'
    title = ('with compositions on all substances a reaction system is accepted iff every reaction leaves every composition key '
             '(elements, charge) unchanged, otherwise ValueError naming a violated key; the composition vectors are exact linear '
             'invariants of the rate function for all concentrations; offered analytic eliminations reproduce the invariants')
    props_module = 'ChemModel.Props.C05'
    build_modules = ('ChemModel.Model.Kinetics', 'ChemModel.Driver.KineticsIO', 'ChemModel.Basic.Proto')
    driver = 'ChemModel/Driver/C05.lean'
    n_quick, n_thorough = 500, 10000
    rule = ('random molecules over 1-4 elements (+ charge key 0, explicit zero entries, integer or half-integer amounts) and parsed '
            'formulas; balanced reactions planted by regrouping the reactants\' atoms and charge into new or existing molecules (reversed, '
            'with catalysts on both sides, part of a coefficient moved to the inactive dictionaries); reactions unbalanced in exactly one '
            'key (each element, charge only) through a one-key defect species; substances without composition; substances registered under '
            'alias keys (mapping key != Substance.name, incl. names swapped between substances); check_balance called '
            'directly (strict/throw) and through the constructor with default checks; composition_violation with None/True/explicit '
            'keys; composition_balance_vectors; mass/charge violation helpers; for accepted systems get_odesys: linear_invariants, '
            'B.f(c) at rational c on the symbolic rhs, analytic solver (preferred None / random lists incl. coupled ones) evaluated on the invariant manifold. '
            'HISTORIES: 3-11 calls on one ReactionSystem object (composition_balance_vectors, check_balance, composition_violation, '
            'get_odesys.linear_invariants) interleaved with sort_substances_inplace, re-ordering of rsys.substances, += of another system, '
            'deleting / permuting reactions, re-assigning a composition; every observation compared with the stateless model on the current '
            'state; TEXT ENTRY: systems built by ReactionSystem.from_string from reaction lines with REPEATED terms on a side (bare+bare, '
            'bare+coefficient, coefficient+bare, `n * X`, `0 X`, repeated parenthesised inactive terms, a species active and inactive, a species '
            'on both sides), accepted iff balanced over the multiset of written terms; MULTI-CONSTRUCTION: 2-4 different systems constructed one after the other in one process with the documented options '
            'checks= / dont_check= (any subset of the default checks), unknown keys and duplicated reactions, class-level default_checks '
            'compared after every construction. A case is non-trivial when it is a distinct JSON value with at least one reaction.')
    assumptions = ('composition amounts are exact numbers (int / Fraction); decimal formula counts (floats) are outside the exact model',
                   'sympy Matrix.rref (reduced rows and pivots) is delegated: the model is given its output',
                   'numerical integration keeping the invariants to solver tolerance is runtime behaviour of the delegated integrator, '
                   'not modelled (sampled by C06)',
                   'ReactionSystem default checks other than balance (substance_keys, duplicate, duplicate_names) are made to pass by '
                   'construction in the constructor cases; their iteration order (a Python set) is not modelled',
                   'the reaction named in the ValueError text is identified with the first reaction printing identically')
    clauses_without_theorem = (
        'numerical integration keeps the invariants at their initial values to solver tolerance: not modelled, no theorem (sampled by C06)',
        'the constructor with default checks: theorem constructor_accept_iff covers it with the outcome of check_duplicate / '
        'check_duplicate_names as an explicit Boolean hypothesis (those two checks are not modelled here); that the real constructor is the '
        'conjunction of its checks is tied by correspondence only',
        'Substance.__init__ (charge keyword merged into composition[0], empty composition kept as {} and not turned into None) is not '
        'modelled: correspondence/oracle only (cases with charge_kw and explicitly empty compositions)',
        'odesys.linear_invariants / linear_invariant_names equal composition_balance_vectors(): correspondence only; that the GENERATED '
        'expressions conserve those vectors is theorem generated_rhs_conserves over C04 s buildRhs (no CSTR); the compiled f_cb is oracle only',
        'the matrix handed to the analytic solver is the rref of the composition vectors (sympy, delegated): correspondence only',
        'decimal (float) composition amounts: the exact model is compared with the float implementation (accepted iff exactly balanced) '
        'outside the open finding check_balance:float-roundoff-decimal-compositions; no theorem about float arithmetic',
        'the text level of ReactionSystem.from_string / Reaction.from_string is C12 s model; here the multiset semantics of the written terms '
        '(mergeTerms; C03.written_terms_spec) combined with accept_iff_balanced, tied by the from_string correspondence and oracle',
        'sortedness of composition_keys(skip_keys=...) and the left-over ValueError of linear_dependencies (a preferred key that no row can '
        'serve): correspondence only (membership and the three argument refusals are theorem helper_specs); refusal of malformed reaction '
        'lines is C12 s text model',
        'the constructor options checks= / dont_check= (modelled as constructorChecks; theorem only for the default selection) and the '
        'independence of one construction from earlier constructions in the same process (class-level default_checks never modified): '
        'multi-construction correspondence and oracle only',
        'results depend only on the current state of the object (no stale caches after sort_substances_inplace, +=, re-assigned '
        'compositions) and hold for array-valued concentrations without modifying inputs: history / batched correspondence and oracle only',
    )
    anchors = (('chempy/reactionsystem.py', 'ReactionSystem.check_balance'), ('chempy/reactionsystem.py', 'ReactionSystem.composition_balance_vectors'),
               ('chempy/chemistry.py', 'Reaction.composition_violation'), ('chempy/chemistry.py', 'Reaction._violation'),
               ('chempy/chemistry.py', 'Reaction.net_stoich'), ('chempy/chemistry.py', 'Substance.composition_keys'),
               ('chempy/kinetics/ode.py', 'get_odesys.linear_dependencies'),
               ('chempy/util/parsing.py', '_parse_multiplicity'), ('chempy/util/parsing.py', 'to_reaction'))

    def __init__(self):
        self._elim_cache = {}

    # ---- generation -------------------------------------------------------------------------
    def _system(self, rng, tier, formulas=False):
        """-> (subs: OrderedDict name -> comp dict, rxn specs, planted: 'balanced' | ('unbalanced', idx, key), charge_kw: name -> charge
        for substances to be constructed as Substance(name, charge=n, composition=<the rest>))"""
        subs = OrderedDict()
        charge_kw = {}
        if formulas:
            from chempy import Substance
            for f in rng.sample(FORMULAS, rng.randint(2, 5)):
                subs[f] = dict(Substance.from_formula(f).composition)
        else:
            elements = rng.sample(ELEMENTS, rng.randint(1, 4))
            for i in range(rng.randint(1, 4)):
                subs['M%d' % i] = kg.rand_molecule(rng, elements)
        nr = rng.choice([0, 1, 1, 2, 2, 3, rng.randint(1, 5 if tier == 'quick' else 9)])
        rxns = []
        for ri in range(nr):
            names = [k for k in subs if any(e != 0 for e in subs[k])]
            if not names:
                break
            ks = rng.sample(names, rng.randint(1, min(3, len(names))))
            reac = [[k, rng.randint(1, 3)] for k in ks]
            total = {}
            for k, n in reac:
                for e, v in subs[k].items():
                    total[e] = total.get(e, 0) + n * v
            total = {e: v for e, v in total.items() if v != 0}
            parts = [total]
            if rng.random() < 0.5:
                a = {}
                for e, v in total.items():
                    x = rng.randint(min(0, v), max(0, v)) if e == 0 else rng.randint(0, v)
                    if x:
                        a[e] = x
                b = {e: v - a.get(e, 0) for e, v in total.items() if v - a.get(e, 0) != 0}
                if any(e != 0 for e in a) and any(e != 0 for e in b):
                    parts = [a, b]
            prod = []
            for p in parts:
                g = 0
                for v in p.values():
                    g = gcd(g, abs(v))
                if g > 1 and rng.random() < 0.7:
                    p = {e: v // g for e, v in p.items()}
                else:
                    g = 1
                name = next((k for k, c in subs.items() if c == p), None)
                if name is None:
                    name = 'P%d' % len(subs)
                    subs[name] = p
                prod.append([name, g])
            prod = _merge(prod)
            if sorted(map(tuple, prod)) == sorted(map(tuple, reac)):
                continue
            if rng.random() < 0.3:
                reac, prod = prod, reac
            if rng.random() < 0.25:                                   # catalyst on both sides
                k = rng.choice(list(subs))
                n = rng.randint(1, 2)
                reac, prod = _merge(reac + [[k, n]]), _merge(prod + [[k, n]])
            ir, ip = [], []
            if rng.random() < 0.45:
                # move part of a coefficient — or ALL of it: the species is then PURELY inactive in this reaction (a solvent written
                # `(H2O)`), on the reactant side, the product side, or both — to the inactive dicts
                for _ in range(rng.choice([1, 1, 2])):
                    side, inact = (reac, ir) if rng.random() < 0.5 else (prod, ip)
                    if not side:
                        continue
                    j = rng.randrange(len(side))
                    whole = rng.random() < 0.5 and (len(reac) > 1 or side is prod)      # keep at least one active reactant
                    if whole:
                        k, n = side.pop(j)
                        inact[:] = _merge(inact + [[k, n]])
                    elif side[j][1] > 1:
                        m = rng.randint(1, side[j][1] - 1)
                        side[j][1] -= m
                        inact[:] = _merge(inact + [[side[j][0], m]])
            rxns.append({'reac': reac, 'prod': prod, 'inact_reac': ir, 'inact_prod': ip, 'param': ri + 1 + rng.randint(0, 3) * 10,
                         'ordered': rng.random() < 0.5})
        if not formulas and rng.random() < 0.25 and subs:             # explicit zero entry in a composition
            k = rng.choice(list(subs))
            free = [e for e in ELEMENTS + [0] if e not in subs[k]]
            if free:
                subs[k] = dict(subs[k])
                subs[k][rng.choice(free)] = 0
        planted = 'balanced'
        if rxns and rng.random() < 0.45:
            keys = sorted({e for c in subs.values() for e in c})
            key = rng.choice(keys + [0])
            idx = rng.randrange(len(rxns))
            dname = 'D%d' % key
            subs[dname] = {key: rng.choice([1, 1, 2, -1] if key == 0 else [1, 1, 2])}
            side = rng.choice(['reac', 'prod', 'inact_reac', 'inact_prod'])
            rxns[idx][side] = rxns[idx][side] + [[dname, rng.randint(1, 2)]]
            planted = ['unbalanced', idx, key]
            if key == 0 and rng.random() < 0.5:
                # an explicit electron-like species: Substance(name, charge=n, composition={})
                charge_kw[dname] = subs[dname][0]
        if not formulas and rxns and rng.random() < 0.2:
            # an atom-free, uncharged species (photon, vacancy) with an explicitly EMPTY composition on one side of a reaction
            subs['hv'] = {}
            j = rng.randrange(len(rxns))
            side = rng.choice(['reac', 'prod', 'inact_reac', 'inact_prod'])
            rxns[j][side] = rxns[j][side] + [['hv', 1]]
        if rng.random() < 0.15 and subs:
            # the charge of a charged species given through the `charge` keyword instead of composition[0]
            ch = [k for k, c in subs.items() if c.get(0) and k not in charge_kw]
            if ch:
                k = rng.choice(ch)
                charge_kw[k] = subs[k][0]
        return subs, rxns, planted, charge_kw

    @staticmethod
    def _alias(rng, sj):
        """for a fraction of the systems the substances are registered under keys that differ from Substance.name
        (reactions, variables and the model always use the KEYS of the mapping)"""
        if rng.random() < 0.25:
            return {k: rng.choice(['name_of_' + k, k.lower() + '*', 'S%d' % i, sj[(i + 1) % len(sj)][0]])
                    for i, (k, _) in enumerate(sj) if rng.random() < 0.8}
        return {}

    def generate(self, rng, n, tier):
        cases = []
        n_ode = max(12, n // 20)
        for i in range(n):
            if i % 8 == 5:
                cases.append(self._history(rng, tier))
                continue
            if i % 16 == 3:
                cases.append(self._multi(rng, tier))
                continue
            if i % 8 == 1:
                cases.append(self._from_string(rng, tier))
                continue
            if i % 24 == 7:
                cases.append(self._malformed_line(rng, tier))
                continue
            subs, rxns, planted, charge_kw = self._system(rng, tier, formulas=rng.random() < 0.25)
            scale = rng.choice([[1, 10], [3, 10], [7, 10], [1, 100]]) if rng.random() < 0.12 else rng.choice([1, 1, 1, [1, 2], [3, 2]])
            dec = isinstance(scale, list) and scale[1] in (10, 100)       # decimal amounts: the real code computes with floats
            sj = [[k, _comp_json({e: kg.frac(scale) * v for e, v in c.items()})] for k, c in subs.items()]
            charge_kw = {k: rat_json(kg.frac(scale) * v) for k, v in charge_kw.items()}
            if rng.random() < 0.12 and sj:
                sj[rng.randrange(len(sj))][1] = None                   # a substance without composition
            if rng.random() < 0.3:
                rng.shuffle(sj)
            base = {'subs': sj, 'rxns': rxns, 'planted': planted, 'charge_kw': charge_kw, 'alias': self._alias(rng, sj)}
            r = rng.random()
            if dec:
                # floats cannot be compared exactly on the vector / helper ops: decimal amounts go through the acceptance ops only
                cases.append(dict(base, op='check_balance', strict=False, throw=True, dec=True,
                                  via=rng.choice(['method', 'constructor'])))
                continue
            if i < n_ode and planted == 'balanced' and rxns and all(c is not None for _, c in sj):
                used = {k for s in rxns for k in kg.spec_keys(s)}
                sj2 = [p for p in sj if p[0] in used]
                pref = None
                if rng.random() < 0.6:
                    pref = rng.sample([p[0] for p in sj2], rng.randint(1, max(1, len(sj2) - 1)))
                m = rng.random()
                if m < 0.06:
                    pref = []                                            # refused: no preferred keys
                elif m < 0.12:
                    pref = [p[0] for p in sj2]                           # refused: cannot remove all concentrations
                elif m < 0.18:
                    pref = (pref or [])[:1] + ['Q_unknown']              # refused: unknown key (when not already too long)
                c = dict(base, subs=sj2, op='elim', preferred=pref, seed=rng.randrange(10 ** 9))
            elif r < 0.3:
                c = dict(base, op='check_balance', strict=rng.random() < 0.3, throw=rng.random() < 0.8, via='method')
                m = rng.random()
                if m < 0.08 and sj:
                    # strict check on a system lacking a composition, asked not to throw: must return False
                    c['subs'] = [list(p) for p in sj]
                    c['subs'][rng.randrange(len(sj))][1] = None
                    c['strict'], c['throw'] = True, False
                elif m < 0.16:
                    c = {'op': 'composition_keys', 'subs': sj, 'charge_kw': charge_kw, 'alias': base['alias'], 'planted': planted,
                         'skip': rng.choice([None, [0], [0, rng.choice(ELEMENTS)], rng.sample(ELEMENTS, 2), []])}
            elif r < 0.45:
                c = dict(base, op='check_balance', strict=False, throw=True, via='constructor')
            elif r < 0.55:
                # the constructor as the conjunction of its default checks: unknown keys, duplicated reactions
                c = dict(base, op='construct', rxns=[dict(x) for x in rxns])
                m = rng.random()
                used = [k for k, _ in sj if any(k in kg.spec_keys(x) for x in rxns)]
                if m < 0.35 and used:
                    drop = rng.choice(used)
                    c['subs'] = [p for p in sj if p[0] != drop]
                elif m < 0.55 and rxns:
                    c['rxns'].append(dict(rng.choice(rxns)))
            elif r < 0.72 and rxns:
                ck = None
                m = rng.random()
                if m < 0.3:
                    ck = sorted(rng.sample(ELEMENTS + [0, 99], rng.randint(0, 4)))
                    rng.shuffle(ck)
                c = {'op': 'comp_violation', 'subs': sj, 'rxn': rng.choice(rxns), 'ckeys': ck, 'ret_keys': ck is None and m < 0.7,
                     'planted': planted, 'charge_kw': charge_kw, 'alias': base['alias']}
                if rng.random() < 0.05:
                    c['subs'] = []
            elif r < 0.85:
                c = {'op': 'balance_vectors', 'subs': sj, 'rxns': rxns, 'planted': planted, 'charge_kw': charge_kw, 'alias': base['alias']}
            elif rxns:
                which = rng.choice(['mass', 'charge', 'mass_given'])
                c = {'op': 'attr_violation', 'subs': sj, 'rxn': rng.choice(rxns), 'which': which, 'planted': planted,
                     'charge_kw': charge_kw, 'alias': base['alias']}
                if which == 'mass_given':
                    c['masses'] = [[k, rat_json(Fraction(rng.randint(1, 400), 4))] for k, _ in sj]
            else:
                c = dict(base, op='check_balance', strict=True, throw=True, via='method')
            cases.append(c)
        return cases


    # ---- systems entered as TEXT (ReactionSystem.from_string) with repeated terms on a side ---------------------------------
    def _from_string(self, rng, tier):
        subs, rxns, planted, charge_kw = self._system(rng, tier, formulas=rng.random() < 0.3)
        sj = [[k, _comp_json(c)] for k, c in subs.items()]
        written = []
        for j, x in enumerate(rxns):
            x = dict(x, param=j + 1)
            if rng.random() < 0.3 and x['reac']:
                # the same species written on both sides as well (n extra on each side keeps the balance)
                k, n = rng.choice(x['reac'])[0], rng.randint(1, 2)
                x['reac'] = _merge(x['reac'] + [[k, n]])
                x['prod'] = _merge(x['prod'] + [[k, n]])
            terms, line = kg.written_reaction(rng, x)
            written.append({'terms': terms, 'line': line})
        if rng.random() < 0.15 and sj:
            # a line with an EMPTY side (a species vanishing): unbalanced unless the species has an empty composition
            k = rng.choice([p[0] for p in sj])
            terms = {'reac': [[1, k]], 'prod': [], 'inact_reac': [], 'inact_prod': [], 'param': 99}
            written.append({'terms': terms, 'line': rng.choice(['%s -> ; 99', '%s ->; 99', '%s -> ']) % k})
        for w in written:
            m = rng.random()
            stoich = w['line'].split(';')[0]
            if m < 0.15:
                w['line'] = stoich.rstrip() if stoich.strip().endswith('->') is False else stoich     # no parameter part at all
            elif m < 0.3:
                w['line'] = stoich + "; 'k_%d'" % rng.randint(0, 99)                                   # quoted (named) parameter
            elif m < 0.4 and ';' in w['line']:
                w['line'] = w['line'] + "; name='n%d'" % rng.randint(0, 10 ** 6)     # (only after a parameter part: the 2nd part IS the parameter)
        return {'op': 'from_string_balance', 'subs': sj, 'written': written, 'planted': planted, 'charge_kw': charge_kw,
                'alias': self._alias(rng, sj)}

    def _malformed_line(self, rng, tier):
        """reaction lines the text reader must refuse (ValueError): no arrow, a term with too many parts, an unknown species"""
        subst = rng.sample(kg.NAMES, rng.randint(2, 4))
        spec = kg.rand_reaction(rng, subst, 'int', 3)
        spec['param'] = rng.randint(1, 9)
        if not spec['reac'] and not spec['prod']:
            spec['reac'] = [[subst[0], 1]]
        terms, line = kg.written_reaction(rng, spec)
        m = rng.choice(['no_arrow', 'too_many', 'unknown', 'fine'])
        if m == 'no_arrow':
            line = line.replace('->', rng.choice(['=', '>', '- >', '']))
        elif m == 'too_many':
            line = line.replace(' -> ', ' + 2 %s %s -> ' % (subst[0], subst[-1]), 1) if ' -> ' in line else '2 %s %s %s' % (subst[0], subst[-1], line)
        elif m == 'unknown':
            line = line.replace(' -> ', ' + Q_unknown -> ', 1) if ' -> ' in line else 'Q_unknown + ' + line
        return {'op': 'parse_refusal', 'keys': list(subst), 'line': line, 'kind': m}

    def _from_string_run(self, c, checks=None):
        from chempy import ReactionSystem
        text = '\n'.join(w['line'] for w in c['written'])
        kw = {} if checks is None else {'checks': checks}
        return ReactionSystem.from_string(text, self._substances(c['subs'], c=c), rxn_parse_kwargs={'checks': ()}, **kw)

    # ---- several DIFFERENT systems constructed one after the other in one process, with the checks= / dont_check= options ------
    DEFAULT_CHECKS = ('balance', 'substance_keys', 'duplicate', 'duplicate_names')

    def _multi(self, rng, tier):
        steps = []
        for _ in range(rng.randint(2, 4)):
            subs, rxns, planted, charge_kw = self._system(rng, tier, formulas=rng.random() < 0.25)
            sj = [[k, _comp_json(c)] for k, c in subs.items()]
            rxns = [dict(x) for x in rxns]
            m = rng.random()
            used = [k for k, _ in sj if any(k in kg.spec_keys(x) for x in rxns)]
            if m < 0.2 and used:
                drop = rng.choice(used)
                sj = [p for p in sj if p[0] != drop]
            elif m < 0.35 and rxns:
                rxns.append(dict(rng.choice(rxns)))
            o = rng.random()
            if o < 0.4:
                opt = None
            elif o < 0.75:
                opt = {'dont_check': sorted(rng.sample(self.DEFAULT_CHECKS, rng.randint(1, 3)))}
            else:
                opt = {'checks': sorted(rng.sample(self.DEFAULT_CHECKS, rng.randint(0, 4)))}
            steps.append({'op': 'construct', 'subs': sj, 'rxns': rxns, 'planted': planted, 'charge_kw': charge_kw, 'alias': {}, 'opt': opt})
        return {'op': 'multi_construct', 'steps': steps}

    def _effective(self, opt):
        if not opt:
            return set(self.DEFAULT_CHECKS)
        if 'checks' in opt:
            return set(opt['checks'])
        return set(self.DEFAULT_CHECKS) ^ set(opt['dont_check'])

    @staticmethod
    def _ctor_kwargs(opt):
        if not opt:
            return {}
        if 'checks' in opt:
            return {'checks': tuple(opt['checks'])}
        return {'dont_check': set(opt['dont_check'])}

    # ---- histories: several calls on ONE ReactionSystem object with mutations in between ------------------------
    @staticmethod
    def _pure_balanced(state):
        comps = OrderedDict((k, _comp_of(cj)) for k, cj in state['subs'])
        if any(v is None for v in comps.values()):
            return None
        keys = sorted({e for v in comps.values() for e in v})
        return all(sum(Fraction(comps[k].get(e, 0)) * kg.net_of(s, k) for k in comps) == 0 for s in state['rxns'] for e in keys)

    def _history(self, rng, tier):
        subs, rxns, planted, charge_kw = self._system(rng, tier, formulas=rng.random() < 0.25)
        sj = [[k, _comp_json(c)] for k, c in subs.items()]
        rng.shuffle(sj)                                            # an order that sorting will change
        state = {'subs': [list(p) for p in sj], 'rxns': [dict(r) for r in rxns]}
        steps = []
        fresh = [0]
        alias = self._alias(rng, sj)

        def observe():
            o = rng.random()
            used = {k for s in state['rxns'] for k in kg.spec_keys(s)}
            if o < 0.3 and state['rxns'] and self._pure_balanced(state) and all(k in used for k, _ in state['subs']):
                return {'do': 'obs', 'op': 'odesys'}
            if o < 0.6:
                return {'do': 'obs', 'op': 'balance_vectors'}
            if o < 0.85 or not state['rxns']:
                return {'do': 'obs', 'op': 'check_balance', 'strict': rng.random() < 0.3, 'throw': rng.random() < 0.8}
            return {'do': 'obs', 'op': 'comp_violation', 'i': rng.randrange(len(state['rxns']))}

        steps.append(observe())
        for _ in range(rng.randint(2, 5)):
            m = rng.random()
            names = [k for k, _ in state['subs']]
            if m < 0.3:
                st = {'do': 'sort_substances'}
            elif m < 0.5 and len(names) > 1:
                perm = list(range(len(names)))
                rng.shuffle(perm)
                st = {'do': 'reorder', 'perm': perm}
            elif m < 0.68:
                # `rsys += other`: a new reaction n K -> Q (balanced, or off by one in one key) with a new substance
                withc = [(k, cj) for k, cj in state['subs'] if cj]
                if not withc:
                    st = {'do': 'sort_substances'}
                else:
                    k, cj = rng.choice(withc)
                    n = rng.randint(1, 3)
                    comp = [[e, rat_json(kg.frac(v) * n)] for e, v in cj]
                    if rng.random() < 0.3:
                        j = rng.randrange(len(comp))
                        comp[j] = [comp[j][0], rat_json(kg.frac(comp[j][1]) + 1)]
                    fresh[0] += 1
                    st = {'do': 'iadd', 'sub': ['Q%d' % fresh[0], comp],
                          'rxn': {'reac': [[k, n]], 'prod': [['Q%d' % fresh[0], 1]], 'inact_reac': [], 'inact_prod': [],
                                  'param': 100 + fresh[0], 'ordered': True}}
            elif m < 0.8 and state['rxns']:
                st = {'do': 'delete', 'i': rng.randrange(len(state['rxns']))}
            elif m < 0.92 and state['subs']:
                # the composition of one substance is re-assigned (may break or restore the balance)
                j = rng.randrange(len(state['subs']))
                cj = state['subs'][j][1]
                new = None if (cj is None or rng.random() < 0.15) else [[e, rat_json(kg.frac(v) + (1 if rng.random() < 0.5 else 0))] for e, v in cj]
                if cj is None:
                    new = [[rng.choice(ELEMENTS), 1]]
                st = {'do': 'set_composition', 'key': state['subs'][j][0], 'comp': new}
            elif len(state['rxns']) > 1:
                perm = list(range(len(state['rxns'])))
                rng.shuffle(perm)
                st = {'do': 'permute_rxns', 'perm': perm}
            else:
                st = {'do': 'sort_substances'}
            self._apply_pure(state, st)
            steps.append(st)
            for _ in range(rng.randint(1, 2)):
                steps.append(observe())
        return {'op': 'history', 'subs': sj, 'rxns': rxns, 'planted': planted, 'steps': steps, 'seed': rng.randrange(10 ** 9),
                'charge_kw': charge_kw, 'alias': alias}

    @staticmethod
    def _apply_pure(state, st):
        d = st['do']
        if d == 'sort_substances':
            state['subs'] = sorted(state['subs'], key=lambda kv: kv[0])
        elif d == 'reorder':
            state['subs'] = [state['subs'][i] for i in st['perm']]
        elif d == 'iadd':
            state['subs'] = state['subs'] + [list(st['sub'])]
            state['rxns'] = state['rxns'] + [st['rxn']]
        elif d == 'delete':
            state['rxns'] = [r for j, r in enumerate(state['rxns']) if j != st['i']]
        elif d == 'set_composition':
            state['subs'] = [[k, (st['comp'] if k == st['key'] else cj)] for k, cj in state['subs']]
        elif d == 'permute_rxns':
            state['rxns'] = [state['rxns'][i] for i in st['perm']]
        else:
            raise ValueError(d)

    def _apply_real(self, rsys, st):
        from chempy import ReactionSystem
        d = st['do']
        if d == 'sort_substances':
            rsys.sort_substances_inplace()
        elif d == 'reorder':
            items = list(rsys.substances.items())
            rsys.substances = OrderedDict(items[i] for i in st['perm'])
        elif d == 'iadd':
            other = ReactionSystem([kg.mk_reaction(st['rxn'], 'int')], self._substances([st['sub']]), checks=())
            rsys += other
        elif d == 'delete':
            del rsys.rxns[st['i']]
        elif d == 'set_composition':
            rsys.substances[st['key']].composition = _comp_of(st['comp'])
        elif d == 'permute_rxns':
            rsys.rxns[:] = [rsys.rxns[i] for i in st['perm']]
        else:
            raise ValueError(d)
        return rsys

    def _single(self, state, st):
        base = {'subs': [list(p) for p in state['subs']], 'rxns': [dict(r) for r in state['rxns']], 'planted': 'history'}
        if st['op'] in ('balance_vectors', 'odesys'):
            return dict(base, op='balance_vectors', observed=st['op'])
        if st['op'] == 'check_balance':
            return dict(base, op='check_balance', strict=st['strict'], throw=st['throw'], via='method')
        if st['op'] == 'comp_violation':
            return {'op': 'comp_violation', 'subs': base['subs'], 'rxn': state['rxns'][st['i']], 'i': st['i'], 'ckeys': None,
                    'ret_keys': True, 'planted': 'history'}
        raise ValueError(st['op'])

    def _observe(self, rsys, m):
        """one observation on an existing ReactionSystem object -> canonical line (same text as the single-step ops)"""
        op = m['op']
        try:
            if op == 'check_balance':
                try:
                    return str(rsys.check_balance(strict=m['strict'], throw=m['throw']))
                except ValueError as e:
                    return self._balance_line(e, rsys.rxns, rsys.substances)
            if op == 'comp_violation':
                net, ck = rsys.rxns[m['i']].composition_violation(rsys.substances, True)
                return show_rat_list(map(kg.to_frac, net)) + ';' + show_int_list(ck)
            if op == 'balance_vectors' and m.get('observed') == 'odesys':
                from chempy.kinetics.ode import get_odesys
                odesys, extra = get_odesys(rsys)
                li = odesys.linear_invariants
                rows = [] if li is None else li.tolist()
                ck = [] if odesys.linear_invariant_names is None else [int(x) for x in odesys.linear_invariant_names]
                if list(odesys.names) != list(rsys.substances):
                    return 'names-differ'
                return '[' + ','.join(show_rat_list(map(kg.to_frac, row)) for row in rows) + '];' + show_int_list(ck)
            if op == 'balance_vectors':
                B, ck = rsys.composition_balance_vectors()
                return '[' + ','.join(show_rat_list(map(kg.to_frac, row)) for row in B) + '];' + show_int_list(ck)
        except Exception as e:
            return exc_name(e)
        return '!unknown-op'

    # ---- real objects -----------------------------------------------------------------------
    def _substances(self, sj, masses=None, c=None):
        """the real Substance objects of a case. `charge_kw` (name -> charge): that substance is constructed with the `charge`
        keyword and its composition without key 0 (possibly the empty dict); `dec`: non-integer amounts are given as floats;
        `alias` (key -> name): the substance is registered in the mapping under a key that differs from its `name`."""
        from chempy import Substance
        md = dict((k, kg.frac(v)) for k, v in masses) if masses else {}
        ckw = (c or {}).get('charge_kw') or {}
        dec = bool((c or {}).get('dec'))
        alias = (c or {}).get('alias') or {}      # key in the substances mapping -> Substance.name (when they differ)
        out = OrderedDict()
        for k, cj in sj:
            comp = _comp_of(cj)
            if comp is not None and dec:
                comp = OrderedDict((e, (int(v) if Fraction(v).denominator == 1 else float(v))) for e, v in comp.items())
            kw = {}
            if comp is not None and k in ckw and 0 in comp:
                kw['charge'] = comp.pop(0)
            out[k] = Substance(alias.get(k, k), composition=comp, data=({'mass': float(md[k])} if k in md else None), **kw)
        return out

    def _rsys(self, c, checks=()):
        from chempy import ReactionSystem
        rxns = [kg.mk_reaction(s, 'int') for s in c['rxns']]
        return ReactionSystem(rxns, self._substances(c['subs'], c=c), checks=checks), rxns

    def _elim(self, c):
        """run the real get_odesys / analytic solver once per case"""
        key = json.dumps(c, sort_keys=True)
        if key in self._elim_cache:
            return self._elim_cache[key]
        import sympy, random
        from chempy.kinetics.ode import get_odesys
        out = {}
        try:
            rsys, _ = self._rsys(c, checks=None)
            odesys, extra = get_odesys(rsys)
            B, ck = rsys.composition_balance_vectors()
            out.update(odesys=odesys, extra=extra, rsys=rsys, B=B, ck=ck)
            A = sympy.Matrix(B)
            rA, pivots = A.rref()
            out.update(rA=rA, pivots=pivots)
            ny = len(odesys.names)
            y0s = {odesys.dep[i]: sympy.Symbol('y0_%d' % i) for i in range(ny)}
            try:
                exprs = extra['linear_dependencies'](c['preferred'])(0, y0s, None, sympy)
                out['exprs'] = exprs
                out['y0s'] = y0s
            except ValueError as e:
                out['solver_error'] = 'ValueError'
        except Exception as e:
            out['error'] = '%s: %s' % (exc_name(e), str(e)[:200])
        if len(self._elim_cache) > 4000:
            self._elim_cache.clear()
        self._elim_cache[key] = out
        return out

    def _manifold_point(self, c, out):
        """random rational y0 and y with B (y - y0) = 0 (y = y0 + nullspace * t)"""
        import sympy, random
        rng = random.Random(c['seed'])
        ny = len(out['odesys'].names)
        y0 = [Fraction(rng.randint(0, 20), rng.randint(1, 6)) for _ in range(ny)]
        N = sympy.Matrix(out['B']).nullspace()
        y = list(y0)
        for v in N:
            t = Fraction(rng.randint(-9, 9), rng.randint(1, 5))
            for i in range(ny):
                y[i] += t * Fraction(int(v[i].p), int(v[i].q))
        return y0, y

    # ---- model cases ------------------------------------------------------------------------
    def model_case(self, c):
        op = c.get('op')
        if not op:
            return None
        if op == 'history':
            state = {'subs': [list(p) for p in c['subs']], 'rxns': [dict(r) for r in c['rxns']]}
            msteps = []
            for st in c['steps']:
                if st['do'] == 'obs':
                    msteps.append(self.model_case(self._single(state, st)))
                else:
                    self._apply_pure(state, st)
            return {'op': 'history', 'steps': msteps, 'orig': c}
        m = dict(c)
        if 'rxns' in c:
            m['rxns'] = [kg.readback(kg.mk_reaction(s, 'int'), s) for s in c['rxns']]
        if 'rxn' in c:
            m['rxn'] = kg.readback(kg.mk_reaction(c['rxn'], 'int'), c['rxn'])
        if op == 'multi_construct':
            return {'op': 'history', 'steps': [self.model_case(st) for st in c['steps']], 'orig': c}
        if op == 'from_string_balance':
            return dict(c, op='check_balance_terms', rxns_terms=[w['terms'] for w in c['written']], strict=False, throw=True)
        if op == 'construct':
            from chempy import ReactionSystem
            eff = self._effective(c.get('opt'))
            rs = ReactionSystem([kg.mk_reaction(x, 'int') for x in c['rxns']], self._substances(c['subs'], c=c), checks=())
            # duplicate / duplicate_names are not modelled: their outcome (for the selected ones) is taken from the real checks
            m['dup_ok'] = bool(('duplicate' not in eff or rs.check_duplicate()) and ('duplicate_names' not in eff or rs.check_duplicate_names()))
            m['do_balance'] = 'balance' in eff
            m['do_keys'] = 'substance_keys' in eff
        if op == 'attr_violation':
            if c['which'] == 'mass_given':
                m['attrs'] = c['masses']
            elif c['which'] == 'charge':
                if any(cj is None for _, cj in c['subs']):
                    return None                                        # AttributeError path: exercised through comp_violation
                m['attrs'] = [[k, next((v for e, v in cj if e == 0), 0)] for k, cj in c['subs']]
            else:
                return None                                            # computed masses are floats: oracle only
        if op == 'elim':
            out = self._elim(c)
            if 'error' in out:
                return '!harness-exception:get_odesys:' + out['error']
            y0, y = self._manifold_point(c, out)
            rA = out['rA']
            m = {'op': 'elim_full', 'orig': c,
                 'rows': [[rat_json(kg.to_frac(rA[ri, j])) for j in range(rA.shape[1])] for ri in range(rA.shape[0])],
                 'npiv': len(out['pivots']), 'names': list(out['odesys'].names), 'preferred': c['preferred'],
                 'y0': [rat_json(v) for v in y0], 'y': [rat_json(v) for v in y]}
        return m

    def _balance_line(self, e, rxns, substances=None):
        msg = str(e)
        mm = re.match(r'Composition violation \((-?\d+): (.*?)\) in (.*)$', msg, re.S)
        if mm:
            strs = [r.string(with_param=False, with_name=False) for r in rxns]
            idx = strs.index(mm.group(3)) if mm.group(3) in strs else -1
            return 'ValueError:violation:%d:%s:%s' % (idx, mm.group(1), show_rat(Fraction(mm.group(2))))
        mm = re.match(r'No composition for (.*)$', msg)
        if mm:
            # the message prints the Substance (its name); the model reports the KEY it is registered under
            # (check_balance reports the FIRST substance, in mapping order, without composition; several substances may carry the
            # same name, and a name may equal another substance's key)
            key = next((k for k, sv in (substances or {}).items() if sv.composition is None and str(sv) == mm.group(1)), mm.group(1))
            return 'ValueError:no-composition:' + key
        return 'ValueError:' + msg[:80]

    def impl(self, c):
        from chempy import ReactionSystem
        op = c['op']
        try:
            if op == 'history' and c['orig']['op'] == 'multi_construct':
                return ' | '.join(self.impl(st) for st in c['steps'])
            if op == 'history':
                o = c['orig']
                rsys, _ = self._rsys(o)
                outs, j = [], 0
                for st in o['steps']:
                    if st['do'] == 'obs':
                        outs.append(self._observe(rsys, c['steps'][j]))
                        j += 1
                    else:
                        rsys = self._apply_real(rsys, st)
                return ' | '.join(outs)
            if op == 'parse_refusal':
                from chempy import ReactionSystem
                try:
                    ReactionSystem.from_string(c['line'], list(c['keys']), rxn_parse_kwargs={'checks': ()}, checks=(),
                                               substance_factory=lambda k: __import__('chempy').Substance(k))
                    return 'ok'
                except ValueError:
                    return 'ValueError'
            if op == 'check_balance_terms':
                try:
                    self._from_string_run(c)
                    return 'True'
                except ValueError as e:
                    try:
                        rsys = self._from_string_run(c, checks=())
                        return self._balance_line(e, rsys.rxns, rsys.substances)
                    except Exception:
                        return 'ValueError:' + str(e)[:80]
            if op == 'construct':
                try:
                    ReactionSystem([kg.mk_reaction(x, 'int') for x in c['rxns']], self._substances(c['subs'], c=c),
                                   **self._ctor_kwargs(c.get('opt')))
                    return 'True'
                except ValueError:
                    return 'ValueError'
            if op == 'check_balance':
                rxns = [kg.mk_reaction(s, 'int') for s in c['rxns']]
                subs = self._substances(c['subs'], c=c)
                if c['via'] == 'constructor':
                    try:
                        ReactionSystem(rxns, subs)
                        return 'True'
                    except ValueError as e:
                        return self._balance_line(e, rxns, subs)
                rsys = ReactionSystem(rxns, subs, checks=())
                try:
                    return str(rsys.check_balance(strict=c['strict'], throw=c['throw']))
                except ValueError as e:
                    return self._balance_line(e, rxns, subs)
            if op == 'comp_violation':
                rxn = kg.mk_reaction(c['rxn'], 'int')
                subs = self._substances(c['subs'], c=c)
                if c['ckeys'] is None:
                    if c['ret_keys']:
                        net, ck = rxn.composition_violation(subs, True)
                    else:
                        net, ck = rxn.composition_violation(subs), None
                        from chempy import Substance
                        ck = Substance.composition_keys(subs.values())
                else:
                    net, ck = rxn.composition_violation(subs, c['ckeys']), c['ckeys']
                return show_rat_list(map(kg.to_frac, net)) + ';' + show_int_list(ck)
            if op == 'composition_keys':
                from chempy import Substance
                subs = self._substances(c['subs'], c=c)
                if c['skip'] is None:
                    return show_int_list(Substance.composition_keys(subs.values()))
                return show_int_list(Substance.composition_keys(subs.values(), skip_keys=tuple(c['skip'])))
            if op == 'balance_vectors':
                rsys, _ = self._rsys(c)
                B, ck = rsys.composition_balance_vectors()
                return '[' + ','.join(show_rat_list(map(kg.to_frac, row)) for row in B) + '];' + show_int_list(ck)
            if op == 'attr_violation':
                rxn = kg.mk_reaction(c['rxn'], 'int')
                subs = self._substances(c['subs'], c.get('masses'), c=c)
                v = rxn.mass_balance_violation(subs) if c['which'] == 'mass_given' else rxn.charge_neutrality_violation(subs)
                return show_rat(Fraction(v))
            if op == 'elim_full':
                out = self._elim(c['orig'])
                if 'solver_error' in out:
                    return '?;ValueError;'
                import sympy
                odesys, exprs, y0s = out['odesys'], out['exprs'], out['y0s']
                idxs = [list(odesys.dep).index(k) for k in exprs]
                elim = set(exprs)
                if any(v.free_symbols & elim for v in exprs.values()):
                    return show_int_list(idxs) + ';ok;circular'
                sub = {odesys.dep[i]: sympy.Rational(*(kg.frac(v).as_integer_ratio())) for i, v in enumerate(c['y'])}
                sub.update({y0s[odesys.dep[i]]: sympy.Rational(*(kg.frac(v).as_integer_ratio())) for i, v in enumerate(c['y0'])})
                vals = [kg.to_frac(e.subs(sub)) for e in exprs.values()]
                return show_int_list(idxs) + ';ok;' + show_rat_list(vals)
        except Exception as e:
            return exc_name(e)
        return '!unknown-op'

    def same(self, c, io, mo):
        if c['op'] == 'history':
            a, b = io.split(' | '), mo.split(' | ')
            return len(a) == len(b) == len(c['steps']) and all(self.same(m, x, y) for m, x, y in zip(c['steps'], a, b))
        if c['op'] == 'elim_full':
            try:
                ch, st, vals = mo.split(';')
                idxs = [p[1] for p in json.loads(ch)]
                ip = io.split(';')
                if ip[1] == 'ValueError':
                    return st == 'ValueError'
                if st != 'ok' or show_int_list(idxs) != ip[0]:
                    return False
                return ip[2] == 'circular' or ip[2] == vals
            except Exception:
                return False
        if c['op'] == 'check_balance' and c.get('dec'):
            # decimal amounts: exact Fractions in the model, floats in the real code
            pio = io.split(':')
            if self._roundoff_reject_(io) and abs(float(Fraction(pio[4]))) <= self._roundoff_window(c, int(pio[2]), int(pio[3])):
                return True      # open finding check_balance:float-roundoff-decimal-compositions; decided by the oracle
            a, b = io.split(':'), mo.split(':')
            if len(a) == len(b) == 5 and a[:4] == b[:4]:
                return close(float(Fraction(a[4])), Fraction(b[4]), 1e-9)
            return io == mo
        if c['op'] == 'attr_violation':
            try:
                return Fraction(io) == Fraction(mo)
            except Exception:
                return io == mo
        return io == mo

    @staticmethod
    def _roundoff_window(c, idx, key):
        """bound on the float round-off of `net += amount*coeff` for reaction idx and composition key: 4 n eps sum|terms|"""
        try:
            spec = c['rxns'][idx]
            terms = [abs(float(kg.frac(v))) * abs(kg.net_of(spec, k)) for k, cj in c['subs'] if cj for e, v in cj if e == key]
            return 4 * max(len(terms), 1) * 2.3e-16 * (sum(terms) or 1.0)
        except Exception:
            return 1e-12

    @staticmethod
    def _roundoff_reject_(line):
        """the real code rejected with a net amount of round-off size (genuine imbalances of the generated cases are >= 1/100)"""
        p = str(line).split(':')
        try:
            return len(p) == 5 and p[1] == 'violation' and 0 < abs(float(Fraction(p[4]))) < 1e-9
        except Exception:
            return False

    # ---- oracle -----------------------------------------------------------------------------
    def _balanced(self, c, spec):
        """None when some substance lacks a composition; else list of (key, net) with net != 0, computed here"""
        comps = OrderedDict((k, _comp_of(cj)) for k, cj in c['subs'])
        if any(v is None for v in comps.values()):
            return None
        keys = sorted({e for v in comps.values() for e in v})
        out = []
        for e in keys:
            net = sum(Fraction(comps[k].get(e, 0)) * kg.net_of(spec, k) for k in comps)
            if net != 0:
                out.append((e, net))
        return out

    def oracle(self, c):
        op = c.get('op')
        if op == 'check_balance':
            return self._oracle_accept(c)
        if op == 'elim':
            return self._oracle_elim(c)
        if op == 'balance_vectors':
            return self._oracle_vectors(c)
        if op == 'attr_violation':
            return self._oracle_attr(c)
        if op == 'history':
            return self._oracle_history(c)
        if op == 'construct':
            return self._oracle_construct(c)
        if op == 'from_string_balance':
            return self._oracle_from_string(c)
        if op == 'parse_refusal':
            from chempy import ReactionSystem
            try:
                ReactionSystem.from_string(c['line'], list(c['keys']), rxn_parse_kwargs={'checks': ()}, checks=(),
                                           substance_factory=lambda k: __import__('chempy').Substance(k))
                ok = True
            except ValueError:
                ok = False
            except Exception as e:
                return 'ReactionSystem.from_string(%r) raised %s instead of ValueError' % (c['line'], exc_name(e))
            if ok != (c['kind'] == 'fine'):
                return 'reaction line %r (%s) was %s' % (c['line'], c['kind'], 'accepted' if ok else 'refused')
            return None
        if op == 'composition_keys':
            from chempy import Substance
            subs = self._substances(c['subs'], c=c)
            want = sorted({e for _, cj in c['subs'] if cj is not None for e, _ in cj} - set(c['skip'] or []))
            got = Substance.composition_keys(subs.values(), **({} if c['skip'] is None else {'skip_keys': tuple(c['skip'])}))
            return None if list(got) == want else 'composition_keys(skip_keys=%s) = %s, expected %s' % (c['skip'], list(got), want)
        if op == 'multi_construct':
            for n, st in enumerate(c['steps']):
                f = self._oracle_construct(st)
                if f:
                    return 'construction %d of %d (options so far: %s): %s' % (n + 1, len(c['steps']), [x['opt'] for x in c['steps'][:n + 1]], f)
            return None
        return None

    def _oracle_from_string(self, c):
        """accepted iff every written reaction is balanced over the MULTISET of its written terms"""
        comps = OrderedDict((k, _comp_of(cj)) for k, cj in c['subs'])
        keys = sorted({e for v in comps.values() for e in v})
        viol = []
        for w in c['written']:
            for e in keys:
                net = sum(Fraction(comps[k].get(e, 0)) * kg.terms_net(w['terms'], k) for k in comps)
                if net != 0:
                    viol.append((w['line'], e, net))
        try:
            self._from_string_run(c)
            res, err = True, None
        except ValueError as e:
            res, err = False, str(e)
        except Exception as e:
            return 'ReactionSystem.from_string raised %s: %s' % (exc_name(e), str(e)[:120])
        if not comps and c['written']:
            return None
        if res != (not viol):
            return 'system written as %r is %s over its written terms but was %s (%s)' % (
                [w['line'] for w in c['written']], 'balanced' if not viol else 'unbalanced (%s: key %d, net %s)' % viol[0],
                'accepted' if res else 'rejected', err)
        if not res:
            mm = re.match(r'Composition violation \((-?\d+): (.*?)\) in ', err)
            if not mm or not any(e == int(mm.group(1)) and n == Fraction(mm.group(2)) for _, e, n in viol):
                return 'rejection (%s) names no violated key of the written reactions' % err
        return None

    def _oracle_construct(self, c):
        """accepted by the constructor iff all keys are substances, no reaction occurs twice, and (every substance has a composition
        => every reaction is balanced); all computed here from the case"""
        from chempy import ReactionSystem
        names = [k for k, _ in c['subs']]
        known = all(k in names for x in c['rxns'] for k in kg.spec_keys(x))
        canon = [json.dumps({p: sorted(map(tuple, x[p])) for p in ('reac', 'prod', 'inact_reac', 'inact_prod')}, sort_keys=True)
                 + json.dumps(x['param']) for x in c['rxns']]
        nodup = len(set(canon)) == len(canon)
        viol = [self._balanced(c, x) for x in c['rxns']]
        bal = True if any(cj is None for _, cj in c['subs']) else all(not v for v in viol)
        if not names and c['rxns']:
            return None
        eff = self._effective(c.get('opt'))
        try:
            ReactionSystem([kg.mk_reaction(x, 'int') for x in c['rxns']], self._substances(c['subs'], c=c), **self._ctor_kwargs(c.get('opt')))
            res, err = True, None
        except ValueError as e:
            res, err = False, str(e)
        from chempy import Reaction
        from chempy.equilibria import EqSystem
        if (set(ReactionSystem.default_checks) != set(self.DEFAULT_CHECKS) or set(EqSystem.default_checks) != set(self.DEFAULT_CHECKS)
                or set(Reaction.default_checks) != {'any_effect', 'all_positive', 'all_integral', 'consistent_units'}):
            return ('constructing a system with options %s changed the class-level default_checks to %s: later systems are checked differently'
                    % (c.get('opt'), sorted(ReactionSystem.default_checks)))
        want = ('substance_keys' not in eff or known) and ('duplicate' not in eff or nodup) and ('balance' not in eff or bal)
        if res != want:
            return 'constructor(%s) %s (%s) although keys known=%s, no duplicate=%s, balanced=%s, selected checks=%s' % (
                c.get('opt'), 'accepted' if res else 'rejected', err, known, nodup, bal, sorted(eff))
        return None

    def _oracle_history(self, c):
        """After every step: acceptance, composition vectors and conservation recomputed from the object's CURRENT public state
        (reactions, compositions, substance order)."""
        import random
        rng = random.Random(c['seed'])
        rsys, _ = self._rsys(c)
        for n, st in enumerate(c['steps']):
            if st['do'] != 'obs':
                rsys = self._apply_real(rsys, st)
                continue
            where = 'step %d (%s after %s)' % (n, st['op'], [x['do'] for x in c['steps'][:n] if x['do'] != 'obs'])
            order = list(rsys.substances)
            comps = [rsys.substances[k].composition for k in order]
            live = [{'reac': list(r.reac.items()), 'prod': list(r.prod.items()), 'inact_reac': list(r.inact_reac.items()),
                     'inact_prod': list(r.inact_prod.items()), 'param': kg.to_frac(r.param)} for r in rsys.rxns]
            has_all = all(v is not None for v in comps)
            keys = sorted({e for v in comps if v is not None for e in v})
            viol = None
            if has_all:
                viol = [[(e, net) for e in keys for net in [sum(Fraction(v.get(e, 0)) * kg.net_of(s, k) for k, v in zip(order, comps))]
                         if net != 0] for s in live]
            balanced = has_all and all(not v for v in viol)
            if st['op'] == 'check_balance':
                try:
                    res, err = rsys.check_balance(strict=st['strict'], throw=True), None
                except ValueError as e:
                    res, err = False, str(e)
                if not order and live:
                    continue
                want = (not st['strict']) if not has_all else balanced
                if res != want:
                    return '%s: current system is %s but check_balance %s (%s)' % (
                        where, 'balanced' if balanced else ('without a composition' if not has_all else 'unbalanced'),
                        'accepts' if res else 'rejects', err)
            elif st['op'] in ('balance_vectors', 'odesys') and has_all:
                want = [[Fraction(v.get(e, 0)) for v in comps] for e in keys]
                if st['op'] == 'odesys':
                    from chempy.kinetics.ode import get_odesys
                    try:
                        odesys, extra = get_odesys(rsys)
                    except Exception as e:
                        return '%s: get_odesys raised %s: %s' % (where, exc_name(e), str(e)[:120])
                    li = odesys.linear_invariants
                    B = [] if li is None else [[kg.to_frac(x) for x in row] for row in li.tolist()]
                    if list(odesys.names) != order:
                        return where + ': odesys.names differ from the current substance order'
                else:
                    Braw, ck = rsys.composition_balance_vectors()
                    B = [[Fraction(x) for x in row] for row in Braw]
                    if list(ck) != keys:
                        return '%s: composition keys %s, current compositions have %s' % (where, list(ck), keys)
                if B != want:
                    return '%s: composition vectors %s do not list the compositions in the current substance order %s (expected %s)' % (
                        where, [[str(x) for x in r] for r in B], order, [[str(x) for x in r] for r in want])
                if balanced and live:
                    conc = {k: Fraction(rng.randint(1, 30), rng.randint(1, 7)) for k in order}
                    rates = rsys.rates(conc)
                    for row, e in zip(B, keys):
                        d = sum(b * kg.to_frac(rates.get(k, 0)) for b, k in zip(row, order))
                        if d != 0:
                            return '%s: reported vector of key %s is no invariant of the rates: B.f(c) = %s' % (where, e, d)
            elif st['op'] == 'comp_violation' and has_all and order:
                net, ck = rsys.rxns[st['i']].composition_violation(rsys.substances, True)
                want = dict(viol[st['i']])
                if [Fraction(x) for x in net] != [want.get(e, 0) for e in keys] or list(ck) != keys:
                    return where + ': composition_violation differs from the current compositions'
        return None

    def _window_ok(self, c, rxns, mm):
        strs = [r.string(with_param=False, with_name=False) for r in rxns]
        idx = strs.index(mm.group(3)) if mm.group(3) in strs else -1
        return idx >= 0 and abs(float(mm.group(2))) <= self._roundoff_window(c, idx, int(mm.group(1)))

    def _oracle_accept(self, c):
        from chempy import ReactionSystem
        rxns = [kg.mk_reaction(s, 'int') for s in c['rxns']]
        subs = self._substances(c['subs'], c=c)
        viol = [self._balanced(c, s) for s in c['rxns']]
        has_all = all(cj is not None for _, cj in c['subs'])
        for k, cj in c['subs']:
            want = _comp_of(cj)
            got = subs[k].composition
            if (want is None) != (got is None) or (want is not None and {e: Fraction(v) for e, v in got.items()} !=
                                                   {e: Fraction(float(v)) if c.get('dec') and Fraction(v).denominator != 1 else Fraction(v)
                                                    for e, v in want.items()}):
                return 'Substance %r was given the composition %s%s but stores %s' % (
                    k, dict(want) if want is not None else None, ' (charge by keyword)' if k in (c.get('charge_kw') or {}) else '', got)
        try:
            if c['via'] == 'constructor':
                ReactionSystem(rxns, subs)
                res = True
            else:
                res = ReactionSystem(rxns, subs, checks=()).check_balance(strict=c['strict'], throw=True)
            err = None
        except ValueError as e:
            res, err = False, str(e)
        if not has_all:
            want = not c.get('strict', False)
            if res != want:
                return 'a substance lacks a composition: expected %s, got %s (%s)' % ('acceptance' if want else 'ValueError', res, err)
            return None
        if not subs and rxns:
            return None          # zip(*{}.items()) edge: see empty_substances_defect_witness (unreachable with default Reaction checks)
        balanced = all(not v for v in viol)
        if c.get('dec') and not res:
            mm = re.match(r'Composition violation \((-?\d+): (.*?)\) in (.*)$', err, re.S)
            if mm and 0 < abs(float(mm.group(2))) < 1e-9 and self._window_ok(c, rxns, mm):
                # which reaction?  recompute exactly and in floats (same accumulation order as the code)
                key = int(mm.group(1))
                strs = [r.string(with_param=False, with_name=False) for r in rxns]
                idx = strs.index(mm.group(3)) if mm.group(3) in strs else -1
                comps = OrderedDict((k, _comp_of(cj)) for k, cj in c['subs'])
                spec = c['rxns'][idx]
                exact = sum(Fraction(v.get(key, 0)) * kg.net_of(spec, k) for k, v in comps.items())
                fl = 0
                for k, v in comps.items():
                    fl += (float(v.get(key, 0)) if Fraction(v.get(key, 0)).denominator != 1 else int(v.get(key, 0))) * kg.net_of(spec, k)
                nonint = any(Fraction(v.get(key, 0)).denominator != 1 for k, v in comps.items() if kg.net_of(spec, k) != 0)
                if idx >= 0 and exact == 0 and fl != 0 and nonint:
                    return ('[float-roundoff] reaction %d (%s) is exactly balanced in key %d over the decimal amounts, but the float sum is %r '
                            'and check_balance rejects it' % (idx, mm.group(3), key, fl))
        if res != balanced:
            return 'system is %s but was %s (%s)' % ('balanced' if balanced else 'unbalanced', 'accepted' if res else 'rejected', err)
        if not res:
            mm = re.match(r'Composition violation \((-?\d+): (.*?)\) in ', err)
            if not mm:
                return 'rejection does not name a composition key: %s' % err
            key, net = int(mm.group(1)), Fraction(mm.group(2))
            if c.get('dec'):
                if not any(k == key and close(float(net), n, 1e-9) for v in viol if v for k, n in v):
                    return 'rejection names key %d with net %s, which is no violated key of any reaction' % (key, float(net))
            elif not any((key, net) in v for v in viol if v):
                return 'rejection names key %d with net %s, which is no violated key of any reaction' % (key, net)
        if res and has_all and rxns and not c.get('dec'):
            rsys = ReactionSystem(rxns, subs, checks=())
            B, ck = rsys.composition_balance_vectors()
            return self._conservation_batched(c, rsys, B, list(ck))
        return None

    def _oracle_vectors(self, c):
        rsys, _ = self._rsys(c)
        if any(cj is None for _, cj in c['subs']):
            return None
        B, ck = rsys.composition_balance_vectors()
        comps = [_comp_of(cj) for _, cj in c['subs']]
        keys = sorted({e for v in comps for e in v})
        if list(ck) != keys:
            return 'composition keys %s, expected %s' % (list(ck), keys)
        want = [[v.get(e, 0) for v in comps] for e in keys]
        if [[Fraction(x) for x in row] for row in B] != [[Fraction(x) for x in row] for row in want]:
            return 'composition_balance_vectors has a wrong entry'
        if c.get('planted') == 'balanced' and c['rxns']:
            return self._conservation_batched(c, rsys, B, keys)
        return None

    def _conservation_batched(self, c, rsys, B, keys):
        """B . rates(c) = 0 for scalar concentrations AND for a batch of states given as (mutable) numpy arrays: every batch element
        must equal the scalar evaluation, the inputs must not be modified, and the reported vectors must annihilate the result."""
        import random
        import numpy as np
        rng = random.Random(len(json.dumps(c, sort_keys=True)))
        order = list(rsys.substances)
        nb = 3
        pts = [{k: Fraction(rng.randint(1, 30), rng.randint(1, 7)) for k in order} for _ in range(nb)]
        batch = {k: np.array([p[k] for p in pts], dtype=object) for k in order}
        snap = {k: list(v) for k, v in batch.items()}
        try:
            rb = rsys.rates(batch)
        except Exception as e:
            return 'rates() with array-valued concentrations raised %s' % exc_name(e)
        if any(list(batch[k]) != snap[k] for k in order):
            return 'rates() modified the concentration arrays it was given'
        for j, p in enumerate(pts):
            rs_ = rsys.rates(p)
            for k in rs_:
                vb = rb[k][j] if hasattr(rb[k], '__len__') else rb[k]
                if kg.to_frac(vb) != kg.to_frac(rs_[k]):
                    return ('rates() on a batch of states (numpy arrays): d[%s]/dt of state %d is %s, evaluated alone it is %s'
                            % (k, j, vb, rs_[k]))
            for row, e in zip(B, keys):
                d = sum(Fraction(b) * kg.to_frac(rs_.get(k, 0)) for b, k in zip(row, order))
                if d != 0:
                    return 'composition row of key %s is no invariant: B.rates(c) = %s' % (e, d)
        return None

    def _oracle_attr(self, c):
        from chempy.util import periodic
        if any(cj is None for _, cj in c['subs']):
            return None
        rxn = kg.mk_reaction(c['rxn'], 'int')
        subs = self._substances(c['subs'], c.get('masses'), c=c)
        viol = dict(self._balanced(c, c['rxn']))
        if c['which'] == 'charge':
            got = rxn.charge_neutrality_violation(subs)
            if Fraction(got) != viol.get(0, 0):
                return 'charge_neutrality_violation = %r, net charge produced = %s' % (got, viol.get(0, 0))
        elif c['which'] == 'mass':
            if any(e != 0 and not (1 <= e <= 118) for _, cj in c['subs'] for e, _ in cj):
                return None
            try:
                got = rxn.mass_balance_violation(subs)
            except Exception as e:
                return 'mass_balance_violation raised %s' % exc_name(e)
            w = lambda e: -5.489e-4 if e == 0 else periodic.relative_atomic_masses[e - 1]
            want = sum(w(e) * float(n) for e, n in viol.items())
            scale = sum(abs(float(s.mass) * kg.net_of(c['rxn'], k)) for k, s in subs.items()) + 1.0
            if abs(got - want) > 1e-9 * scale:
                return 'mass_balance_violation = %r, composition-weighted net = %r' % (got, want)
        return None

    def _oracle_elim(self, c):
        import sympy
        out = self._elim(c)
        if 'error' in out:
            return 'get_odesys failed on an accepted system: ' + out['error']
        odesys, B = out['odesys'], out['B']
        ny = len(odesys.names)
        if list(odesys.names) != [k for k, _ in c['subs']]:
            return 'odesys.names differ from the substance order'
        li = odesys.linear_invariants
        if (li is None) != (len(B) == 0) or (li is not None and sympy.Matrix(li) != sympy.Matrix(B)):
            return 'odesys.linear_invariants differ from composition_balance_vectors'
        y0, y = self._manifold_point(c, out)
        # B . f(c) = 0 exactly, at a rational point, on the symbolic right-hand side
        sub = {odesys.dep[i]: sympy.Rational(y[i].numerator, y[i].denominator) for i in range(ny)}
        f = [kg.to_frac(sympy.sympify(e).subs(sub)) for e in odesys.exprs]
        for row, key in zip(B, out['ck']):
            s = sum(Fraction(b) * fi for b, fi in zip(row, f))
            if s != 0:
                return 'composition row of key %s is no invariant: B.f(c) = %s at c = %s' % (key, s, [str(v) for v in y])
        pref = c['preferred']
        names_ = [k for k, _ in c['subs']]
        bad_args = pref is not None and (len(pref) == 0 or len(pref) >= len(names_) or any(k not in names_ for k in pref))
        if bad_args and 'solver_error' not in out:
            return 'linear_dependencies(%s) was not refused (empty / too long / unknown key)' % pref
        try:
            import numpy as np
            fv = np.asarray(odesys.f_cb(0.0, [float(v) for v in y], []), dtype=float)
            for row, key in zip(B, out['ck']):
                terms = [float(b) * fv[i] for i, b in enumerate(row)]
                if abs(sum(terms)) > 1e-12 * (sum(abs(t) for t in terms) + 1e-300):
                    return 'B @ f_cb(y): composition row of key %s gives %r on the compiled right-hand side' % (key, sum(terms))
        except Exception as e:
            return 'odesys.f_cb raised %s: %s' % (exc_name(e), str(e)[:100])
        if 'solver_error' in out:
            if pref is None:
                return 'linear_dependencies(None) raised ValueError'
            return None
        exprs, y0s = out['exprs'], out['y0s']
        elim = set(exprs)
        bad = [k for k, v in exprs.items() if v.free_symbols & elim]
        if bad:
            return ('linear_dependencies(%s): the expression offered for %s still contains eliminated concentrations (%s)'
                    % (c['preferred'], odesys.names[list(odesys.dep).index(bad[0])], exprs[bad[0]]))
        sub.update({y0s[odesys.dep[i]]: sympy.Rational(y0[i].numerator, y0[i].denominator) for i in range(ny)})
        for k, e in exprs.items():
            i = list(odesys.dep).index(k)
            v = kg.to_frac(e.subs(sub))
            if v != y[i]:
                return ('linear_dependencies(%s): on the invariant manifold %s = %s but the offered expression gives %s'
                        % (c['preferred'], odesys.names[i], y[i], v))
        return None

    def known_key(self, c, failure):
        """open finding: a reaction that is exactly balanced over NON-INTEGER (decimal) composition amounts is rejected because
        the float accumulation `net += amount * coeff` is not exactly 0 and `net != 0` is an exact comparison.  The oracle verifies the
        whole predicate (exact sum 0, float sum != 0, a non-integer amount takes part, reported net of round-off size) before it
        emits the marker."""
        if c.get('op') == 'check_balance' and c.get('dec') and str(failure).startswith('[float-roundoff]'):
            return 'check_balance:float-roundoff-decimal-compositions'
        return None

    def classify(self, c):
        op = c.get('op')
        if op == 'from_string_balance':
            rep = any(len([1 for n, k in w['terms'][p] if k == kk]) > 1 for w in c['written'] for p in ('reac', 'prod', 'inact_reac', 'inact_prod')
                      for _, kk in w['terms'][p])
            p = c['planted']
            return 'from_string:%s:%s' % ('repeated' if rep else 'single', 'balanced' if p == 'balanced' else 'unbalanced')
        if op == 'multi_construct':
            return 'multi_construct:' + '+'.join(sorted({('default' if not x['opt'] else list(x['opt'])[0]) for x in c['steps']}))
        if op == 'history':
            return 'history:' + '+'.join(sorted({x['do'] for x in c['steps'] if x['do'] != 'obs'}))
        p = c.get('planted')
        pl = 'balanced' if p == 'balanced' else ('unbalanced:charge' if p and p[2] == 0 else 'unbalanced:element')
        nocomp = any(cj is None for _, cj in c.get('subs', []))
        if op == 'check_balance':
            return 'check_balance:%s:%s%s%s%s' % (c['via'], pl, ':strict' if c['strict'] else '', ':no-composition' if nocomp else '',
                                                  ':decimal' if c.get('dec') else '')
        if op == 'elim':
            return 'odesys:preferred=%s' % ('None' if c['preferred'] is None else len(c['preferred']))
        return '%s:%s%s' % (op, pl, ':no-composition' if nocomp else '')

    def nontrivial(self, c):
        return bool(c.get('rxns') or c.get('rxn') or c.get('steps') or c.get('written') or c.get('line') or c.get('op') == 'composition_keys')


PROPERTY = C05()
