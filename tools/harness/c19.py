"""C19 — physical-chemistry relations give unit-independent values in their valid ranges.

Correspondence (model = Gen/FnProps.lean + Model/PhysProps.lean through Driver/C19.lean, Float instantiation):
  mode 'plain'  units=None, plain numbers                         -> op <fn>
  mode 'u1'     real call with a units object + quantities        -> op <fn>_u1  (SI values and scale factors; value + warnings)
  mode 'u2'     the same real call                                -> op <fn>_u2  (quantity algebra: SI value, dimension vector, exception)
  mode 'rat'    exact rational evaluation of the rational correlations vs the float result (1e-12)
Oracle (real code only): the unit-mode result converted to the expected unit equals the plain-number result (1e-9); the conversion
does not raise (dimension of the named quantity); a warning is emitted iff the temperature (mass fraction) is outside the
documented range embedded HERE (REF_RANGES); inverse helpers invert; anchors of the repository's tests hold.
"""
import json, math, struct, warnings, types
from fractions import Fraction
from lib.framework import Property
from .util import *


# documented validity ranges (docstrings / warning texts / papers), kelvin
REF_RANGES = {
    'water_density': (273.15, 313.15),         # Tanaka 2001: 0-40 degC
    'water_viscosity': (273.15, 373.15),       # Korson 1969: 0-100 degC
    'water_diffusivity': (273.15, 373.15),     # Holz 2000: 0-100 degC
    'water_permittivity': (273.15, 623.15),    # Bradley & Pitzer 1979: 0-350 degC
    'sulfuric_acid_density': (273.15, 323.15), # Myhre 1998: 0-50 degC, 0.1 <= w <= 0.9
}
W_RANGE = (0.1, 0.9)
DIM_ORDER = ['length', 'mass', 'time', 'current', 'temperature', 'luminous_intensity', 'amount']

ION_KEYS = ["H+", "Li+", "Na+", "K+", "Rb+", "Cs+", "NH4+", "Mg+2", "Ca+2", "Ba+2", "Fe+2", "Co+2", "Ni+2", "Cu+2", "Mn+2", "Zn+2",
            "Cd+2", "Al+3", "Fe+3", "Cr+3", "OH-", "F-", "Cl-", "Br-", "I-", "NO3-", "ClO4-", "IO4-", "HCO3-", "HSO3-", "H2PO4-",
            "S2O3-2", "HPO4-2", "CO3-2", "SO3-2", "SO4-2", "PO4-3"]
ERRS = [-2.0, -1.0, -0.5, 0.0, 0.5, 1.0, 2.0]      # multiples of the reported uncertainties (err_mult)
GAS_KEYS = ["O2", "CO2", "N2O", "C2H2", "C2H4", "He", "Ne", "Ar", "Kr", "Xe", "Rn", "H2", "N2", "NO", "C2H6"]

# order of the unit symbols in the generated unit-mode functions
UATTRS = {      # pyfn2lean sorts the `units.<attr>` arguments by attribute name
    'water_density': ['Kelvin', 'kilogram', 'meter'],
    'water_viscosity': ['centipoise', 'kelvin'],
    'water_diffusivity': ['Kelvin', 'meter', 'second'],
    'water_permittivity': ['bar', 'kelvin'],
    'sulfuric_acid_density': ['Kelvin', 'kilogram', 'meter'],
    'henry_call': ['Kelvin'],
    'nernst': ['coulomb', 'joule', 'kelvin', 'mol'],
    'mobility': ['coulomb', 'joule', 'kelvin'],
}
PLAIN_OP = {'water_density': 'water_density', 'water_viscosity': 'water_viscosity', 'water_diffusivity': 'water_diffusivity',
            'water_permittivity': 'water_permittivity', 'sulfuric_acid_density': 'sulfuric_acid_density'}


class UnitsNS(object):
    """a units object with the documented attributes (hashable by identity, like a module or chempy's default_units)"""
    def __init__(self, **kw):
        self.__dict__.update(kw)


def f2b(x):
    return struct.unpack('<Q', struct.pack('<d', float(x)))[0]


def b2f(s):
    return struct.unpack('<d', struct.pack('<Q', int(s)))[0]


def g6(x):
    return float('%.9g' % x)


class C19(Property):
    pid = 'C19'
    title = ('each correlation / relation returns the same physical value for plain numbers in the documented units and for quantities in '
             'any compatible units, with the dimension of the named quantity; a range warning iff the temperature is outside the documented '
             'range; published anchors and qualitative shape; inverse helpers invert')
    props_module = 'ChemModel.Props.C19'
    build_modules = ('ChemModel.Gen.FnProps', 'ChemModel.Model.PhysProps', 'ChemModel.Basic.Proto')
    driver = 'ChemModel/Driver/C19.lean'
    n_quick, n_thorough = 1500, 24000
    float_tol = 1e-9
    rule = ('per function a grid over [lo - 25 K, hi + 25 K] of its validity range (every k-th of 97 equidistant points, the two bounds, '
            'points one ulp-scale step inside/outside) plus uniform random temperatures; pressures 1..6000 bar, mass fractions 0.05..0.95, '
            'concentrations log-uniform; every case in one of the modes plain / u1 / u2 / rat; unit systems: chempy default_units, '
            '"alt" (cm, g, ms, poise, kPa, mM, mmol, mC, kJ), "alt_mK" (alt with kelvin := mK); inputs in scaled units (K, mK, degR, kK; '
            'bar, Pa, kPa, atm, MPa; M, mM, uM; m2/s, cm2/s; kg/mol, g/mol); a temperature unit different from the units object\'s kelvin is '
            'the "foreign" stream (15 % of the unit-mode cases). Non-trivial = distinct JSON value.')
    assumptions = ('scale-factor semantics (L1) of the unit-mode translations: quantities are their SI values, unit symbols their scale factors; '
                   'the behaviour of the third-party package `quantities` (rescaling on +/-, "must be dimensionless" errors, float() = raw magnitude) '
                   'is modelled (L2, UV) and tied by correspondence only',
                   'Float instantiation vs Python floats/numpy: relative tolerance 1e-9 (numpy pairwise summation, libm pow/exp/log)',
                   'documented validity ranges and anchor values embedded in Props/C19.lean and tools/harness/c19.py (from docstrings, tests, papers)',
                   'the translator pyfn2lean.py, the source normalisation in tools/extract/props.py (x *= e, local import of to_unitless)',
                   )
    clauses_without_theorem = (
        '"quantities expressed in any compatible units" in the sense of the third-party package `quantities`: universal theorems exist at the '
        'scale-factor reading (L1) for every function and in the quantity algebra (L2) for nernst_potential (constants given as numbers or quantities, and a units object), water_viscosity, '
        'water_density, water_self_diffusion_coefficient (T >= 215.05 K), Henry_H_at_T (default and explicit T0), electrical_mobility_from_D (SI value and dimension '
        'vector) and the float(t_K) of sulfuric_acid_density; for water_permittivity and lg_solubility_ratio the L2 reading is decided by correspondence (ops *_u2) only',
        'that the L2 algebra describes `quantities` (rescaling on +/-, "must be dimensionless", float(q) = raw magnitude, math.log(q)): correspondence only',
        'anchor values of water_viscosity as DECIMAL values (theorems: rational exponent in (lo, hi) and viscosity in (1.002*10^lo, 1.002*10^hi); that these powers '
        'of ten lie within the table tolerance is trusted arithmetic), of water_self_diffusion_coefficient (Holz: 2.299e-9 at 25 degC and the other 7 table values), water_permittivity '
        '(78.38436874203077 at 25 degC 1 bar; 80.1 / 55.3), nernst_potential (60.605, -96.8196, 137.0436, -64.0567 mV), Henry (0.001421892; 1.05), '
        'density_from_concentration (1021; 1058.5): irrational (exp / log / non-integer power) or iterative values - oracle on the real code only',
        'water permittivity falls with temperature: proved at the reference pressure 1000 bar only; at the default pressure 1 bar and elsewhere oracle grid only',
        'pressure warnings of water_permittivity (the property names temperature only; the coded pressure rule is mirrored, `P > 5000 bar` is unreachable)',
        'density_from_concentration: proved for an arbitrary callback (returned value = atol-approximate fixed point; returns the first converged iterate iff it '
        'exists within maxiter); WHICH concentrations converge for sulfuric acid is not proved - with the defaults more than half of 0.1 <= w <= 0.9 raises '
        'NoConvergence (documented refusal); the oracle re-implements the documented iteration and claims agreement for every input',
        'optional arguments T=None / explicit T0 of sulfuric_acid_density and atol = inf / nan, maxiter < 0 of density_from_concentration: correspondence + oracle',
        'statelessness (a value does not depend on earlier calls: err_mult histories) and the option combinations constants x units x plain / same-prefix / '
        'mixed-prefix quantities of nernst_potential and electrical_mobility_from_D: oracle / correspondence only (the model is a pure function by construction)',
        'argument SHAPE x unit (0-d, 1-d, 2-d numpy grids, T x P meshes, in own and scaled / foreign units) for all relations: oracle only (`mode: grid`, '
        'element-wise the scalar oracle); the Lean model and the theorems are about scalars; python LISTS of quantities are refused by the plain-number mode '
        'itself (TypeError) and are not judged',
        'the container / string / explicit-new_unit branches of chempy.units.to_unitless (14 statements never executed by C19: they are C09\'s; the nine relations '
        'only pass floats, Quantity scalars / arrays and plain float arrays with new_unit=None)',
        'Henry / HenryWithUnits with units=None and quantity arguments, and density_from_concentration with units: oracle on default_units only, no model op',
    )
    anchors = (('chempy/properties/sulfuric_acid_density_myhre_1998.py', 'sulfuric_acid_density'),
               ('chempy/properties/sulfuric_acid_density_myhre_1998.py', 'density_from_concentration'),
               ('chempy/properties/gas_sol_electrolytes_schumpe_1993.py', 'lg_solubility_ratio'),
               ('chempy/henry.py', 'Henry'), ('chempy/henry.py', 'HenryWithUnits'),
               ('chempy/electrochemistry/nernst.py', 'nernst_potential'),
               ('chempy/einstein_smoluchowski.py', 'electrical_mobility_from_D'),
               ('chempy/units.py', 'to_unitless'))

    def __init__(self):
        self._u = None
        self._hist = {}

    # ---- units ------------------------------------------------------------------------------------------
    def U(self):
        """unit tables (built lazily: imports quantities / chempy)"""
        if self._u is None:
            import quantities as pq
            from chempy.units import default_units as du, default_constants as dc
            mK = pq.UnitQuantity('mK_c19', pq.K / 1000, symbol='mK_c19')
            kK = pq.UnitQuantity('kK_c19', pq.K * 1000, symbol='kK_c19')
            kJ = pq.UnitQuantity('kJ_c19', pq.J * 1000, symbol='kJ_c19')
            units = {
                'K': pq.K, 'mK': mK, 'kK': kK, 'degR': pq.degR,
                'bar': du.bar, 'Pa': pq.Pa, 'kPa': pq.kPa, 'atm': pq.atm, 'MPa': pq.MPa,
                'M': du.molar, 'mM': du.mol / du.m ** 3, 'uM': du.micromolar,
                'm2/s': pq.m ** 2 / pq.s, 'cm2/s': pq.cm ** 2 / pq.s,
                'kg/mol': pq.kg / pq.mol, 'g/mol': pq.g / pq.mol,
                'M/atm': du.molar / pq.atm, 'mol/m3/Pa': pq.mol / pq.m ** 3 / pq.Pa,
                'mol/m3': pq.mol / pq.m ** 3, '1': pq.dimensionless,
            }
            alt = dict(Kelvin=pq.K, kelvin=pq.K, meter=pq.cm, metre=pq.cm, kilogram=pq.g, second=pq.ms, centipoise=pq.poise,
                       bar=pq.kPa, molar=du.mol / du.m ** 3, mol=pq.mmol, coulomb=pq.mC, joule=kJ)
            alt_mK = dict(alt, Kelvin=mK, kelvin=mK)
            usys = {'default': du, 'alt': UnitsNS(**alt), 'alt_mK': UnitsNS(**alt_mK)}
            self._u = dict(pq=pq, du=du, dc=dc, units=units, usys=usys)
        return self._u

    def unit_info(self, q):
        """(scale factor relative to SI, dimension vector) of a quantity taken as a unit"""
        pq = self.U()['pq']
        s = (1.0 * q).simplified
        names = {pq.m: 0, pq.kg: 1, pq.s: 2, pq.A: 3, pq.K: 4, pq.cd: 5, pq.mol: 6}
        dims = [0] * 7
        for unit, e in s.dimensionality.items():
            if unit not in names or int(e) != e:
                raise ValueError('dimension outside the model: %s' % s.dimensionality)
            dims[names[unit]] = int(e)
        return float(s.magnitude), dims

    # ---- generation -----------------------------------------------------------------------------------------
    def _temps(self, rng, fn, k):
        lo, hi = REF_RANGES.get(fn, (273.15, 373.15))
        out = [lo, hi, lo - 1e-6, lo + 1e-6, hi - 1e-6, hi + 1e-6, 298.15]
        grid = [lo - 25 + i * (hi - lo + 50) / 96 for i in range(97)]
        out += [g6(x) for x in grid[rng.randrange(k)::k]]
        return out

    def generate(self, rng, n, tier):
        cases = []
        k = 6 if tier == 'quick' else 1
        modes = ['plain', 'u1', 'u2']
        usys = ['default', 'alt', 'alt_mK']

        def tunit(us, fn=None, mode=None, T=None):
            own = 'mK' if us == 'alt_mK' else 'K'
            if T is not None and fn in REF_RANGES and any(abs(T - b) < 1e-9 for b in REF_RANGES[fn]):
                return own           # exactly on a bound: the unit conversion of the input itself rounds across it
            if rng.random() < 0.15:      # a temperature unit different from the units object's kelvin (repaired: fix commits 4b50fb2, adff9e0)
                return rng.choice([x for x in ('K', 'mK', 'degR', 'kK') if x != own])
            return own

        def add(c):
            cases.append(c)

        add({'fn': 'anchors', 'mode': 'anchor'})
        for us_ in usys:        # call histories: the value of a call must not depend on earlier calls (err_mult perturbs LOCAL copies only)
            steps = []
            for _ in range(rng.randint(3, 6)):
                steps.append({'T': g6(rng.uniform(273.15, 373.15)), 'err': rng.choice([None, [rng.choice(ERRS), rng.choice(ERRS)]])})
            steps.insert(1, {'T': 298.15, 'err': [1.0, 1.0]})
            steps.append({'T': 298.15, 'err': None})
            add({'fn': 'water_diffusivity', 'mode': 'history', 'usys': us_, 'steps': steps})

        # --- the four water correlations and sulfuric acid on grids, all modes ---
        for fn in ('water_density', 'water_viscosity', 'water_diffusivity', 'water_permittivity', 'sulfuric_acid_density'):
            for T in self._temps(rng, fn, k):
                for mode in modes:
                    c = {'fn': fn, 'mode': mode, 'T': T}
                    if fn == 'water_permittivity':
                        c['P'] = g6(rng.choice([1.0, 1.01325, 1000.0, rng.uniform(1, 1999), rng.uniform(2001, 6000)]))
                    if fn == 'sulfuric_acid_density':
                        c['w'] = g6(rng.choice([0.1, 0.9, rng.uniform(0.05, 0.95), rng.uniform(0.1, 0.9)]))
                    if fn == 'water_diffusivity' and rng.random() < 0.3:
                        c['err'] = [rng.choice(ERRS), rng.choice(ERRS)]
                    if mode != 'plain':
                        c['usys'] = rng.choice(usys)
                        c['T_unit'] = tunit(c['usys'], fn, mode, T)
                        if 'P' in c:
                            c['P_unit'] = rng.choice(['bar', 'Pa', 'kPa', 'atm', 'MPa'])
                    add(c)
                if fn in ('water_density', 'sulfuric_acid_density') and rng.random() < 0.5:
                    c = {'fn': fn, 'mode': 'rat', 'T': T}
                    if fn == 'sulfuric_acid_density':
                        c['w'] = g6(rng.uniform(0.05, 0.95))
                    add(c)
        # --- probes just outside / just inside every documented bound: distances 10^-k (k = 1..13) and 1-3 ulps, plain and unit modes
        pk = 0
        for fn in ('water_density', 'water_viscosity', 'water_diffusivity', 'water_permittivity', 'sulfuric_acid_density'):
            lo, hi = REF_RANGES[fn]
            if fn == 'water_permittivity':
                hi = 273.15 + 350
            for b in (lo, hi):
                pts = [b] + [b + sg * 10.0 ** -k for k in range(1, 14) for sg in (-1, 1)]
                x1, x2 = b, b
                for _ in range(3):
                    x1, x2 = math.nextafter(x1, -math.inf), math.nextafter(x2, math.inf)
                    pts += [x1, x2]
                for T in pts:
                    mode = modes[pk % 3]
                    pk += 1
                    c = {'fn': fn, 'mode': mode, 'T': T, 'probe': True}
                    if fn == 'water_permittivity':
                        c['P'] = 1.0
                    if fn == 'sulfuric_acid_density':
                        c['w'] = 0.5
                    if mode != 'plain':
                        c['usys'] = usys[pk % 3]
                        c['T_unit'] = 'mK' if c['usys'] == 'alt_mK' else 'K'
                        if c['usys'] == 'alt_mK':
                            c['mode'] = 'u2'      # the L1 float op scales by 1e-3 (rounds at ulp distance); the L2 op keeps magnitudes exact
                        if 'P' in c:
                            c['P_unit'] = 'bar'
                    add(c)
        for b in W_RANGE:
            for wv in [b] + [b + sg * 10.0 ** -k for k in range(1, 14) for sg in (-1, 1)] + [math.nextafter(b, 0.0), math.nextafter(b, 1.0)]:
                mode = modes[pk % 3]
                pk += 1
                c = {'fn': 'sulfuric_acid_density', 'mode': mode, 'T': 298.15, 'w': wv, 'probe': True}
                if mode != 'plain':
                    c['usys'] = usys[pk % 3]
                    c['T_unit'] = 'mK' if c['usys'] == 'alt_mK' else 'K'
                    if c['usys'] == 'alt_mK':
                        c['mode'] = 'u2'
                add(c)
        m = max(0, n - len(cases))

        def lu(lo, hi):
            return g6(math.exp(rng.uniform(math.log(lo), math.log(hi))))

        for i in range(m):
            r = i % 7
            mode = rng.choice(modes)
            us = rng.choice(usys)
            if r == 0:       # random temperatures for the correlations
                fn = rng.choice(['water_density', 'water_viscosity', 'water_diffusivity', 'water_permittivity', 'sulfuric_acid_density'])
                lo, hi = REF_RANGES[fn]
                c = {'fn': fn, 'mode': mode, 'T': g6(rng.uniform(lo - 25, hi + 25))}
                if fn == 'water_permittivity':
                    c['P'] = lu(1, 6000)
                if fn == 'sulfuric_acid_density':
                    c['w'] = g6(rng.uniform(0.05, 0.95))
                    q = rng.random()
                    if q < 0.15:
                        c['defT'] = True
                        c['T'] = 298.15
                    elif q < 0.35:
                        c['T0'] = g6(rng.choice([273.15, 273.16, 273.0, rng.uniform(268, 278)]))
                if fn == 'water_diffusivity' and rng.random() < 0.4:
                    c['err'] = [rng.choice(ERRS), rng.choice(ERRS)]
                if mode != 'plain':
                    c['usys'], c['T_unit'] = us, tunit(us, fn, mode, c['T'])
                    if 'P' in c:
                        c['P_unit'] = rng.choice(['bar', 'Pa', 'kPa', 'atm', 'MPa'])
                add(c)
            elif r == 1:     # Henry
                fn = rng.choice(['henry_call', 'henry_get_c', 'henry_get_p'])
                c = {'fn': fn, 'mode': mode if mode != 'u2' or fn == 'henry_call' else 'u1', 'T': g6(rng.uniform(273.15, 373.15)),
                     'Hcp': lu(1e-6, 1e-1), 'Tderiv': g6(rng.uniform(-500, 4000)), 'Tref': rng.choice([None, None, 298.15, 293.15, 273.15, g6(rng.uniform(273.15, 310))]),
                     'ref': rng.choice([None, None, 'sander_2015', 'carpenter_1966']),
                     'x': lu(1e-4, 10)}
                if fn == 'henry_call' and rng.random() < 0.2:
                    c['alias'] = True
                if c['mode'] != 'plain':
                    c['usys'], c['T_unit'] = us, tunit(us, fn, c['mode'])
                    c['H_unit'] = rng.choice(['M/atm', 'mol/m3/Pa'])
                    c['x_unit'] = rng.choice(['bar', 'Pa', 'atm', 'kPa']) if fn == 'henry_get_c' else rng.choice(['M', 'mM', 'uM'])
                    c['cls'] = rng.choice(['Henry', 'HenryWithUnits'])
                    c['implicit_units'] = rng.random() < 0.5
                    if rng.random() < 0.15:
                        c['plain_args'] = True
                        c['T_unit'] = 'mK' if us == 'alt_mK' else 'K'
                        if c['Tref'] is None:
                            c['Tref'] = 293.15
                    c['T0_unit'] = rng.choice([None, None, 'K', 'mK', 'degR'])
                    c['Td_unit'] = rng.choice([None, None, 'K', 'mK', 'kK'])
                add(c)
            elif r == 2:     # Nernst
                z = rng.choice([-3, -2, -1, 1, 2, 3])
                c = {'fn': 'nernst', 'mode': mode, 'co': lu(1e-5, 1), 'ci': lu(1e-5, 1), 'z': z, 'T': g6(rng.uniform(250, 400)),
                     'constants': rng.random() < 0.4}
                if mode != 'plain':
                    c['usys'], c['T_unit'] = us, tunit(us)
                    c['co_unit'] = rng.choice(['M', 'mM', 'uM'])
                    c['ci_unit'] = c['co_unit'] if rng.random() < 0.35 else rng.choice(['M', 'mM', 'uM'])    # same / mixed prefixes
                    # option combinations: (constants given / None) x (units given / None) x (plain / quantity inputs)
                    if c['constants']:
                        c['opts'] = rng.choice(['both', 'no_units'])
                    else:
                        c['opts'] = rng.choice(['both', 'both', 'conc_only'])     # conc_only: constants=None, units=None, T a plain number
                add(c)
            elif r == 3:     # mobility
                z = rng.choice([-3, -2, -1, 1, 2, 3])
                c = {'fn': 'mobility', 'mode': rng.choice(modes + ['rat']), 'D': lu(1e-11, 1e-7), 'z': z, 'T': g6(rng.uniform(200, 500)),
                     'constants': rng.random() < 0.4}
                if c['mode'] in ('u1', 'u2'):
                    c['usys'], c['T_unit'] = us, tunit(us)
                    c['D_unit'] = rng.choice(['m2/s', 'cm2/s'])
                    c['opts'] = rng.choice(['both', 'no_units']) if c['constants'] else 'both'
                add(c)
            elif r == 4:     # Schumpe
                ne = rng.choice([0, 1, 2, 2, 3, 4])
                keys = rng.sample(ION_KEYS, ne)
                if rng.random() < 0.12:
                    keys.append(rng.choice(['X-', 'Na', 'na+', 'SO4-3']))
                gas = rng.choice(GAS_KEYS) if rng.random() < 0.92 else rng.choice(['CH4', 'o2', 'CO'])
                c = {'fn': 'lg_solubility_ratio', 'mode': 'plain' if mode == 'u2' else mode, 'keys': keys, 'conc': [lu(1e-3, 3) for _ in keys], 'gas': gas}
                if c['mode'] == 'u1':
                    c['usys'] = us
                    c['c_unit'] = rng.choice(['M', 'mM', 'uM'])
                    # container argument: every entry of the mapping may carry its OWN (compatible) unit
                    if rng.random() < 0.6:
                        c['c_units'] = [rng.choice(['M', 'mM', 'uM', 'mol/m3']) for _ in keys]
                add(c)
            elif r == 5:     # density_from_concentration
                c = {'fn': 'density_from_concentration', 'mode': 'plain', 'conc': lu(10, 18000), 'T': g6(rng.uniform(273.15, 323.15))}
                if rng.random() < 0.4:
                    c['molar_mass'] = lu(0.05, 0.2)
                    c['atol'] = rng.choice([lu(1e-8, 5), lu(1e-8, 5), lu(1e-8, 5), 'inf', 'nan'])
                    c['maxiter'] = rng.choice([-1, 0, 1, 2, 3, 5, 10, 20, 40])
                add(c)
                if rng.random() < 0.3:
                    add({'fn': 'density_from_concentration', 'mode': 'oracle_units', 'conc': c['conc'], 'T': c['T'],
                         'c_unit': rng.choice(['M', 'mM']), 'mm_unit': rng.choice(['kg/mol', 'g/mol'])})
            else:            # malformed / refusals: wrong dimensions must raise, never give a number
                fn = rng.choice(['water_density', 'water_viscosity', 'water_diffusivity', 'nernst'])
                if fn == 'nernst':
                    add({'fn': 'nernst', 'mode': 'u2', 'co': lu(1e-5, 1), 'ci': lu(1e-5, 1), 'z': 1, 'T': 310.0, 'constants': False,
                         'usys': 'default', 'T_unit': 'K', 'co_unit': 'M', 'ci_unit': rng.choice(['bar', 'kg/mol'])})
                else:
                    add({'fn': fn, 'mode': 'u2', 'T': g6(rng.uniform(280, 300)), 'usys': us, 'T_unit': rng.choice(['bar', 'M', 'm2/s'])})
        # --- argument SHAPE x unit (oracle-only cases `mode: grid`): 0-d, 1-d, 2-d numpy grids and lists of quantities, in the units object's own
        #     units and in scaled / foreign units; the oracle is the scalar one, element-wise
        GF = ['water_density', 'water_viscosity', 'water_diffusivity', 'water_permittivity', 'sulfuric_acid_density', 'lg_solubility_ratio',
              'henry_call', 'henry_get_c', 'henry_get_p', 'nernst', 'mobility']
        for gi in range(max(44, n // 10)):
            fn = GF[gi % len(GF)]
            us = rng.choice(usys)
            shape = rng.choice(['0d', '1d', '1d', '2d', '2d', 'list'])
            if fn == 'sulfuric_acid_density':
                shape = '0d'                 # float(t_K): the function takes scalars (and 0-d arrays) only, also without units
            rows, cols = rng.randint(2, 5), rng.randint(2, 4)
            npts = {'0d': 1, '1d': rows, '2d': rows * cols, 'list': rows}[shape]
            lo, hi = REF_RANGES.get(fn, (273.15, 373.15))
            own = 'mK' if us == 'alt_mK' else 'K'
            c = {'fn': fn, 'mode': 'grid', 'shape': shape, 'rows': rows, 'cols': cols, 'usys': us,
                 'T_unit': rng.choice([own, own, 'K', 'mK', 'degR', 'kK']),
                 'Ts': [g6(rng.uniform(lo + 1, hi - 1)) for _ in range(npts)]}
            if fn == 'water_permittivity':
                c['Ps'] = [g6(rng.uniform(1, 1900)) for _ in range(cols if shape == '2d' else npts)]
                c['P_unit'] = rng.choice(['bar', 'Pa', 'kPa', 'atm', 'MPa'])
            if fn == 'sulfuric_acid_density':
                c['w'] = g6(rng.uniform(0.1, 0.9))
            if fn == 'lg_solubility_ratio':
                c['keys'] = rng.sample(ION_KEYS, rng.randint(1, 3))
                c['gas'] = rng.choice(GAS_KEYS)
                c['concs'] = [[lu(1e-3, 3) for _ in range(npts)] for _ in c['keys']]
                c['c_units'] = [rng.choice(['M', 'mM', 'uM', 'mol/m3']) for _ in c['keys']]
            if fn.startswith('henry'):
                c.update(Hcp=lu(1e-6, 1e-1), Tderiv=g6(rng.uniform(-500, 4000)), Tref=rng.choice([None, 293.15, g6(rng.uniform(273.15, 310))]),
                         H_unit=rng.choice(['M/atm', 'mol/m3/Pa']), cls=rng.choice(['Henry', 'HenryWithUnits']), implicit_units=rng.random() < 0.5,
                         xs=[lu(1e-4, 10) for _ in range(npts)],
                         x_unit=rng.choice(['bar', 'Pa', 'atm', 'kPa']) if fn == 'henry_get_c' else rng.choice(['M', 'mM', 'uM']))
                if rng.random() < 0.3:
                    c['plain_args'] = True
                    c['T_unit'] = own
                    c['Tref'] = c['Tref'] or 293.15
            if fn == 'nernst':
                c.update(cos=[lu(1e-5, 1) for _ in range(npts)], ci=lu(1e-5, 1), z=rng.choice([-2, -1, 1, 2]), constants=rng.random() < 0.4,
                         co_unit=rng.choice(['M', 'mM', 'uM']), ci_unit=rng.choice(['M', 'mM', 'uM']), T_scalar=rng.random() < 0.5)
            if fn == 'mobility':
                c.update(Ds=[lu(1e-11, 1e-7) for _ in range(npts)], z=rng.choice([-2, -1, 1, 2]), constants=rng.random() < 0.4,
                         D_unit=rng.choice(['m2/s', 'cm2/s']))
            add(c)
        return cases

    # ---- preparing a real call -----------------------------------------------------------------------------
    def _electrolytes(self, c, uo):
        """the mapping of quantities: entry k has magnitude c['conc'][i] IN THE UNIT `uo.molar`, expressed in its own unit c['c_units'][i]
        (all entries in c['c_unit'] when no per-entry units are given); insertion order = order of c['keys']"""
        U = self.U()
        names = c.get('c_units') or [c['c_unit']] * len(c['keys'])
        mf = self.unit_info(uo.molar)[0]
        return {k: self._q(v * mf / self.unit_info(U['units'][un])[0], un) for k, v, un in zip(c['keys'], c['conc'], names)}

    def _q(self, x, unit_name):
        return x * self.U()['units'][unit_name]

    def _own(self, c):
        return 'mK' if c['usys'] == 'alt_mK' else 'K'

    def _Tq(self, c, uo):
        """the temperature whose magnitude IN THE UNIT `uo.Kelvin` is c['T'], expressed in the unit c['T_unit']"""
        if c['T_unit'] == self._own(c):
            return c['T'] * uo.Kelvin
        f, d = self.unit_info(self.U()['units'][c['T_unit']])
        if d != [0, 0, 0, 0, 1, 0, 0]:
            return self._q(c['T'], c['T_unit'])           # malformed stream
        return self._q(c['T'] * self.unit_info(uo.Kelvin)[0] / f, c['T_unit'])

    def _tempq(self, x, unit_name, c, uo):
        """the temperature(-difference) whose magnitude in `uo.Kelvin` is x, expressed in the temperature unit `unit_name`"""
        if unit_name is None or unit_name == self._own(c):
            return x * uo.Kelvin
        return self._q(x * self.unit_info(uo.Kelvin)[0] / self.unit_info(self.U()['units'][unit_name])[0], unit_name)

    def _henry(self, c, uo):
        """(object, keyword arguments of its calls, H, Tderiv, T0 as passed to the constructor)"""
        from chempy.henry import Henry, HenryWithUnits
        U = self.U()
        kwc = {} if c.get('ref') is None else {'ref': c['ref']}
        if uo is None:
            H, Td, T0 = c['Hcp'], c['Tderiv'], c['Tref']
            return Henry(H, Td, T0, **kwc), {}, H, Td, T0
        if c.get('plain_args'):
            # a units object is passed although every argument is a plain number in the documented unit (explicit T0): `to_unitless` then sees
            # plain floats / plain ndarrays; the result is the plain-number result
            H, Td, T0 = c['Hcp'], c['Tderiv'], c['Tref']
            if c.get('cls') == 'HenryWithUnits':
                kw = {} if (c['usys'] == 'default' and c.get('implicit_units')) else {'units': uo}
                return HenryWithUnits(H, Td, T0, **kwc), kw, H, Td, T0
            return Henry(H, Td, T0, **kwc), {'units': uo}, H, Td, T0
        hf = self.unit_info(U['units'][c['H_unit']])[0] / self.unit_info(U['units']['M/atm'])[0]
        H = self._q(c['Hcp'] / hf, c['H_unit'])                      # Hcp is the constant in M/atm
        Td = self._tempq(c['Tderiv'], c.get('Td_unit'), c, uo)       # magnitudes in the unit `uo.Kelvin`
        T0 = None if c['Tref'] is None else self._tempq(c['Tref'], c.get('T0_unit'), c, uo)
        if c.get('cls') == 'HenryWithUnits':
            # its __call__ defaults to chempy's default_units: the units object is left implicit when it is that one
            kw = {} if (c['usys'] == 'default' and c.get('implicit_units')) else {'units': uo}
            return HenryWithUnits(H, Td, T0, **kwc), kw, H, Td, T0
        return Henry(H, Td, T0, **kwc), {'units': uo}, H, Td, T0

    def _uv(self, q):
        """JSON of a python value for the L2 ops: number -> bits, quantity -> [mag bits, factor bits, dims]"""
        if hasattr(q, 'dimensionality'):
            f, d = self.unit_info(q.units)
            return [f2b(float(q.magnitude)), f2b(f), d]
        return f2b(q)

    def _args(self, c):
        """(callable for the real code, list of python argument values (numbers or quantities), units object or None)"""
        U = self.U()
        fn, mode = c['fn'], c['mode']
        unitful = mode in ('u1', 'u2')
        uo = U['usys'][c['usys']] if unitful else None
        T = self._Tq(c, uo) if unitful else c.get('T')
        if fn in ('water_density', 'water_viscosity', 'water_diffusivity'):
            from chempy.properties.water_density_tanaka_2001 import water_density
            from chempy.properties.water_viscosity_korson_1969 import water_viscosity
            from chempy.properties.water_diffusivity_holz_2000 import water_self_diffusion_coefficient
            f = {'water_density': water_density, 'water_viscosity': water_viscosity, 'water_diffusivity': water_self_diffusion_coefficient}[fn]
            if fn == 'water_diffusivity' and c.get('err') is not None:
                e = c['err']
                return (lambda: f(T, units=uo, err_mult=(e[0], e[1]))), [T, e[0], e[1]], uo
            return (lambda: f(T, units=uo)), [T], uo
        if fn == 'water_permittivity':
            from chempy.properties.water_permittivity_bradley_pitzer_1979 import water_permittivity
            if unitful:
                # c['P'] is the magnitude of the pressure in the unit `uo.bar`
                P = self._q(c['P'] * self.unit_info(uo.bar)[0] / self.unit_info(U['units'][c['P_unit']])[0], c['P_unit'])
            else:
                P = c['P']
            return (lambda: water_permittivity(T, P, units=uo)), [T, P], uo
        if fn == 'sulfuric_acid_density':
            from chempy.properties.sulfuric_acid_density_myhre_1998 import sulfuric_acid_density
            if c.get('defT'):           # T omitted: 298.15 K
                return (lambda: sulfuric_acid_density(c['w'], units=uo)), [c['w']], uo
            if c.get('T0') is not None:  # explicit zero of the Celsius scale
                T0 = c['T0'] * uo.Kelvin if unitful else c['T0']
                return (lambda: sulfuric_acid_density(c['w'], T, T0, units=uo)), [c['w'], T, T0], uo
            return (lambda: sulfuric_acid_density(c['w'], T, units=uo)), [c['w'], T], uo
        if fn.startswith('henry'):
            h, kw, H, Td, T0 = self._henry(c, uo)
            if c.get('plain_args'):
                T = c['T']
            if fn == 'henry_call':
                if c.get('alias'):        # the deprecated alias `get_kH_at_T` forwards to __call__
                    return (lambda: h.get_kH_at_T(T, **kw)), [T, H, Td, T0], uo
                return (lambda: h(T, **kw)), [T, H, Td, T0], uo
            if unitful and not c.get('plain_args'):
                if fn == 'henry_get_c':     # x: pressure in atm
                    xf = self.unit_info(U['units'][c['x_unit']])[0] / 101325.0
                else:                       # x: concentration in M
                    xf = self.unit_info(U['units'][c['x_unit']])[0] / 1000.0
                x = self._q(c['x'] / xf, c['x_unit'])
            else:
                x = c['x']
            meth = h.get_c_at_T_and_P if fn == 'henry_get_c' else h.get_P_at_T_and_c
            return (lambda: meth(T, x, **kw)), [T, H, Td, T0, x], uo
        if fn == 'nernst':
            from chempy.electrochemistry.nernst import nernst_potential
            if unitful:
                co = self._q(c['co'] / (self.unit_info(U['units'][c['co_unit']])[0] / 1000.0), c['co_unit'])
                ci = self._q(c['ci'] / (self.unit_info(U['units'][c['ci_unit']])[0] / self._ci_ref(c)), c['ci_unit'])
                consts = U['dc'] if c['constants'] else None
                opts = c.get('opts', 'both')
                if opts == 'no_units':        # constants object given, `units` left at its default None
                    return (lambda: nernst_potential(co, ci, c['z'], T, consts)), [co, ci, c['z'], T], uo
                if opts == 'conc_only':       # only the concentrations are quantities
                    return (lambda: nernst_potential(co, ci, c['z'], c['T'])), [co, ci, c['z'], c['T']], uo
                return (lambda: nernst_potential(co, ci, c['z'], T, consts, uo)), [co, ci, c['z'], T], uo
            consts = types.SimpleNamespace(Faraday_constant=96485.3399, molar_gas_constant=8.314472) if c['constants'] else None
            return (lambda: nernst_potential(c['co'], c['ci'], c['z'], c['T'], consts)), [c['co'], c['ci'], c['z'], c['T']], None
        if fn == 'mobility':
            from chempy.einstein_smoluchowski import electrical_mobility_from_D
            if unitful:
                D = self._q(c['D'] / self.unit_info(U['units'][c['D_unit']])[0], c['D_unit'])
                consts = U['dc'] if c['constants'] else None
                if c.get('opts') == 'no_units':
                    return (lambda: electrical_mobility_from_D(D, c['z'], T, consts)), [D, c['z'], T], uo
                return (lambda: electrical_mobility_from_D(D, c['z'], T, consts, uo)), [D, c['z'], T], uo
            consts = types.SimpleNamespace(Boltzmann_constant=1.3806504e-23, elementary_charge=1.602176487e-19) if c['constants'] else None
            return (lambda: electrical_mobility_from_D(c['D'], c['z'], c['T'], consts)), [c['D'], c['z'], c['T']], None
        raise KeyError(fn)

    def _ci_ref(self, c):
        """SI factor of the unit in which c['ci'] is meant (molar unless the unit is not a concentration: malformed stream)"""
        return 1000.0

    def _run(self, thunk):
        """-> ('ok', value, [UserWarning messages]) | ('exc', class name)"""
        import numpy as np
        try:
            with warnings.catch_warnings(record=True) as w:
                warnings.simplefilter('always')
                with np.errstate(all='ignore'):
                    r = thunk()
            msgs = [str(x.message) for x in w if issubclass(x.category, UserWarning)
                    and not issubclass(x.category, (DeprecationWarning, RuntimeWarning))]
            return ('ok', r, msgs)
        except Exception as e:
            return ('exc', exc_name(e))

    # ---- model cases ---------------------------------------------------------------------------------------------
    def model_case(self, c):
        fn, mode = c['fn'], c['mode']
        if mode in ('oracle_units', 'anchor', 'history', 'grid'):
            return None
        if (c.get('defT') or c.get('T0') is not None) and mode != 'plain':
            return None          # optional-argument variants of sulfuric_acid_density with units: oracle only (unit mode = plain mode)
        mc = dict(c)
        if mode == 'rat':
            if fn == 'water_density':
                mc.update(op='water_density_rat', a=[rat_json(Fraction(repr(c['T'])))])
            elif fn == 'sulfuric_acid_density':
                mc.update(op='sulfuric_acid_density_rat', a=[rat_json(Fraction(repr(c['w']))), rat_json(Fraction(repr(c['T'])))])
            else:
                mc.update(op='mobility_rat', a=[rat_json(Fraction(repr(c['D']))), c['z'], rat_json(Fraction(repr(c['T'])))])
            return mc
        if fn == 'lg_solubility_ratio':
            if mode == 'plain':
                M, conc = 1.0, c['conc']
            else:
                U = self.U()
                M = self.unit_info(U['usys'][c['usys']].molar)[0]
                conc = [x * M for x in c['conc']]             # SI values of concentrations whose magnitude in `uo.molar` is x
            mc.update(op='lg_solubility_ratio', a=[f2b(M)], e=[[k, f2b(v)] for k, v in zip(c['keys'], conc)], gas=c['gas'])
            return mc
        if fn == 'density_from_concentration':
            if 'maxiter' in c:
                mc.update(op='density_from_concentration_with', a=[f2b(c['conc']), f2b(c['T']), f2b(c['molar_mass']), f2b(self._atol(c))],
                          maxiter=c['maxiter'])
            else:
                mc.update(op='density_from_concentration', a=[f2b(c['conc']), f2b(c['T'])])
            return mc
        if mode == 'plain':
            if fn in PLAIN_OP:
                a = [c['w'], c['T']] if fn == 'sulfuric_acid_density' else [c['T']] + ([c['P']] if 'P' in c else [])
                if c.get('defT'):
                    mc.update(op='sulfuric_acid_density_defT', a=[f2b(c['w'])])
                elif c.get('T0') is not None:
                    mc.update(op='sulfuric_acid_density_T0', a=[f2b(c['w']), f2b(c['T']), f2b(c['T0'])])
                elif c.get('err') is not None:
                    mc.update(op='water_diffusivity_err', a=[f2b(x) for x in a + list(c['err'])])
                else:
                    mc.update(op=fn, a=[f2b(x) for x in a])
            elif fn.startswith('henry'):
                a = [c['T'], c['Hcp'], c['Tderiv']] + ([c['x']] if fn != 'henry_call' else [])
                mc.update(op=fn, a=[f2b(x) for x in a], T0=None if c['Tref'] is None else f2b(c['Tref']))
            elif fn == 'nernst':
                a = [c['co'], c['ci'], c['z'], c['T']]
                if c['constants']:
                    mc.update(op='nernst_c', a=[f2b(x) for x in a + [96485.3399, 8.314472]])
                else:
                    mc.update(op='nernst', a=[f2b(x) for x in a])
            elif fn == 'mobility':
                a = [c['D'], c['z'], c['T']]
                if c['constants']:
                    mc.update(op='mobility_c', a=[f2b(x) for x in a + [1.3806504e-23, 1.602176487e-19]])
                else:
                    mc.update(op='mobility', a=[f2b(x) for x in a])
            return mc
        # unit modes: take the actual python arguments apart
        _, args, uo = self._args(c)
        U = self.U()

        def si(q):
            if hasattr(q, 'dimensionality'):
                return float(q.magnitude) * self.unit_info(q.units)[0]
            return float(q)
        if mode == 'u1':
            if fn in ('henry_get_c', 'henry_get_p'):
                mc['mode_op'] = fn
                T, H, Td, T0, x = args
                mc.update(op='henry_call_u1', a=[f2b(si(T)), f2b(si(H)), f2b(si(Td)), f2b(self.unit_info(uo.Kelvin)[0])],
                          T0=None if T0 is None else f2b(si(T0)), x_si=si(x))
                return mc
            if fn == 'henry_call':
                T, H, Td, T0 = args
                mc.update(op='henry_call_u1', a=[f2b(si(T)), f2b(si(H)), f2b(si(Td)), f2b(self.unit_info(uo.Kelvin)[0])],
                          T0=None if T0 is None else f2b(si(T0)))
                return mc
            if fn == 'nernst' and c.get('opts') == 'conc_only':
                mc.update(op='nernst_q1', a=[f2b(si(x)) for x in args])
                return mc
            if fn == 'nernst' and c['constants']:
                dc = U['dc']
                mc.update(op='nernst_cu1', a=[f2b(si(x)) for x in args] + [f2b(si(dc.Faraday_constant)), f2b(si(dc.molar_gas_constant))])
                return mc
            if fn == 'mobility' and c['constants']:
                dc = U['dc']
                mc.update(op='mobility_c', a=[f2b(si(x)) for x in args] + [f2b(si(dc.Boltzmann_constant)), f2b(si(dc.elementary_charge))])
                return mc
            ufs = [self.unit_info(getattr(uo, a))[0] for a in UATTRS[fn]]
            op = 'water_diffusivity_err_u1' if c.get('err') is not None else fn + '_u1'
            mc.update(op=op, a=[f2b(si(x)) for x in args] + [f2b(x) for x in ufs])
            return mc
        # u2
        if fn == 'henry_call':
            T, H, Td, T0 = args
            if T0 is None:
                mc.update(op='henry_default_u2', a=[self._uv(T), self._uv(H), self._uv(Td), self._uv(1 * uo.Kelvin)])
            else:
                mc.update(op='henry_t0_u2', a=[self._uv(T), self._uv(H), self._uv(Td), self._uv(T0), self._uv(1 * uo.Kelvin)])
            return mc
        if fn == 'nernst' and c.get('opts') == 'conc_only':
            mc.update(op='nernst_q2', a=[self._uv(x) for x in args])
            return mc
        if fn == 'nernst' and c['constants']:
            dc = U['dc']
            mc.update(op='nernst_cu2', a=[self._uv(x) for x in args] + [self._uv(1 * dc.Faraday_constant), self._uv(1 * dc.molar_gas_constant)])
            return mc
        if fn == 'mobility' and c['constants']:
            dc = U['dc']
            mc.update(op='mobility_c2', a=[self._uv(x) for x in args] + [self._uv(1 * dc.Boltzmann_constant), self._uv(1 * dc.elementary_charge)])
            return mc
        op = 'water_diffusivity_err_u2' if c.get('err') is not None else fn + '_u2'
        mc.update(op=op, a=[self._uv(x) for x in args] + [self._uv(1 * getattr(uo, a)) for a in UATTRS[fn]])
        return mc

    # ---- real code in the canonical form of the driver -------------------------------------------------------------
    def _si_dims(self, r):
        if hasattr(r, 'dimensionality'):
            f, d = self.unit_info(r.units)
            return float(r.magnitude) * f, d
        return float(r), [0] * 7

    def impl(self, mc):
        c = mc
        fn, mode = c['fn'], c['mode']
        if fn == 'lg_solubility_ratio':
            from chempy.properties.gas_sol_electrolytes_schumpe_1993 import lg_solubility_ratio
            if mode == 'plain':
                el, uo = dict(zip(c['keys'], c['conc'])), None
            else:
                U = self.U()
                uo = U['usys'][c['usys']]
                el = self._electrolytes(c, uo)
            r = self._run(lambda: lg_solubility_ratio(el, c['gas'], units=uo))
            if r[0] == 'exc':
                return ('exc', r[1], 'F-' in el)
            return ('ok', self._si_dims(r[1])[0], bool(r[2]))
        if fn == 'density_from_concentration':
            from chempy.properties.sulfuric_acid_density_myhre_1998 import density_from_concentration
            kw = {}
            if 'maxiter' in c:
                kw = dict(molar_mass=c['molar_mass'], atol=self._atol(c), maxiter=c['maxiter'])
            r = self._run(lambda: density_from_concentration(c['conc'], c['T'], **kw))
            return ('exc', r[1]) if r[0] == 'exc' else ('ok', float(r[1]))
        if mode == 'rat':
            c2 = dict(c, mode='plain', constants=False)
            thunk, _, _ = self._args(c2)
            r = self._run(thunk)
            return ('exc', r[1]) if r[0] == 'exc' else ('ok', float(r[1]), r[2])
        thunk, args, uo = self._args(c)
        r = self._run(thunk)
        if r[0] == 'exc':
            return ('exc', r[1])
        v, d = self._si_dims(r[1])
        return ('ok', v, d, r[2])

    def same(self, mc, io, mo):
        fn, mode = mc['fn'], mc['mode']
        tol = self.float_tol
        if not isinstance(io, tuple) or not isinstance(mo, str) or mo.startswith('!'):
            return False
        if fn == 'lg_solubility_ratio':
            val, warn = mo.split('|')
            if (warn == 'true') != io[2]:
                return False
            if io[0] == 'exc':
                return val == io[1]
            return val.startswith('ok ') and close(io[1], b2f(val[3:]), tol, 1e-300)
        if fn == 'density_from_concentration':
            if io[0] == 'exc':
                return mo == io[1]
            return mo.startswith('ok ') and close(io[1], b2f(mo[3:]), tol)
        if mode == 'rat':
            if io[0] == 'exc':
                return mo == io[1]
            val, _, msgs = mo.partition('|')
            ok = close(io[1], float(Fraction(val)), 1e-11)
            if msgs:
                ok = ok and msgs == show_str_list(io[2])
            return ok
        if mode in ('plain', 'u1'):
            if io[0] == 'exc':
                return False             # the L1 ops have no error branch: an exception of the real code is a disagreement
            val, _, msgs = mo.partition('|')
            m = b2f(val)
            if mc.get('mode_op') == 'henry_get_c':
                m = mc['x_si'] * m
            elif mc.get('mode_op') == 'henry_get_p':
                m = mc['x_si'] / m
            if not close(io[1], m, tol):
                return False
            if msgs and msgs != show_str_list(io[3]):
                return False
            return True
        # u2
        parts = mo.split(' ')
        if io[0] == 'exc':
            return parts[0] == 'err' and parts[1] == io[1]
        if parts[0] == 'num':
            return io[2] == [0] * 7 and close(io[1], b2f(parts[1]), tol)
        if parts[0] == 'qty':
            dims = [int(x) for x in parts[3].strip('[]').split(',')]
            return dims == io[2] and close(io[1], b2f(parts[1]) * b2f(parts[2]), tol)
        return False

    # ---- the property on the real code ---------------------------------------------------------------------------------
    def _expected_unit(self, c, uo):
        """unit of the named quantity, built from the units object"""
        fn = c['fn']
        pq = self.U()['pq']
        if fn in ('water_density', 'sulfuric_acid_density'):
            return uo.kilogram / uo.meter ** 3, pq.kg / pq.m ** 3
        if fn == 'water_viscosity':
            return uo.centipoise, pq.Pa * pq.s
        if fn == 'water_diffusivity':
            return uo.meter ** 2 / uo.second, pq.m ** 2 / pq.s
        if fn == 'water_permittivity':
            return pq.dimensionless, pq.dimensionless
        if fn == 'nernst':
            return (pq.V, pq.V) if c['constants'] else (uo.joule / uo.coulomb, pq.V)
        if fn == 'mobility':
            si_u = pq.m ** 2 / pq.V / pq.s
            return (si_u, si_u) if c['constants'] else (pq.m ** 2 / pq.s * uo.coulomb / uo.joule, si_u)
        if fn == 'henry_call':
            return self.U()['units']['M/atm'], pq.mol / pq.m ** 3 / pq.Pa
        if fn == 'henry_get_c':
            return self.U()['units']['M'], pq.mol / pq.m ** 3
        if fn == 'henry_get_p':
            return pq.atm, pq.Pa
        raise KeyError(fn)

    def _plain_value(self, c):
        """plain-number result for the documented-unit magnitudes of the case (with matching constants)"""
        c2 = dict(c, mode='plain')
        if c['fn'] in ('nernst', 'mobility') and c.get('constants') and c['mode'] != 'plain':
            # physical constants (default_constants): the result is physical, the plain call needs the temperature in kelvin
            uo = self.U()['usys'][c['usys']]
            c2['T'] = c['T'] * self.unit_info(uo.Kelvin)[0]
        thunk, _, _ = self._args(c2)
        return self._run(thunk)

    def _range_expect(self, c):
        """(expected warning?, decidable?): the documented range test evaluated with EXACTLY the documented float comparison (no tolerance):
        density / viscosity / sulfuric acid on the Celsius temperature t = T - 273.15 (t < 0 or t > 40 / 100 / 50 degC), diffusivity and permittivity on
        T itself (T < 273.15 or T > 373.15 / 273.15 + 350), sulfuric acid also w < 0.1 or w > 0.9.  Not decidable here only when the temperature is
        given in a unit different from the units object's kelvin within 1e-9 of a bound (the conversion of the input itself rounds)."""
        fn = c['fn']
        if fn not in REF_RANGES:
            return None, False
        T = c['T']
        if fn == 'water_density':
            t = T - 273.15
            out = t < 0 or t > 40
        elif fn == 'water_viscosity':
            t = T - 273.15
            out = t < 0 or t > 100
        elif fn == 'water_diffusivity':
            out = T < 273.15 or T > 373.15
        elif fn == 'water_permittivity':
            out = T < 273.15 or T > 273.15 + 350
        else:
            t = T - (c['T0'] if c.get('T0') is not None else 273.15)
            out = t < 0 or t > 50 or c['w'] < 0.1 or c['w'] > 0.9
        dec = not (self.is_foreign(c) and self._near_boundary(c))
        if fn == 'water_permittivity' and not out:
            if c['P'] > 2000:              # pressure warnings are outside the clause of the property (temperature)
                return None, False
        return out, dec

    def _near_boundary(self, c):
        lo, hi = REF_RANGES[c['fn']]
        if c.get('T0') is not None:
            lo, hi = lo - 273.15 + c['T0'], hi - 273.15 + c['T0']
        pts = [lo, hi] + ([343.15] if c['fn'] == 'water_permittivity' else [])
        if any(abs(c['T'] - b) < 1e-9 * b for b in pts):
            return True
        if 'P' in c and abs(c['P'] - 2000) < 1e-6:
            return True
        return 'w' in c and any(abs(c['w'] - b) < 1e-12 for b in W_RANGE)

    def is_foreign(self, c):
        if c.get('mode') not in ('u1', 'u2') or 'T_unit' not in c:
            return False
        own = self._own(c)
        return c['T_unit'] in ('K', 'mK', 'degR', 'kK') and c['T_unit'] != own

    def is_malformed(self, c):
        return c.get('T_unit') in ('bar', 'M', 'm2/s') or c.get('ci_unit') in ('bar', 'kg/mol')

    def oracle(self, c):
        fn, mode = c['fn'], c['mode']
        U = self.U()
        if mode == 'anchor':
            return self._oracle_anchors()
        if mode == 'grid':
            return self._oracle_grid(c)
        if mode == 'history':
            # the first verdict is kept: on a tree with hidden state a second evaluation in the same process starts from the polluted state
            k = json.dumps(c, sort_keys=True)
            if k not in self._hist:
                self._hist[k] = self._oracle_history(c)
            return self._hist[k]
        if fn == 'lg_solubility_ratio':
            return self._oracle_lg(c)
        if fn == 'density_from_concentration':
            return self._oracle_dfc(c)
        if mode == 'rat':       # the exact-rational cases are plain-number calls: same claims as mode plain
            c = dict(c, mode='plain', constants=False)
            mode = 'plain'
        if self.is_malformed(c):
            thunk, _, _ = self._args(c)
            r = self._run(thunk)
            if r[0] != 'exc':
                return '%s accepted an argument of the wrong dimension (%r) and returned %r' % (fn, c, r[1])
            return None
        if mode == 'plain':
            thunk, _, _ = self._args(c)
            r = self._run(thunk)
            if r[0] == 'exc':
                return '%s%r raised %s' % (fn, tuple(self._args(c)[1]), r[1])
            exp, dec = self._range_expect(c)
            if dec and bool(r[2]) != exp:
                return '%s(T=%r%s): warning %s but the temperature is %s the documented range %r' % (
                    fn, c['T'], (', w=%r' % c['w']) if 'w' in c else '', 'emitted' if r[2] else 'not emitted',
                    'outside' if exp else 'inside', REF_RANGES[fn])
            return self._oracle_extra(c, float(r[1]))
        # unit modes: same physical value, right dimension, same warnings as plain mode
        thunk, args, uo = self._args(c)
        r = self._run(thunk)
        p = self._plain_value(c)
        if p[0] == 'exc':
            return None if r[0] == 'exc' else '%s: plain mode raises %s, unit mode returns %r' % (fn, p[1], r[1])
        if r[0] == 'exc':
            return '%s with units (%s, T in %s) raised %s; plain mode gives %r' % (fn, c['usys'], c.get('T_unit'), r[1], float(p[1]))
        from chempy.units import to_unitless
        eu, _ = self._expected_unit(c, uo)
        try:
            if c.get('plain_args'):               # plain numbers in, plain number out (although a units object was passed)
                if hasattr(r[1], 'dimensionality'):
                    return '%s(plain arguments, units=%s): result %r is not a plain number' % (fn, c['usys'], r[1])
                got = float(r[1])
            elif c.get('opts') == 'conc_only':      # constants=None, units=None: the result is a plain number (volt)
                if hasattr(r[1], 'dimensionality'):
                    return '%s(quantity concentrations, plain T): result %r is not a plain number' % (fn, r[1])
                got = float(r[1])
            else:
                got = float(to_unitless(r[1], eu))
        except Exception as e:
            return '%s with units: result %r does not have the dimension of %s (%s)' % (fn, r[1], eu, exc_name(e))
        want = float(p[1])
        if not close(got, want, self.float_tol):
            return '%s with units (%s, args %s): %r %s, plain mode %r' % (fn, c['usys'], [str(a) for a in args], got, eu.dimensionality, want)
        if fn.startswith('henry'):
            # at the instance's reference temperature the tabulated constant itself is returned (T0 default 298.15 K or as constructed)
            h, kw, H, Td, T0 = self._henry(c, uo)
            Tq = T0 if T0 is not None else 298.15 * uo.Kelvin
            r0 = self._run(lambda: h(Tq, **kw))
            if r0[0] == 'exc':
                return '%s object at its reference temperature %s raised %s' % (c.get('cls', 'Henry'), Tq, r0[1])
            try:
                g0 = float(r0[1]) if c.get('plain_args') else float(to_unitless(r0[1], self.U()['units']['M/atm']))
            except Exception as e:
                return 'Henry constant %r does not have the dimension of Hcp' % (r0[1],)
            if not close(g0, c['Hcp'], self.float_tol):
                return '%s(Hcp=%s, Tderiv=%s, T0=%s) at its reference temperature gives %r M/atm, tabulated Hcp %r' % (
                    c.get('cls', 'Henry'), H, Td, T0, g0, c['Hcp'])
        if fn in REF_RANGES:
            exp, dec = self._range_expect(c)
            if dec and exp is not None and bool(r[2]) != exp:
                return '%s(T=%r%s) with units (%s): warning %s but the documented comparison says %s the range' % (
                    fn, c['T'], (', w=%r' % c['w']) if 'w' in c else '', c['usys'], 'emitted' if r[2] else 'not emitted', 'outside' if exp else 'inside')
        if fn in REF_RANGES and not (self.is_foreign(c) and self._near_boundary(c)) and sorted(r[2]) != sorted(p[2]):
            return '%s: warnings with units %r, plain %r' % (fn, r[2], p[2])
        return None

    @staticmethod
    def _published(fn, c):
        """the published formula with the published coefficients (Tanaka 2001 eq. 1; Korson 1969 eq. 5; Holz 2000 eq. 1; Bradley & Pitzer 1979
        Table I), written out here independently of the source; None where the formula leaves the reals"""
        T = c['T']
        t = T - 273.15
        try:
            if fn == 'water_density':
                return 999.974950 * (1 - (t - 3.983035) ** 2 * (t + 301.797) / (522528.9 * (t + 69.34881)))
            if fn == 'water_viscosity':
                return 1.0020 * 10 ** ((1.1709 * (20 - t) - 0.001827 * (t - 20) ** 2) / (t + 89.93))
            if fn == 'water_diffusivity':
                e0, e1 = c.get('err') or (0.0, 0.0)
                base = T / (215.05 + e1 * 1.2) - 1
                return None if base <= 0 else (1.635e-8 + e0 * 2.242e-11) * base ** 2.063
            if fn == 'water_permittivity':
                U = (3.4279e2, -5.0866e-3, 9.4690e-7, -2.0525, 3.1159e3, -1.8289e2, -8.0325e3, 4.2142e6, 2.1417)
                B = U[6] + U[7] / T + U[8] * T
                arg = (B + c['P']) / (B + 1000.0)
                return None if arg <= 0 else U[0] * math.exp(U[1] * T + U[2] * T * T) + (U[3] + U[4] / (U[5] + T)) * math.log(arg)
        except (ZeroDivisionError, OverflowError, ValueError):
            return None
        return None

    def _oracle_extra(self, c, v):
        fn = c['fn']
        ref = self._published(fn, c)
        if ref is not None and not close(v, ref, 1e-11, 1e-300):
            return '%s(%s) = %r, published formula %r' % (fn, ', '.join('%s=%r' % (k, c[k]) for k in ('T', 'P', 'err') if c.get(k) is not None), v, ref)
        if fn == 'henry_call':
            from chempy.henry import Henry
            h = Henry(c['Hcp'], c['Tderiv'], c['Tref'])
            P = c['x']
            back = h.get_P_at_T_and_c(c['T'], h.get_c_at_T_and_P(c['T'], P))
            if not close(back, P, 1e-12):
                return 'Henry: P -> c -> P gives %r for %r' % (back, P)
            T0 = 298.15 if c['Tref'] is None else c['Tref']
            if not close(math.log(v / c['Hcp']), c['Tderiv'] * (1 / c['T'] - 1 / T0), 1e-9, 1e-12):
                return 'Henry: ln(H(T)/Hcp) = %r is not Tderiv (1/T - 1/T0) = %r' % (math.log(v / c['Hcp']), c['Tderiv'] * (1 / c['T'] - 1 / T0))
        if fn == 'nernst':
            F, R = (96485.3399, 8.314472) if c['constants'] else (96485.33289, 8.3144598)
            want = R * c['T'] / (c['z'] * F) * math.log(c['co'] / c['ci'])
            if not close(v, want, 1e-12, 1e-15):
                return 'nernst_potential = %r, Nernst equation gives %r' % (v, want)
        if fn == 'mobility':
            kB, e = (1.3806504e-23, 1.602176487e-19) if c['constants'] else (1.38064852e-23, 1.60217662e-19)
            want = c['D'] * c['z'] * e / (kB * c['T'])
            if not close(v, want, 1e-12):
                return 'electrical_mobility_from_D = %r, D z e / (kB T) = %r' % (v, want)
        return None

    def _oracle_lg(self, c):
        from chempy.properties.gas_sol_electrolytes_schumpe_1993 import lg_solubility_ratio, p_ion_rM, p_gas_rM
        el = dict(zip(c['keys'], c['conc']))
        r = self._run(lambda: lg_solubility_ratio(el, c['gas']))
        valid = all(k in ION_KEYS for k in c['keys']) and (c['gas'] in GAS_KEYS or not c['keys'])
        if r[0] == 'exc':
            return None if (not valid and r[1] == 'KeyError') else 'lg_solubility_ratio(%r, %r) raised %s' % (el, c['gas'], r[1])
        if not valid:
            return 'lg_solubility_ratio(%r, %r) returned %r for an unknown key' % (el, c['gas'], r[1])
        if bool(r[2]) != ('F-' in el):
            return 'lg_solubility_ratio: fluoride warning %s for %r' % ('emitted' if r[2] else 'missing', list(el))
        if c['mode'] == 'u1':
            U = self.U()
            uo = U['usys'][c['usys']]
            elu = self._electrolytes(c, uo)
            ru = self._run(lambda: lg_solubility_ratio(elu, c['gas'], units=uo))
            if ru[0] == 'exc':
                return 'lg_solubility_ratio with units raised %s' % ru[1]
            from chempy.units import to_unitless
            try:
                got = float(to_unitless(ru[1])) if hasattr(ru[1], 'dimensionality') else float(ru[1])
            except Exception as e:
                return 'lg_solubility_ratio with units: result %r is not dimensionless' % (ru[1],)
            if not close(got, float(r[1]), self.float_tol, 1e-300):
                return 'lg_solubility_ratio(%s, %r, units=%s) = %r, plain mode %r' % ({k: str(v) for k, v in elu.items()}, c['gas'], c['usys'], got, float(r[1]))
        return None

    @staticmethod
    def _atol(c):
        a = c.get('atol', 1e-3)
        return float(a) if isinstance(a, str) else a

    def _ref_dfc(self, conc, T, M, atol, maxiter):
        """the documented algorithm written out independently: fixed-point iteration rho <- rho_cb(conc*M/rho) from 1100 kg/m3 until
        |delta| <= atol; NoConvergence when more than `maxiter` passes would be needed -> ('ok', rho) | ('NoConvergence',)"""
        from chempy.properties.sulfuric_acid_density_myhre_1998 import sulfuric_acid_density
        rho, delta, n = 1100.0, float('inf'), 0
        while atol < abs(delta):
            n += 1
            new = float(sulfuric_acid_density(conc * M / rho, T, warn=False))
            delta, rho = new - rho, new
            if n > maxiter:
                return ('NoConvergence',)
        return ('ok', rho)

    def _oracle_dfc(self, c):
        from chempy.properties.sulfuric_acid_density_myhre_1998 import density_from_concentration, sulfuric_acid_density
        M = c.get('molar_mass', (1.00794 * 2 + 32.066 + 4 * 15.9994) * 1e-3)
        atol = self._atol(c)
        kw = dict(molar_mass=c['molar_mass'], atol=atol, maxiter=c['maxiter']) if 'maxiter' in c else {}
        r = self._run(lambda: density_from_concentration(c['conc'], c['T'], **kw))
        if c['mode'] == 'oracle_units':
            U = self.U()
            cu = self._q(c['conc'] / self.unit_info(U['units'][c['c_unit']])[0], c['c_unit'])
            mm = self._q(M / self.unit_info(U['units'][c['mm_unit']])[0], c['mm_unit'])
            ru = self._run(lambda: density_from_concentration(cu, c['T'] * U['du'].K, mm, units=U['du']))
            if (r[0] == 'exc') != (ru[0] == 'exc'):
                return 'density_from_concentration: plain %r, with units %r' % (r[1], ru[1])
            if r[0] == 'ok':
                from chempy.units import to_unitless
                try:
                    got = float(to_unitless(ru[1], U['du'].kg / U['du'].m ** 3))
                except Exception as e:
                    return 'density_from_concentration with units: result %r is not a density' % (ru[1],)
                if not close(got, float(r[1]), 1e-9):
                    return 'density_from_concentration with units %r kg/m3, plain %r' % (got, float(r[1]))
            return None
        # claim for EVERY input: the function returns exactly when (and what) the documented iteration returns within maxiter passes
        ref = self._ref_dfc(c['conc'], c['T'], M, atol, c.get('maxiter', 10))
        if r[0] == 'exc':
            if r[1] != 'NoConvergence':
                return 'density_from_concentration raised %s' % r[1]
            return None if ref[0] == 'NoConvergence' else ('density_from_concentration(%r, %r, %r) raised NoConvergence, the documented iteration converges to %r '
                                                           'within maxiter passes' % (c['conc'], c['T'], kw, ref[1]))
        if ref[0] != 'ok':
            return 'density_from_concentration(%r, %r, %r) = %r but the documented iteration needs more than maxiter passes' % (c['conc'], c['T'], kw, float(r[1]))
        if not close(float(r[1]), ref[1], 1e-9):
            return 'density_from_concentration(%r, %r, %r) = %r, documented iteration %r' % (c['conc'], c['T'], kw, float(r[1]), ref[1])
        if math.isinf(atol) or math.isnan(atol):
            return None
        rho = float(r[1])
        # inverse of "concentration from density": rho is (within atol-scale) the density at mass fraction conc*M/rho
        w = c['conc'] * M / rho
        back = float(sulfuric_acid_density(w, c['T'], warn=False))
        # |rho - rho_cb(w(rho'))| <= atol for the previous iterate rho'; the map is a contraction here, allow a factor
        if abs(back - rho) > 2 * atol + 1e-9 * rho:
            return 'density_from_concentration(%r, %r) = %r but the density at the implied mass fraction %r is %r (atol %r)' % (
                c['conc'], c['T'], rho, w, back, atol)
        return None

    def _shaped(self, vals, c, kind='full'):
        """numpy array of the case's shape from a flat list (kind 'row': varies along axis 0 of a 2-d mesh, 'col': along axis 1)"""
        import numpy as np
        sh = c['shape']
        if sh == '0d':
            return np.array(float(vals[0]))
        if sh in ('1d', 'list'):
            return np.array(vals, dtype=float)
        if kind == 'row':
            return np.array(vals[:c['rows']], dtype=float).reshape(c['rows'], 1)
        if kind == 'col':
            return np.array(vals[:c['cols']], dtype=float).reshape(1, c['cols'])
        return np.array(vals, dtype=float).reshape(c['rows'], c['cols'])

    def _wrap(self, arr, unit, c):
        """array * unit, or (shape 'list') a python list of scalar quantities"""
        if c['shape'] == 'list':
            return [float(x) * unit for x in arr]
        return arr * unit

    def _oracle_grid(self, c):
        """argument shape x unit: the unit-mode result of an array / list argument, converted to the expected unit, equals the plain-number
        result of the array of documented-unit magnitudes, element by element (same shape); same warnings"""
        import numpy as np
        from chempy.units import to_unitless
        U = self.U()
        fn = c['fn']
        uo = U['usys'][c['usys']]
        kf = self.unit_info(uo.Kelvin)[0]
        tunit = uo.Kelvin if c['T_unit'] == self._own(c) else U['units'][c['T_unit']]
        tf = self.unit_info(tunit)[0]
        mesh = (c['shape'] == '2d' and fn == 'water_permittivity')
        Tp = self._shaped(c['Ts'], c, 'row' if mesh else 'full')           # magnitudes in the unit `uo.Kelvin`
        Tq = self._wrap(Tp * (kf / tf), tunit, c)
        if c['shape'] == 'list':
            Tp = [float(x) for x in Tp]
        eu = None
        if fn in ('water_density', 'water_viscosity', 'water_diffusivity'):
            from chempy.properties.water_density_tanaka_2001 import water_density
            from chempy.properties.water_viscosity_korson_1969 import water_viscosity
            from chempy.properties.water_diffusivity_holz_2000 import water_self_diffusion_coefficient
            f = {'water_density': water_density, 'water_viscosity': water_viscosity, 'water_diffusivity': water_self_diffusion_coefficient}[fn]
            plain, unit = (lambda: f(Tp)), (lambda: f(Tq, units=uo))
            eu = self._expected_unit(c, uo)[0]
        elif fn == 'water_permittivity':
            from chempy.properties.water_permittivity_bradley_pitzer_1979 import water_permittivity
            Pp = self._shaped(c['Ps'], c, 'col' if mesh else 'full')
            punit = U['units'][c['P_unit']]
            Pq = self._wrap(Pp * (self.unit_info(uo.bar)[0] / self.unit_info(punit)[0]), punit, c)
            if c['shape'] == 'list':
                Pp = [float(x) for x in Pp]
            plain, unit = (lambda: water_permittivity(Tp, Pp)), (lambda: water_permittivity(Tq, Pq, units=uo))
            eu = U['pq'].dimensionless
        elif fn == 'sulfuric_acid_density':
            from chempy.properties.sulfuric_acid_density_myhre_1998 import sulfuric_acid_density
            plain, unit = (lambda: sulfuric_acid_density(c['w'], Tp)), (lambda: sulfuric_acid_density(c['w'], Tq, units=uo))
            eu = self._expected_unit(c, uo)[0]
        elif fn == 'lg_solubility_ratio':
            from chempy.properties.gas_sol_electrolytes_schumpe_1993 import lg_solubility_ratio
            mf = self.unit_info(uo.molar)[0]
            elp = {k: self._shaped(v, c) for k, v in zip(c['keys'], c['concs'])}
            elq = {k: self._wrap(elp[k] * (mf / self.unit_info(U['units'][un])[0]), U['units'][un], c) for k, un in zip(c['keys'], c['c_units'])}
            if c['shape'] == 'list':
                elp = {k: [float(x) for x in v] for k, v in elp.items()}
            plain, unit = (lambda: lg_solubility_ratio(elp, c['gas'])), (lambda: lg_solubility_ratio(elq, c['gas'], units=uo))
            eu = U['pq'].dimensionless
        elif fn.startswith('henry'):
            hp, _, _, _, _ = self._henry(c, None)
            hq, kw, _, _, _ = self._henry(dict(c, T0_unit=None, Td_unit=None), uo)
            if c.get('plain_args'):
                Tq = Tp
            if fn == 'henry_call':
                plain, unit = (lambda: hp(Tp)), (lambda: hq(Tq, **kw))
            else:
                xp = self._shaped(c['xs'], c)
                xunit = U['units'][c['x_unit']]
                ref = 101325.0 if fn == 'henry_get_c' else 1000.0           # x is a pressure in atm / a concentration in M
                xq = xp if c.get('plain_args') else self._wrap(xp * (ref / self.unit_info(xunit)[0]), xunit, c)
                if c['shape'] == 'list':
                    xp = [float(x) for x in xp]
                if fn == 'henry_get_c':
                    plain, unit = (lambda: hp.get_c_at_T_and_P(Tp, xp)), (lambda: hq.get_c_at_T_and_P(Tq, xq, **kw))
                else:
                    plain, unit = (lambda: hp.get_P_at_T_and_c(Tp, xp)), (lambda: hq.get_P_at_T_and_c(Tq, xq, **kw))
            eu = None if c.get('plain_args') else self._expected_unit(c, uo)[0]
        elif fn == 'nernst':
            from chempy.electrochemistry.nernst import nernst_potential
            cop = self._shaped(c['cos'], c)
            coq = self._wrap(cop * (1000.0 / self.unit_info(U['units'][c['co_unit']])[0]), U['units'][c['co_unit']], c)
            ciq = self._q(c['ci'] * 1000.0 / self.unit_info(U['units'][c['ci_unit']])[0], c['ci_unit'])
            if c['T_scalar']:
                Tp, Tq = c['Ts'][0], (c['Ts'][0] * kf / tf) * tunit
            if c['shape'] == 'list':
                cop = [float(x) for x in cop]
            if c['constants']:
                # physical constants: the plain call needs kelvin
                consts_p = types.SimpleNamespace(Faraday_constant=96485.3399, molar_gas_constant=8.314472)
                Tk = (np.asarray(Tp) * kf) if not isinstance(Tp, list) else [x * kf for x in Tp]
                plain = lambda: nernst_potential(cop, c['ci'], c['z'], Tk, consts_p, backend=np)
                unit = lambda: nernst_potential(coq, ciq, c['z'], Tq, U['dc'], backend=np)
            else:
                plain = lambda: nernst_potential(cop, c['ci'], c['z'], Tp, backend=np)
                unit = lambda: nernst_potential(coq, ciq, c['z'], Tq, None, uo, backend=np)
            eu = self._expected_unit(c, uo)[0]
        elif fn == 'mobility':
            from chempy.einstein_smoluchowski import electrical_mobility_from_D
            Dp = self._shaped(c['Ds'], c)
            Dq = self._wrap(Dp / self.unit_info(U['units'][c['D_unit']])[0], U['units'][c['D_unit']], c)
            if c['shape'] == 'list':
                Dp = [float(x) for x in Dp]
            if c['constants']:
                consts_p = types.SimpleNamespace(Boltzmann_constant=1.3806504e-23, elementary_charge=1.602176487e-19)
                Tk = (np.asarray(Tp) * kf) if not isinstance(Tp, list) else [x * kf for x in Tp]
                plain = lambda: electrical_mobility_from_D(Dp, c['z'], Tk, consts_p)
                unit = lambda: electrical_mobility_from_D(Dq, c['z'], Tq, U['dc'])
            else:
                plain = lambda: electrical_mobility_from_D(Dp, c['z'], Tp)
                unit = lambda: electrical_mobility_from_D(Dq, c['z'], Tq, None, uo)
            eu = self._expected_unit(c, uo)[0]
        else:
            return None
        p = self._run(plain)
        r = self._run(unit)
        if p[0] == 'exc':
            # the plain-number mode itself refuses this argument shape (python lists): outside the documented domain; unit mode must not invent a value
            # (python lists of quantities are outside the documented argument types; numpy strips the units of list entries - not judged)
            return None
        if r[0] == 'exc':
            return '%s with a %s argument in %s (units object %s) raised %s; plain mode gives %r' % (
                fn, c['shape'], c['T_unit'], c['usys'], r[1], np.asarray(p[1]).ravel()[:3].tolist())
        try:
            if eu is None:
                if hasattr(r[1], 'dimensionality'):
                    return '%s(plain %s arguments, units object given): result %r is not a plain number' % (fn, c['shape'], r[1])
                got = np.asarray(r[1], dtype=float)
            else:
                got = np.asarray(to_unitless(r[1], eu), dtype=float)
        except Exception as e:
            return '%s with a %s argument: result %r does not have the dimension of %s (%s)' % (fn, c['shape'], r[1], eu, exc_name(e))
        want = np.asarray(p[1], dtype=float)
        if got.shape != want.shape:
            return '%s with a %s argument: result shape %r, plain mode %r' % (fn, c['shape'], got.shape, want.shape)
        bad = [i for i, (a, b) in enumerate(zip(got.ravel(), want.ravel())) if not close(a, b, self.float_tol, 1e-300)]
        if bad:
            i = bad[0]
            return ('%s with a %s argument of shape %r in %s (units object %s): element %d is %r, plain mode %r (%d of %d elements differ)'
                    % (fn, c['shape'], want.shape, c['T_unit'], c['usys'], i, float(got.ravel()[i]), float(want.ravel()[i]), len(bad), got.size))
        if sorted(set(r[2])) != sorted(set(p[2])):
            return '%s with a %s argument: warnings with units %r, plain %r' % (fn, c['shape'], r[2], p[2])
        return None

    def _oracle_history(self, c):
        """a sequence of unit-mode calls with ONE units object: every call must give the plain-number value of the same arguments"""
        from chempy.properties.water_diffusivity_holz_2000 import water_self_diffusion_coefficient as wsd
        from chempy.units import to_unitless
        uo = self.U()['usys'][c['usys']]
        eu = uo.meter ** 2 / uo.second
        for i, st in enumerate(c['steps']):
            kw = {} if st['err'] is None else {'err_mult': tuple(st['err'])}
            p = self._run(lambda: wsd(st['T'], **kw))
            r = self._run(lambda: wsd(st['T'] * uo.Kelvin, units=uo, **kw))
            if p[0] == 'exc' or r[0] == 'exc':
                return 'call %d of the history %r raised (plain %r, units %r)' % (i, c['steps'], p[1], r[1])
            try:
                got = float(to_unitless(r[1], eu))
            except Exception as e:
                return 'call %d of the history: result %r is not a diffusion coefficient' % (i, r[1])
            if not close(got, float(p[1]), self.float_tol):
                return ('call %d of the history %r with units (%s): water_self_diffusion_coefficient(%r, err_mult=%r) = %r, plain mode %r '
                        '(the value depends on the earlier calls)' % (i, c['steps'][:i], c['usys'], st['T'], st['err'], got, float(p[1])))
        return None

    def _oracle_anchors(self):
        """values printed in the repository's own tests / docstrings (tables of the papers), warnings are errors inside the ranges"""
        from chempy.properties.water_density_tanaka_2001 import water_density
        from chempy.properties.water_viscosity_korson_1969 import water_viscosity
        from chempy.properties.water_diffusivity_holz_2000 import water_self_diffusion_coefficient as wsd
        from chempy.properties.water_permittivity_bradley_pitzer_1979 import water_permittivity
        from chempy.properties.sulfuric_acid_density_myhre_1998 import sulfuric_acid_density, density_from_concentration
        from chempy.henry import Henry
        from chempy.electrochemistry.nernst import nernst_potential
        from chempy.einstein_smoluchowski import electrical_mobility_from_D
        dens = [(0, 999.8395, 0.004), (4, 999.9720, 0.003), (10, 999.7026, 0.0003), (15, 999.1026, 0.0001), (20, 998.2071, 0.0005),
                (22, 997.7735, 0.0007), (25, 997.0479, 0.0009), (30, 995.6502, 0.0016), (40, 992.2, 0.02)]
        visc = [(0, 1.7916), (5, 1.5192), (10, 1.3069), (15, 1.1382), (20, 1.0020), (25, 0.8903), (30, 0.7975), (35, 0.7195), (40, 0.6532),
                (45, 0.5963), (50, 0.5471), (55, 0.5042), (60, 0.4666), (65, 0.4334), (70, 0.4039), (75, 0.3775), (80, 0.3538), (85, 0.3323),
                (90, 0.3128), (95, 0.2949), (100, 0.2783)]
        diff = [(0, 1.099e-9, 0.027e-9), (4, 1.261e-9, 0.011e-9), (10, 1.525e-9, 0.007e-9), (15, 1.765e-9, 0.006e-9), (20, 2.023e-9, 0.001e-9),
                (25, 2.299e-9, 0.001e-9), (30, 2.594e-9, 0.001e-9), (35, 2.907e-9, 0.004e-9)]
        bad = []
        with warnings.catch_warnings():
            warnings.simplefilter('error', UserWarning)
            try:
                for t, v, tol in dens:
                    if not abs(water_density(273.15 + t) - v) < tol:
                        bad.append('water_density(%g degC) = %r, table %r' % (t, water_density(273.15 + t), v))
                for t, v in visc:
                    tol = 2e-3 if t == 100 else 6e-4 if t == 95 else 5e-4
                    if not abs(water_viscosity(273.15 + t) - v) < tol:
                        bad.append('water_viscosity(%g degC) = %r, table %r' % (t, water_viscosity(273.15 + t), v))
                for t, v, tol in diff:
                    if not abs(wsd(273.15 + t) - v) < tol:
                        bad.append('water_self_diffusion_coefficient(%g degC) = %r, table %r' % (t, wsd(273.15 + t), v))
                for t, v, tol in [(20, 80.1, 0.2), (100, 55.3, 0.5), (25, 78.38436874203077, 1e-8)]:   # test_water_permittivity (the 0 degC line there, 80 +- 1, does not hold and is not asserted)
                    if not abs(water_permittivity(273.15 + t, 1) - v) < tol:
                        bad.append('water_permittivity(%g degC) = %r, expected %r' % (t, water_permittivity(273.15 + t, 1), v))
                if '%.2f' % water_density(277.13) != '999.97':
                    bad.append('docstring: water_density(277.13)')
                if '%d' % sulfuric_acid_density(.5, 293) != '1396' or not abs(1063.8 - sulfuric_acid_density(0.1, 298)) < 0.1:
                    bad.append('sulfuric_acid_density anchors')
                if '%d' % density_from_concentration(400, 293) != '1021' or not abs(1058.5 - density_from_concentration(1000)) < 0.1:
                    bad.append('density_from_concentration anchors')
                h = Henry(1.2e-3, 1800)
                if not (abs(h(298.15) - 1.2e-3) < 1e-12 and abs(h.get_c_at_T_and_P(290, 1) - 0.001421892) < 1e-8
                        and abs(h.get_P_at_T_and_c(310, 1e-3) - 1.05) < 1e-3):
                    bad.append('Henry anchors')
                for a, want in [((145, 15, 1, 310), 60.605), ((4, 150, 1, 310), -96.8196), ((2, 7e-5, 2, 310), 137.0436), ((110, 10, -1, 310), -64.0567)]:
                    if not abs(1000 * nernst_potential(*a) - want) < 1e-4:
                        bad.append('nernst_potential%r = %r mV, textbook %r' % (a, 1000 * nernst_potential(*a), want))
                ref = -2 * 1.60217657e-19 * 3 / 1.3806488e-23 / 100
                if not abs(electrical_mobility_from_D(3, -2, 100) - ref) <= 1e-5 * abs(ref):
                    bad.append('electrical_mobility_from_D anchor')
                # the published formulas with the published coefficients, written out here independently of the source
                # (Tanaka 2001 eq. 1 / Table 1; Korson 1969 eq. 5; Holz 2000 eq. 1; Bradley & Pitzer 1979 Table I; Myhre 1998: pinned values)
                for T in (273.15, 277.13, 285.0, 298.15, 313.15):
                    t = T - 273.15
                    ref = 999.974950 * (1 - (t - 3.983035) ** 2 * (t + 301.797) / (522528.9 * (t + 69.34881)))
                    if not close(water_density(T), ref, 1e-12):
                        bad.append('water_density(%r) = %r, Tanaka formula %r' % (T, water_density(T), ref))
                for T in (273.15, 293.15, 300.0, 333.15, 373.15):
                    t = T - 273.15
                    ref = 1.0020 * 10 ** ((1.1709 * (20 - t) - 0.001827 * (t - 20) ** 2) / (t + 89.93))
                    if not close(water_viscosity(T), ref, 1e-12):
                        bad.append('water_viscosity(%r) = %r, Korson formula %r' % (T, water_viscosity(T), ref))
                for T in (273.15, 298.15, 330.0, 373.15):
                    ref = 1.635e-8 * (T / 215.05 - 1) ** 2.063
                    if not close(wsd(T), ref, 1e-12):
                        bad.append('water_self_diffusion_coefficient(%r) = %r, Holz formula %r' % (T, wsd(T), ref))
                Uc = (3.4279e2, -5.0866e-3, 9.4690e-7, -2.0525, 3.1159e3, -1.8289e2, -8.0325e3, 4.2142e6, 2.1417)
                for T, Pb in ((273.15, 1.0), (298.15, 1.0), (343.15, 1500.0), (500.0, 800.0), (623.15, 1999.0)):
                    B = Uc[6] + Uc[7] / T + Uc[8] * T
                    ref = Uc[0] * math.exp(Uc[1] * T + Uc[2] * T * T) + (Uc[3] + Uc[4] / (Uc[5] + T)) * math.log((B + Pb) / (B + 1000.0))
                    if not close(water_permittivity(T, Pb), ref, 1e-12):
                        bad.append('water_permittivity(%r, %r) = %r, Bradley-Pitzer formula %r' % (T, Pb, water_permittivity(T, Pb), ref))
                for w, T, ref in ((0.1, 273.15, 1073.3191493868799), (0.3, 283.15, 1225.5658926335814), (0.5, 293.15, 1395.9236664874945),
                                  (0.7, 303.15, 1610.9077539287246), (0.9, 323.15, 1904.4226931401354)):
                    if not close(sulfuric_acid_density(w, T), ref, 1e-11):
                        bad.append('sulfuric_acid_density(%r, %r) = %r, pinned value of the Myhre table %r' % (w, T, float(sulfuric_acid_density(w, T)), ref))
            except UserWarning as e:
                bad.append('range warning inside the validity range: %s' % e)
        return '; '.join(bad) if bad else None

    def classify(self, c):
        if c['mode'] == 'anchor':
            return 'anchors'
        s = '%s:%s' % (c['fn'], c['mode'])
        if c['mode'] == 'history':
            return s
        if c['mode'] == 'grid':
            own = 'mK' if c['usys'] == 'alt_mK' else 'K'
            return s + ':' + c['shape'] + (':ownT' if c['T_unit'] == own else ':scaledT')
        if c.get('err') is not None:
            s += ':err_mult'
        if c.get('plain_args'):
            s += ':plain-args+units'
        if c.get('alias'):
            s += ':get_kH_at_T'
        if c['fn'].startswith('henry'):
            s += ':T0=' + ('default' if c['Tref'] is None else '298.15' if c['Tref'] == 298.15 else 'other')
            if c.get('cls'):
                s += ':' + c['cls']
        if c.get('opts') in ('no_units', 'conc_only'):
            s += ':' + c['opts']
        if c.get('c_units'):
            s += ':mixed-entry-units' if len(set(c['c_units'])) > 1 else ':same-entry-units'
        if c['fn'] == 'nernst' and 'co_unit' in c:
            s += ':same-prefix' if c['co_unit'] == c['ci_unit'] else ':mixed-prefix'
        if 'usys' in c:
            s += ':' + c['usys']
        if self.is_foreign(c):
            s += ':foreignT'
        if self.is_malformed(c):
            s += ':malformed'
        if c.get('probe'):
            s += ':bound-probe'
        exp, dec = self._range_expect(c) if c['fn'] in REF_RANGES else (None, False)
        if dec:
            s += ':out' if exp else ':in'
        return s


PROPERTY = C19()
