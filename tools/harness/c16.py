"""C16 — rate-constant models evaluate to their defining formulas under every backend.

Case kinds
  tree     a BUILD PROGRAM (leaves of every class, class instantiations with/without unique_keys, the overloaded
           operators incl. reflected forms) + variables + the `reaction` keyword.  The Lean driver builds the tree with the
           model's constructors and evaluates it; `impl` executes the same program on the real classes/operators and prints
           structure and value in the same canonical form (rational text: exact; floats: tolerance).
  param    arrhenius_equation / eyring_equation / ArrheniusParam.from_rateconst_at_T against the generated Lean functions.
  units    (oracle only) templates evaluated with unit-carrying quantities vs plain floats.
  rxnrate  (oracle only) Reaction(..., ArrheniusParam | EyringParam).rate(variables).

Oracle (independent of the Lean model): `meaning()` below — a plain Python arithmetic interpreter of the build program
(Fractions / floats, closed formulas per class, "unique key present -> that argument is the variable, and only that one") —
is compared with the real `Expr.__call__` under math, numpy and sympy (symbolic variables, then `.subs`), the closed
Arrhenius / Eyring formulas, the from_rateconst_at_T round trip, and the magnitudes of unit-carrying evaluations.
"""
import json, math, operator, struct
from fractions import Fraction
from lib.framework import Property
from .util import *

R_GAS = 8.314472                       # the constants as documented in arrhenius.py / eyring.py
KB_OVER_H = 2.083664399411865234375e10
UB_TEMPLATES = ('arrhenius', 'eyring', 'eyringhs', 'gibbs', 'radiolytic', 'param_arr', 'param_eyr', 'ratex_arr', 'ratex_eyr',
                'rxn_arr', 'rxn_eyr')
# reported to the coordinator (math.exp of an unsimplified kJ/J quantity); remove a name to activate its math-backend variant
UNITS_PENDING_MATH = ()     # (was ('param_eyr',) until a388a51: eyring_equation simplifies dS/R before exp)
API_TEMPLATES = ('arg_by_name', 'eq', 'rate_coeff', 'named_keys', 'ma_from_callback', 'ma_subclass_from_callback', 'uw_from_callback',
                 'uw_nargs', 'init_refusals', 'g_value', 'equilibrium', 'gibbs_equilibrium', 'eq_from_callback', 'rxn_param_expr',
                 'rxn_param_str', 'rxn_param_number')
SYMPY_OPERANDS = ('symbol', 'float', 'add2', 'mul2', 'mulfloat', 'pow', 'powfloat', 'mul3', 'add3', 'integer', 'rational', 'nested', 'left')
SYMPY_PENDING = ()            # (was ('pow',) until the fix of _implicit_conversion(sympy.Pow): _PowExpr([base, exp]))
DROPS = ('Poly', 'Piecewise', 'GibbsEqConst', 'EyringHS', 'Radiolytic')
NEEDS_RXN = ('MassAction', 'Eyring', 'EyringHS')

SUBST = ['A', 'B', 'C']
PYERR = ('KeyError', 'IndexError', 'ValueError', 'TypeError', 'ZeroDivisionError', 'AttributeError',
         'NotImplementedError', 'OverflowError')


def f2b(x):
    return struct.unpack('<Q', struct.pack('<d', float(x)))[0]


def b2f(s):
    return struct.unpack('<d', struct.pack('<Q', int(s)))[0]


class Skip(Exception):
    """the arithmetic meaning is undefined for this case (no claim)"""


# =====================================================================================================
# generation
class Gen:
    def __init__(self, rng, mode, tier):
        self.rng, self.mode, self.tier = rng, mode, tier
        r = rng.random()
        if r < 0.86:
            subs = rng.sample(SUBST[:2], rng.randint(1, 2))
            reac = [[s, rng.randint(1, 2)] for s in subs]
            while sum(v for _, v in reac) > 3:
                reac[rng.randrange(len(reac))][1] = 1
            if rng.random() < 0.04:
                reac = []
            self.rxn = reac
        elif r < 0.94:
            self.rxn = None
        else:
            self.rxn = 'none'
        self.has_rxn = isinstance(self.rxn, list)
        self.vars = {}
        self.dropped = None
        self.no_empty = 0
        # MAGNITUDE REGIME of the constants of this case (gas-phase rate constants in cm3/molecule/s are ~1e-12, pre-exponential
        # factors ~1e13, ...): every bare number / Constant / coefficient of the tree is multiplied by 10**k
        self.mag = 0
        if rng.random() < 0.4:
            self.mag = rng.choice([-1, 1]) * rng.randint(6, 30)

    # ---- numbers --------------------------------------------------------------------------------
    def q(self, lo=1, hi=40, signed=False):
        """a non-integer Fraction (python type Fraction, never int)"""
        while True:
            f = Fraction(self.rng.randint(lo, hi), self.rng.randint(2, 9))
            if f.denominator != 1:
                return -f if signed and self.rng.random() < 0.4 else f

    def number(self, signed=True):
        """(json value, static python type)"""
        rng = self.rng
        scaled = self.mag != 0 and rng.random() < 0.8
        if self.mode == 'rat':
            if rng.random() < 0.5 and not scaled:
                v = rng.choice([0, 1, 1, 2, 3, 5, -1, -2, 7])
                return v, 'I'
            qv = self.q(signed=signed)
            if scaled:
                qv = qv * Fraction(10) ** self.mag
                if qv.denominator == 1:
                    qv = qv + Fraction(1, 3) * Fraction(10) ** self.mag
            return rat_json(qv), 'Q'
        r = rng.random()
        if r < 0.25 and not scaled:
            return float(rng.choice([0, 1, 1, 2, 3, -1, 0.5, -2])), 'F'
        v = float('%.6g' % (rng.uniform(0.1, 5) * (-1 if signed and rng.random() < 0.3 else 1)))
        if scaled:
            v = float('%.6ge%d' % (v, self.mag))
        return v, 'F'

    def var(self, name):
        if name not in self.vars:
            rng = self.rng
            free = name in ('x', 'y', 'z', 'k1', 'k2', 'k3', 'k4')      # free variables follow the magnitude regime of the case
            if self.mode == 'rat':
                signed = name in ('x', 'y', 'z', 'k1', 'k2', 'k3')
                qv = self.q(signed=signed)
                if free and self.mag:
                    qv = qv * Fraction(10) ** self.mag + Fraction(1, 3) * Fraction(10) ** self.mag
                self.vars[name] = rat_json(qv)
            else:
                if name == 'temperature':
                    v = rng.uniform(200, 2000)
                elif name == 'log10_temperature':
                    v = rng.uniform(2.3, 3.3)
                elif name == 'time':
                    v = rng.uniform(0, 100)
                elif name == 'density':
                    v = rng.uniform(0.7, 1.3)
                elif name.startswith('doserate'):
                    v = rng.uniform(0.01, 10)
                elif name in SUBST:
                    v = math.exp(rng.uniform(math.log(1e-3), math.log(10)))
                elif name == 'molar_gas_constant':
                    v = 8.314462618
                elif name == 'Boltzmann_constant':
                    v = 1.380649e-23
                elif name == 'Planck_constant':
                    v = 6.62607015e-34
                else:
                    v = rng.uniform(0.1, 5) * (-1 if rng.random() < 0.3 else 1)
                    if free and self.mag:
                        v = float('%.9ge%d' % (v, self.mag))
                self.vars[name] = float('%.9g' % v)
        return name

    # ---- programs: every generator returns (program, static type in {'I','Q','A','F'}) -------------------
    def leaf_node(self):
        rng = self.rng
        r = rng.random()
        if r < 0.45:
            v, ty = self.number()
            if self.mode == 'rat' and ty == 'I' and rng.random() < 0.5:
                return {'t': 'new', 'k': {'c': 'Constant'}, 'args': {'s': {'t': 'num', 'v': v}}, 'uk': None}, ty
            return {'t': 'new', 'k': {'c': 'Constant'}, 'args': {'l': [{'t': 'num', 'v': v}]}, 'uk': None}, ty
        name = self.var(rng.choice(['x', 'y', 'z']))
        return {'t': 'new', 'k': {'c': 'Symbol'}, 'args': None, 'uk': [name]}, ('Q' if self.mode == 'rat' else 'F')

    def operand(self, depth, q_ok=False):
        """any operand: a raw number, a raw str or an Expr"""
        rng = self.rng
        r = rng.random()
        if rng.random() < 0.03:       # Constant() / Constant.fk('c'): `trivially_zero` of a Constant without arguments raises TypeError
            return ({'t': 'new', 'k': {'c': 'Constant'}, 'args': None, 'uk': rng.choice([None, ['c']])},
                    'Q' if self.mode == 'rat' else 'F')
        if r < 0.3:
            v, ty = self.number()
            if self.mode == 'rat' and ty == 'Q' and rng.random() < 0.9:
                return self.leaf_node()          # a raw Fraction operand is NotImplementedError: rarely
            return {'t': 'num', 'v': v}, ty
        if r < 0.38:
            return {'t': 'str', 'v': self.var(rng.choice(['x', 'y', 'z']))}, ('Q' if self.mode == 'rat' else 'F')
        return self.expr(depth, q_ok)

    def arg(self, depth, positive=False, lo=0.1, hi=5.0, q_ok=False):
        """an argument of a class instance: mostly a raw number, sometimes an Expr or a str"""
        rng = self.rng
        r = rng.random()
        if r < 0.72 or depth <= 0:
            scaled = self.mag != 0 and not positive and rng.random() < 0.6
            if self.mode == 'rat':
                if rng.random() < 0.35 and not scaled:
                    return {'t': 'num', 'v': rng.choice([0, 1, 2, 3, -1, 4])}, 'I'
                qv = self.q(signed=not positive)
                if scaled:
                    qv = qv * Fraction(10) ** self.mag + Fraction(1, 7) * Fraction(10) ** self.mag
                return {'t': 'num', 'v': rat_json(qv)}, 'Q'
            v = float('%.6g' % rng.uniform(lo, hi))
            if not positive and rng.random() < 0.25:
                v = -v
            if scaled:
                v = float('%.6ge%d' % (v, self.mag))
            return {'t': 'num', 'v': v}, 'F'
        if r < 0.78 and not positive:
            return {'t': 'str', 'v': self.var(rng.choice(['x', 'y', 'z']))}, ('Q' if self.mode == 'rat' else 'F')
        if positive:
            return self.leaf_pos()
        self.no_empty += 1        # a None-valued ARGUMENT of a class instance: the order of the resulting exceptions is not modelled
        try:
            return self.expr(depth - 1, q_ok)
        finally:
            self.no_empty -= 1

    def leaf_pos(self):
        v = float('%.6g' % self.rng.uniform(0.2, 4)) if self.mode == 'float' else rat_json(self.q())
        return ({'t': 'new', 'k': {'c': 'Constant'}, 'args': {'l': [{'t': 'num', 'v': v}]}, 'uk': None},
                'F' if self.mode == 'float' else 'Q')

    def uk(self, nargs, p_over=0.3):
        """unique_keys for the first m arguments; each key is present in the variables with probability 1/2"""
        rng = self.rng
        if rng.random() > p_over or nargs == 0:
            return None
        m = rng.randint(1, nargs)
        if rng.random() < 0.04:
            m = min(nargs + 1, 4)          # more unique keys than arguments: ValueError of Expr.__init__ (fixed-arity classes)
        keys = rng.sample(['k1', 'k2', 'k3', 'k4'], min(m, 4))
        for k in keys:
            if rng.random() < 0.5:
                self.var(k)
                if rng.random() < 0.3:        # an override that is exactly zero is still an override
                    self.vars[k] = 0 if self.mode == 'rat' else rng.choice([0.0, -0.0])
        return keys

    def klass(self, depth, q_ok=False):
        rng, rat = self.rng, self.mode == 'rat'
        Q = 'Q' if rat else 'F'
        choices = ['Poly', 'Poly', 'Piecewise', 'RampedTemp', 'Radiolytic', 'MassActionEq']
        if self.has_rxn or rng.random() < 0.15:
            choices += ['MassAction', 'MassAction']
        if not rat:
            choices += ['Log10', 'Exp', 'Arrhenius', 'Arrhenius', 'SinTemp', 'GibbsEqConst', 'MAArr']
            if self.has_rxn or rng.random() < 0.1:
                choices += ['Eyring', 'EyringHS', 'arrp', 'MAEyr'] + (['eyrp'] if q_ok else [])
        c = rng.choice(choices)
        if c == 'Poly':
            param = self.var(rng.choice(['x', 'temperature', 'temperature', 'log10_temperature']))
            recip, shift = rng.random() < 0.35, rng.random() < 0.35
            n = rng.randint(0 if (rng.random() < 0.03 and not self.no_empty) else 1, 4)
            args = [self.arg(depth) for _ in range(n + (1 if shift else 0))]
            if shift and rng.random() < 0.02 and not self.no_empty:
                args = []
            tys = [t for _, t in args[(1 if shift else 0):]]
            ty = Q if (len(tys) >= 2 or shift) else (tys[0] if tys else 'I')
            if len(tys) == 1 and not shift:
                ty = tys[0]
            elif len(tys) == 1:
                ty = tys[0]           # res = coeff * 1
            return ({'t': 'new', 'k': {'c': 'Poly', 'param': param, 'recip': recip, 'shift': shift},
                     'args': {'l': [a for a, _ in args]}, 'uk': self.uk(len(args))}, ty)
        if c == 'Piecewise':
            param = self.var(rng.choice(['x', 'temperature']))
            n = rng.randint(1, 3)
            on_bound = rng.randint(0, n) if rng.random() < 0.35 else None     # x exactly on a bound (outermost ones included)
            if rat:
                xv = Fraction(*self.vars[param]) if isinstance(self.vars[param], list) else Fraction(self.vars[param])
                if on_bound is None:
                    lo = math.floor(xv) - rng.randint(0, 3)
                    bounds = [lo]
                    for _ in range(n):
                        bounds.append(bounds[-1] + rng.randint(1, 4))
                else:
                    bounds = [xv]
                    for _ in range(on_bound):
                        bounds.insert(0, bounds[0] - rng.randint(1, 4))
                    for _ in range(n - on_bound):
                        bounds.append(bounds[-1] + rng.randint(1, 4))
                bj = [rat_json(b) for b in bounds]
            else:
                xv = self.vars[param]
                if on_bound is None:
                    lo = xv - rng.uniform(0, 3) * abs(xv)
                    bounds = [lo]
                    for _ in range(n):
                        bounds.append(bounds[-1] + rng.uniform(0.3, 2) * abs(xv))
                    bj = [float('%.6g' % b) for b in bounds]
                else:
                    bounds = [xv]
                    for _ in range(on_bound):
                        bounds.insert(0, float('%.6g' % (bounds[0] - rng.uniform(0.3, 2) * abs(xv))))
                    for _ in range(n - on_bound):
                        bounds.append(float('%.6g' % (bounds[-1] + rng.uniform(0.3, 2) * abs(xv))))
                    bj = list(bounds)
            if rng.random() < 0.03:
                return {'t': 'new', 'k': {'c': 'Piecewise', 'param': param}, 'args': {'l': [{'t': 'num', 'v': bj[0]}]}, 'uk': None}, 'A'   # < 3 entries
            if rng.random() < 0.12:              # out of every interval -> ValueError
                bj = [rat_json(Fraction(*b) + 1000 if isinstance(b, list) else b + 1000) if rat else b + 1000 for b in bj]
                on_bound = None
            self.no_empty += 1          # an unselected branch that evaluates to None is not modelled
            exprs = [self.arg(depth) for _ in range(n)]
            self.no_empty -= 1
            l = []
            for i in range(n):
                l += [{'t': 'num', 'v': bj[i]}, exprs[i][0]]
            l.append({'t': 'num', 'v': bj[n]})
            if rng.random() < 0.04:
                l = l[:-1]                        # even number of entries -> ValueError
            tys = {t for _, t in exprs}
            ty = tys.pop() if len(tys) == 1 else 'A'
            return {'t': 'new', 'k': {'c': 'Piecewise', 'param': param}, 'args': {'l': l}, 'uk': None}, ty
        if c == 'RampedTemp':
            self.var('time')
            args = [self.arg(depth), self.arg(depth)]
            return self.new('RampedTemp', args, Q)
        if c == 'Radiolytic':
            names = rng.choice([[''], ['alpha'], ['alpha', 'beta'], ['gamma', 'alpha'], ['beta', 'alpha'],
                                ['gamma', 'alpha', 'beta'], ['neutron', 'gamma']])      # NOT only alphabetical orders
            self.var('density')
            for nm in names:
                self.var('doserate' + ('' if nm == '' else '_' + nm))
            args = [self.arg(depth) for _ in names]
            p, _ = self.new('Radiolytic', args, Q)
            p['k']['names'] = names
            return p, Q
        if c == 'MassActionEq':
            a = self.arg(depth)
            return self.new('MassActionEq', [a], a[1])
        if c == 'MassAction':
            a = self.arg(depth, q_ok=q_ok)
            if rat and a[0]['t'] == 'num' and isinstance(a[0]['v'], list):
                # a bare Fraction inside a MassAction meets _implicit_conversion as soon as the wrapper is compared
                # (`other == other*0` in Expr.__sub__): keep the bare rate constant an int
                a = ({'t': 'num', 'v': rng.choice([1, 2, 3, 5, -2])}, 'I')
            ty = Q if (self.has_rxn and self.rxn) else a[1]
            if rng.random() < 0.08:         # MassAction('name'): a str argument is wrapped into a tuple and looked up in the variables
                return {'t': 'new', 'k': {'c': 'MassAction'}, 'args': {'s': {'t': 'str', 'v': self.var(rng.choice(['x', 'y']))}}, 'uk': None}, Q
            if a[0]['t'] != 'str' and rng.random() < 0.4:
                return {'t': 'new', 'k': {'c': 'MassAction'}, 'args': {'s': a[0]}, 'uk': None}, ty
            return self.new('MassAction', [a], ty)
        if c in ('Log10', 'Exp'):
            a = self.leaf_pos() if c == 'Log10' or rng.random() < 0.5 else self.arg(min(depth, 1), lo=0.1, hi=3)
            if c == 'Log10' and rng.random() < 0.03:
                a = ({'t': 'num', 'v': -1.5}, 'F')
            if rng.random() < 0.5 and a[0]['t'] != 'str':
                return {'t': 'new', 'k': {'c': c}, 'args': {'s': a[0]}, 'uk': None}, 'F'
            return self.new(c, [a], 'F', p_over=0.1)
        if c in ('Arrhenius', 'MAArr'):
            self.var('temperature')
            A = {'t': 'num', 'v': float('%.6g' % math.exp(rng.uniform(math.log(1e3), math.log(1e13))))}
            E = {'t': 'num', 'v': float('%.6g' % rng.uniform(500, 15000))}
            args = [(A, 'F') if rng.random() < 0.85 else self.arg(depth), (E, 'F') if rng.random() < 0.85 else self.arg(depth, positive=True)]
            p = self.new('Arrhenius', args, 'F')
            if c == 'MAArr':
                return {'t': 'new', 'k': {'c': 'MassAction'}, 'args': {'s': p[0]}, 'uk': None}, 'F'
            return p
        if c in ('Eyring', 'MAEyr'):
            self.var('temperature')
            c0 = {'t': 'num', 'v': float('%.6g' % math.exp(rng.uniform(math.log(1e8), math.log(1e12))))}
            c1 = {'t': 'num', 'v': float('%.6g' % rng.uniform(1000, 15000))}
            args = [(c0, 'F'), (c1, 'F')]
            if rng.random() < 0.6 or not q_ok:
                args.append(self.arg(0, positive=True, lo=0.1, hi=10))
            p = self.new('Eyring', args, 'F')
            if rng.random() < 0.08 and q_ok:
                p[0]['args'] = None                  # Eyring.fk(...): defaults through Python's negative index
                p[0]['uk'] = [self.var('k1'), self.var('k2')]   # (one key: argument 1 = the Quantity default of argument 2, `.simplified` -> not modelled)
            if c == 'MAEyr':
                return {'t': 'new', 'k': {'c': 'MassAction'}, 'args': {'s': p[0]}, 'uk': None}, 'F'
            return p
        if c == 'EyringHS':
            for k in ('temperature', 'molar_gas_constant', 'Boltzmann_constant', 'Planck_constant'):
                self.var(k)
            dH = {'t': 'num', 'v': float('%.6g' % rng.uniform(1e4, 1.2e5))}
            dS = {'t': 'num', 'v': float('%.6g' % rng.uniform(-150, 100))}
            args = [(dH, 'F'), (dS, 'F')]
            if rng.random() < 0.6 or not q_ok:
                args.append(self.arg(0, positive=True, lo=0.1, hi=10))
            return self.new('EyringHS', args, 'F')
        if c == 'SinTemp':
            self.var('time')
            if rng.random() < 0.04:      # angvel * time overflows to inf: math.sin(inf) is ValueError
                args = [({'t': 'num', 'v': 1.0}, 'F'), ({'t': 'num', 'v': 1.0}, 'F'), ({'t': 'num', 'v': rng.choice([1e308, -1e308])}, 'F'),
                        ({'t': 'num', 'v': 0.0}, 'F')]
                self.vars['time'] = float('%.6g' % rng.uniform(10, 100))
                return self.new('SinTemp', args, 'F', p_over=0.0)
            # plain O(1) numbers, no unique keys: sin of a huge argument is ill-conditioned
            args = [({'t': 'num', 'v': float('%.6g' % (rng.uniform(0.1, 5) * rng.choice([1, 1, -1])))}, 'F') for _ in range(4)]
            return self.new('SinTemp', args, 'F', p_over=0.0)   # raw numbers: sin of a huge argument is ill-conditioned
        if c == 'GibbsEqConst':
            self.var('temperature')
            dH = {'t': 'num', 'v': float('%.6g' % rng.uniform(-8000, 8000))}
            dS = {'t': 'num', 'v': float('%.6g' % rng.uniform(-10, 10))}
            return self.new('GibbsEqConst', [(dH, 'F'), (dS, 'F')], 'F')
        if c == 'arrp':
            self.var('temperature')
            return {'t': 'arrp', 'A': float('%.6g' % math.exp(rng.uniform(math.log(1e3), math.log(1e13)))),
                    'Ea': float('%.6g' % rng.uniform(5e3, 1.2e5)), 'uk': self.uk(2)}, 'F'
        if c == 'eyrp':
            self.var('temperature')
            return {'t': 'eyrp', 'dH': float('%.6g' % rng.uniform(1e4, 1.2e5)),
                    'dS': float('%.6g' % rng.uniform(-150, 100)), 'uk': self.uk(2)}, 'F'
        raise AssertionError(c)

    def new(self, cls, args, ty, p_over=0.3):
        rng = self.rng
        l = [a for a, _ in args]
        uk = self.uk(len(l), p_over)
        p = {'t': 'new', 'k': {'c': cls}, 'args': {'l': l}, 'uk': uk}
        r = rng.random()
        if r < 0.03 and l and cls not in ('Eyring', 'EyringHS'):
            p['args'] = {'l': l[:-1]}                 # wrong number of arguments (or a default takes over)
        elif r < 0.05:
            p['args'] = {'l': l + [{'t': 'num', 'v': 1 if self.mode == 'rat' else 1.0}]}
        elif r < 0.08 and uk and cls not in ('Eyring', 'EyringHS'):
            p['args'] = None                           # `fk` construction: every argument from the variables
            for k in uk:
                if rng.random() < 0.9:
                    self.var(k)
        return p, ty

    def expr(self, depth, q_ok=False):
        """a program that builds an Expr (q_ok: a Quantity result -- Eyring's default conc0 = 1 molar -- is acceptable here)"""
        rng = self.rng
        if depth <= 0:
            return self.leaf_node()
        r = rng.random()
        if r < 0.12:
            return self.leaf_node()
        if r < 0.42:
            return self.klass(depth - 1, q_ok)
        if r < 0.5:
            a, ty = self.expr(depth - 1, q_ok)
            return {'t': 'op', 'o': 'neg', 'a': a}, ty
        o = rng.choice(['add', 'add', 'sub', 'sub', 'mul', 'mul', 'div', 'div', 'pow'])
        q2 = q_ok and o in ('mul', 'div')
        a, ta = self.expr(depth - 1, q2)
        if o == 'pow':
            return self.power(a, ta, depth)
        b, tb = self.operand(depth - 1, q2)
        if o == 'sub' and self.mode == 'rat' and rng.random() < 0.06:
            # y - _MulExpr([Fraction, ...]): `other == other*0` compares the bare Fraction with an Expr -> NotImplementedError
            b = {'t': 'new', 'k': {'c': 'Mul'}, 'args': {'l': [{'t': 'num', 'v': rat_json(self.q()) if rng.random() < 0.7 else 3},
                 self.leaf_pos()[0]]}, 'uk': None}
            tb = 'Q'
        if o in ('add', 'sub') and rng.random() < 0.08:
            # expr +/- (zero base) ** (exponent expression): the power is NOT trivially zero -- 0 ** 0 == 1 when the exponent evaluates to
            # exactly 0 for the chosen variables (0 ** positive == 0 otherwise)
            rat = self.mode == 'rat'
            zero = {'t': 'new', 'k': {'c': 'Constant'}, 'args': {'l': [{'t': 'num', 'v': 0 if rat else 0.0}]}, 'uk': None}
            if rng.random() < 0.3:
                zero = {'t': 'op', 'o': 'mul', 'a': self.leaf_node()[0], 'b': zero}          # a zero-valued (trivially zero) product as base
            kind = rng.random()
            yv = self.var(rng.choice(['y', 'z']))
            sym = {'t': 'new', 'k': {'c': 'Symbol'}, 'args': None, 'uk': [yv]}
            if kind < 0.3:
                expo = {'t': 'op', 'o': 'sub', 'a': sym, 'b': dict(sym)}                       # y - y == 0
            elif kind < 0.6:                                                                   # polynomial with a root at the chosen x
                xv = self.vars[self.var('x')]
                neg = (rat_json(-(Fraction(*xv) if isinstance(xv, list) else Fraction(xv))) if rat else -xv)
                expo = {'t': 'new', 'k': {'c': 'Poly', 'param': 'x', 'recip': False, 'shift': False},
                        'args': {'l': [{'t': 'num', 'v': neg}, {'t': 'num', 'v': 1 if rat else 1.0}]}, 'uk': None}
            elif kind < 0.75:
                expo = {'t': 'new', 'k': {'c': 'Constant'}, 'args': {'l': [{'t': 'num', 'v': 0 if rat else 0.0}]}, 'uk': None}
            else:
                expo = {'t': 'new', 'k': {'c': 'Constant'}, 'args': {'l': [{'t': 'num', 'v': rng.choice([1, 2, 3]) if rat else rng.choice([0.5, 2.0, 1e-9])}]}, 'uk': None}
            pw = {'t': 'op', 'o': 'pow', 'a': zero, 'b': expo}
            if rng.random() < 0.7:
                return {'t': 'op', 'o': o, 'a': a, 'b': pw}, ('A' if rat else 'F')
            return {'t': 'op', 'o': o, 'a': pw, 'b': a}, ('A' if rat else 'F')
        if o == 'add' and rng.random() < 0.06:
            z0 = rng.random() < 0.5
            b = {'t': 'new', 'k': {'c': 'Mul'}, 'args': {'l': [{'t': 'num', 'v': (3 if self.mode == 'rat' else 3.0)},
                 {'t': 'new', 'k': {'c': 'Constant'}, 'args': {'l': [{'t': 'num', 'v': (0 if z0 else 2) if self.mode == 'rat' else (0.0 if z0 else 2.0)}]}, 'uk': None}]}, 'uk': None}
            tb = 'I' if self.mode == 'rat' else 'F'
        if o in ('div', 'mul') and rng.random() < 0.12:
            b, tb = {'t': 'num', 'v': 1 if self.mode == 'rat' else 1.0}, ('I' if self.mode == 'rat' else 'F')    # x / 1, x * 1 return x
            if self.mode == 'rat' and o == 'div':
                return {'t': 'op', 'o': o, 'a': a, 'b': b}, ta
        if rng.random() < 0.45:
            a, ta, b, tb = b, tb, a, ta                # reflected forms / Expr on the right
        if self.mode == 'rat':
            if o == 'div':
                if 'Q' not in (ta, tb):                 # int / int would be a float in Python: make the divisor a Fraction
                    b, tb = {'t': 'new', 'k': {'c': 'Constant'}, 'args': {'l': [{'t': 'num', 'v': rat_json(self.q(signed=True))}]}, 'uk': None}, 'Q'
                    if a['t'] in ('num', 'str') and b['t'] in ('num', 'str'):
                        a, ta = self.leaf_node()
                # UnaryWrapper distributes the division over the wrapped argument: keep the other side a Fraction
                if C16._is_ma(a) and tb != 'Q':
                    b, tb = self.leaf_pos()
                elif C16._is_ma(b) and ta != 'Q':
                    a, ta = self.leaf_pos()
                ty = 'Q'
            else:
                ty = 'Q' if 'Q' in (ta, tb) else ('I' if (ta, tb) == ('I', 'I') else 'A')
        else:
            ty = 'F'
        return {'t': 'op', 'o': o, 'a': a, 'b': b}, ty

    def power(self, a, ta, depth):
        rng = self.rng
        if self.mode == 'rat' and rng.random() < 0.2:     # int ** Constant(non-negative int): Expr.__rpow__, exact
            return ({'t': 'op', 'o': 'pow', 'a': {'t': 'num', 'v': rng.choice([2, 3, -2])},
                     'b': {'t': 'new', 'k': {'c': 'Constant'}, 'args': {'s': {'t': 'num', 'v': rng.choice([0, 1, 2, 3])}}, 'uk': None}}, 'I')
        if self.mode == 'rat':
            e = rng.choice([0, 1, 2, 3, 2, -1, -2]) if ta == 'Q' else rng.choice([0, 1, 2, 3])
            if rng.random() < 0.5:
                b = {'t': 'num', 'v': e}
            elif rng.random() < 0.8 or ta != 'Q':
                b = {'t': 'new', 'k': {'c': 'Constant'}, 'args': {'s': {'t': 'num', 'v': e}}, 'uk': None}
            else:
                b = {'t': 'new', 'k': {'c': 'Constant'}, 'args': {'l': [{'t': 'num', 'v': e}]}, 'uk': None}
            return {'t': 'op', 'o': 'pow', 'a': a, 'b': b}, ta
        if rng.random() < 0.6:
            b = {'t': 'num', 'v': float(rng.choice([0, 1, 2, 3, -1, -2]))}
            return {'t': 'op', 'o': 'pow', 'a': a, 'b': b}, 'F'
        if rng.random() < 0.55:                        # number ** Expr  (Expr.__rpow__)
            base = {'t': 'num', 'v': float('%.4g' % rng.uniform(0.5, 3))}
            small = self.leaf_node()[0]
            return {'t': 'op', 'o': 'pow', 'a': base, 'b': small}, 'F'
        base = self.leaf_pos()[0]                      # positive base, real exponent
        b = {'t': 'num', 'v': float('%.4g' % rng.uniform(-2.5, 2.5))}
        if rng.random() < 0.05:
            base = {'t': 'op', 'o': 'neg', 'a': base}  # negative base, non-integer exponent: complex in Python
        return {'t': 'op', 'o': 'pow', 'a': base, 'b': b}, 'F'

    def wrapper_case(self):
        """a wrapper (MassAction) or leaf that CARRIES UNIQUE KEYS combined arithmetically (+ - * / ** neg, direct and reflected) with
        another operand; the override is present in `variables` in 60 % of the cases"""
        rng, rat = self.rng, self.mode == 'rat'
        if not self.has_rxn:
            self.rxn, self.has_rxn = [['A', rng.randint(1, 2)]], True
        key = rng.choice(['k_fw', 'k1', 'k2'])
        kval = {'t': 'num', 'v': rng.choice([2, 3, 5]) if rat else float(rng.choice([2.0, 3.0, 0.5]))}
        r = rng.random()
        if r < 0.6:
            w = {'t': 'new', 'k': {'c': 'MassAction'}, 'args': {'l': [kval]}, 'uk': [key]}
        elif r < 0.7:
            w = {'t': 'new', 'k': {'c': 'MassAction'}, 'args': None, 'uk': [key]}           # MassAction.fk(key)
        elif r < 0.85 and not rat:
            self.var('temperature')
            inner = {'t': 'new', 'k': {'c': 'Arrhenius'}, 'args': {'l': [{'t': 'num', 'v': 1e5}, {'t': 'num', 'v': 1200.0}]}, 'uk': [key]}
            w = {'t': 'new', 'k': {'c': 'MassAction'}, 'args': {'s': inner}, 'uk': None}   # the key sits on the wrapped leaf
        else:
            self.var('x')
            w = {'t': 'new', 'k': {'c': 'Poly', 'param': 'x', 'recip': False, 'shift': False},
                 'args': {'l': [kval, {'t': 'num', 'v': 1 if rat else 1.0}]}, 'uk': [key]}
        if rng.random() < 0.6 or (w['args'] is None and rng.random() < 0.8):       # (fk without its key: KeyError 'Unique key missing')
            self.vars[key] = rat_json(self.q()) if rat else float('%.6g' % rng.uniform(0.5, 9))
        o = rng.choice(['mul', 'mul', 'div', 'div', 'add', 'sub', 'pow', 'neg'])
        if o == 'neg':
            prog = {'t': 'op', 'o': 'neg', 'a': w}
        else:
            if o == 'pow':
                other = {'t': 'num', 'v': 2 if rat else 2.0}
            elif rng.random() < 0.5:
                other = {'t': 'num', 'v': rng.choice([2, 3, 1, 0]) if rat else float(rng.choice([2.0, 4.0, 1.0, 0.0]))}
            else:
                other = self.leaf_pos()[0] if rng.random() < 0.5 else self.leaf_node()[0]
            a, b = (w, other) if (rng.random() < 0.55 or o == 'pow') else (other, w)
            if rat and o == 'div' and a['t'] == 'num' and b is w:
                a = self.leaf_pos()[0]
            if rat and o == 'div' and b['t'] == 'num' and b['v'] != 1:
                b = self.leaf_pos()[0]          # keep the exact mode free of int / int (w / 1 returns w)
            prog = {'t': 'op', 'o': o, 'a': a, 'b': b}
            if rng.random() < 0.3:                 # one more level: (w op x) op' y
                prog = {'t': 'op', 'o': rng.choice(['mul', 'add', 'sub']), 'a': prog, 'b': self.leaf_pos()[0]}
        for s_, _ in self.rxn:
            self.var(s_)
        return {'kind': 'tree', 'num': self.mode, 'prog': prog, 'vars': [[k, self.vars[k]] for k in sorted(self.vars)],
                'rxn': self.rxn, 'ty': 'Q' if rat else 'F'}

    def case(self, depth):
        prog, ty = self.expr(depth, True)
        if self.has_rxn:
            for s, _ in self.rxn:
                self.var(s)
        names = sorted(self.vars)
        if names and self.rng.random() < 0.04:
            self.dropped = self.rng.choice(names)       # a missing variable -> KeyError
            names.remove(self.dropped)
        return {'kind': 'tree', 'num': self.mode, 'prog': prog, 'vars': [[k, self.vars[k]] for k in names],
                'rxn': self.rxn, 'ty': ty}


# =====================================================================================================
def walk(p):
    yield p
    if p['t'] == 'new':
        a = p['args']
        if a is not None:
            for x in (a['l'] if 'l' in a else [a['s']]):
                yield from walk(x)
    elif p['t'] == 'op':
        yield from walk(p['a'])
        if 'b' in p:
            yield from walk(p['b'])


def map_nums(p, f):
    """copy of a program with every number leaf transformed"""
    t = p['t']
    if t == 'num':
        return {'t': 'num', 'v': f(p['v'])}
    if t == 'str':
        return p
    if t == 'new':
        a = p['args']
        if a is not None:
            a = {'l': [map_nums(x, f) for x in a['l']]} if 'l' in a else {'s': map_nums(a['s'], f)}
        return {'t': 'new', 'k': p['k'], 'args': a, 'uk': p['uk']}
    if t == 'op':
        q = {'t': 'op', 'o': p['o'], 'a': map_nums(p['a'], f)}
        if 'b' in p:
            q['b'] = map_nums(p['b'], f)
        return q
    if t == 'arrp':
        return {'t': 'arrp', 'A': f(p['A']), 'Ea': f(p['Ea']), 'uk': p['uk']}
    if t == 'eyrp':
        return {'t': 'eyrp', 'dH': f(p['dH']), 'dS': f(p['dS']), 'uk': p['uk']}
    raise KeyError(t)


def _has_qty(prog):
    """the program contains an Eyring / EyringHS instance whose conc0 is the class default (1 * molar, a Quantity)"""
    return any((q['t'] == 'new' and q['k']['c'] in ('Eyring', 'EyringHS') and (q['args'] is None or len(q['args'].get('l', [0, 0, 0])) < 3))
               or q['t'] == 'eyrp' for q in walk(prog))


def _zero(z):
    if z['t'] == 'num':
        return z['v'] == 0
    if z['t'] == 'new' and z['k']['c'] == 'Constant' and z['args']:
        kids = z['args']['l'] if 'l' in z['args'] else [z['args']['s']]
        return len(kids) == 1 and kids[0]['t'] == 'num' and kids[0]['v'] == 0
    if z['t'] == 'op' and z['o'] == 'mul' and not (z['a']['t'] in ('num', 'str') and z['b']['t'] in ('num', 'str')):
        return _zero(z['a']) or _zero(z['b'])       # `trivially_zero` of a product
    return False


def _strip(q):
    """the operand a program really hands on after the identity short-cuts: -(-x), x + 0, 0 + x, x - 0 are x"""
    while q['t'] == 'op':
        if q['o'] == 'neg' and q['a']['t'] == 'op' and q['a']['o'] == 'neg':
            q = q['a']['a']
        elif q['o'] in ('add', 'sub') and _zero(q['b']) and q['a']['t'] not in ('num', 'str'):
            q = q['a']
        elif q['o'] == 'add' and q['a']['t'] == 'num' and _zero(q['a']) and q['b']['t'] not in ('num', 'str'):
            q = q['b']
        else:
            break
    return q


class Real:
    """execution of a build program on the real classes"""

    def __init__(self, mode):
        self.mode = mode
        self.tags = {}
        self.poly = {}

    def num(self, v):
        if self.mode == 'rat':
            return Fraction(*v) if isinstance(v, list) else int(v)
        return float(v)

    def cls(self, k):
        from chempy.util import _expr as E
        from chempy.kinetics import rates as RT
        from chempy.thermodynamics import expressions as TE
        c = k['c']
        if c == 'Poly':
            key = ('Poly', k['param'], bool(k['recip']), bool(k['shift']))
            if key not in self.poly:
                from chempy.kinetics import _rates as KR
                named = {('temperature', False, False): 'TPoly', ('temperature', True, False): 'RTPoly',
                         ('log10_temperature', False, False): 'Log10TPoly', ('temperature', False, True): 'ShiftedTPoly',
                         ('log10_temperature', False, True): 'ShiftedLog10TPoly', ('temperature', True, True): 'ShiftedRTPoly'}
                nm = named.get(key[1:])
                if nm is not None:
                    cl = getattr(KR, nm)           # the conventions module: the same factory calls, made by the library itself
                elif k['shift']:
                    cl = E.create_Poly(k['param'], reciprocal=bool(k['recip']), shift=True, name='SPoly_' + k['param'])
                else:
                    cl = E.create_Poly(k['param'], reciprocal=bool(k['recip']))
                self.poly[key] = cl
                self.tags[cl] = 'Poly:%s:%d:%d' % (k['param'], k['recip'], k['shift'])
            return self.poly[key]
        if c == 'Piecewise':
            key = ('Piecewise', k['param'])
            if key not in self.poly:
                from chempy.kinetics import _rates as KR
                cl = KR.TPiecewise if k['param'] == 'temperature' else E.create_Piecewise(k['param'])
                self.poly[key] = cl
                self.tags[cl] = 'Piecewise:%s' % k['param']
            return self.poly[key]
        if c == 'Radiolytic':
            names = k['names']
            return RT.mk_Radiolytic(*[n for n in names]) if names != [''] else RT.mk_Radiolytic()
        if c == 'Mul':
            return E._MulExpr
        for mod in (E, RT, TE):
            if hasattr(mod, c):
                return getattr(mod, c)
        raise KeyError(c)

    def build(self, p):
        t = p['t']
        if t == 'num':
            return self.num(p['v'])
        if t == 'str':
            return p['v']
        if t == 'new':
            cl = self.cls(p['k'])
            a = p['args']
            if a is None:
                args = None
            elif 'l' in a:
                args = [self.build(x) for x in a['l']]
            else:
                args = self.build(a['s'])
            return cl(args, unique_keys=None if p['uk'] is None else tuple(p['uk']))
        if t == 'op':
            a = self.build(p['a'])
            if p['o'] == 'neg':
                return -a
            b = self.build(p['b'])
            return {'add': operator.add, 'sub': operator.sub, 'mul': operator.mul, 'div': operator.truediv,
                    'pow': operator.pow}[p['o']](a, b)
        if t == 'arrp':
            from chempy.kinetics.arrhenius import ArrheniusParam
            return ArrheniusParam(self.num(p['A']), self.num(p['Ea'])).as_RateExpr(None if p['uk'] is None else tuple(p['uk']))
        if t == 'eyrp':
            from chempy.kinetics.eyring import EyringParam
            return EyringParam(self.num(p['dH']), self.num(p['dS'])).as_RateExpr(None if p['uk'] is None else tuple(p['uk']))
        raise KeyError(t)

    def shownum(self, x):
        if hasattr(x, 'magnitude'):
            x = float(x.magnitude)
        if self.mode == 'rat':
            return show_rat(x) if isinstance(x, (int, Fraction)) else 'float:%r' % (x,)
        return '#%d' % f2b(x)

    def show(self, o):
        from chempy.util._expr import Expr
        from chempy.kinetics.rates import RadiolyticBase
        if isinstance(o, str):
            return json.dumps(o)
        if isinstance(o, Expr):
            cl = type(o)
            nm = cl.__name__
            if cl in self.tags:
                tag = self.tags[cl]
            elif isinstance(o, RadiolyticBase):
                tag = 'Radiolytic:' + ','.join(k[len('radiolytic_yield'):].lstrip('_') for k in o.argument_names)
            else:
                tag = {'_AddExpr': 'Add', '_SubExpr': 'Sub', '_MulExpr': 'Mul', '_DivExpr': 'Div', '_PowExpr': 'Pow',
                       '_NegExpr': 'Neg'}.get(nm, nm)
            args = '-' if o.args is None else ','.join(self.show(a) for a in o.args)
            uk = '' if o.unique_keys is None else '{' + ','.join(o.unique_keys) + '}'
            return '%s[%s]%s' % (tag, args, uk)
        return self.shownum(o)

    def reaction(self, rxn):
        from chempy import Reaction
        if isinstance(rxn, list):
            return Reaction({k: v for k, v in rxn}, {'P': 1})
        return None

    def call(self, obj, vars_, rxn, backend):
        kw = {}
        if rxn == 'none':
            kw['reaction'] = None
        elif isinstance(rxn, list):
            kw['reaction'] = self.reaction(rxn)
        return obj(vars_, backend=backend, **kw)


def value_text(mode, v):
    from chempy.util._expr import Expr
    if v is None:
        return '!py:None'
    if isinstance(v, complex):
        return '!py:complex'
    if isinstance(v, (Expr, str)):
        return '!py:not-a-number'
    if hasattr(v, 'magnitude'):
        v = float(v.magnitude)              # Eyring's default conc0 = 1 molar: the model keeps the magnitude
    if mode == 'rat':
        return show_rat(v) if isinstance(v, (int, Fraction)) else 'float:%r' % (v,)
    return '#%d' % f2b(v)


# =====================================================================================================
class C16(Property):
    pid = 'C16'
    title = ('Arrhenius/Eyring parameter sets evaluate to A*exp(-Ea/RT), (kB*T/h)*exp(dS/R)*exp(-dH/RT); from_rateconst_at_T '
             'reproduces k; as_RateExpr gives value * mass-action product; every expression tree evaluates to its arithmetic meaning '
             'under math, numpy, sympy and with units; a named override replaces exactly that argument')
    props_module = 'ChemModel.Props.C16'
    build_modules = ('ChemModel.Model.Expr', 'ChemModel.Gen.FnRateConst', 'ChemModel.Gen.RatesSrc', 'ChemModel.Basic.Proto')
    driver = 'ChemModel/Driver/C16.lean'
    n_quick, n_thorough = 1200, 20000
    float_tol = 1e-9
    rule = ('build programs of depth <= 3 (quick) / 6 (thorough): leaves Constant / Symbol / raw int, float, Fraction, str; classes Poly '
            '(plain, reciprocal, shifted), Piecewise, MassAction, Arrhenius, Eyring, EyringHS, Radiolytic (1-2 dose rates), RampedTemp, '
            'SinTemp, MassActionEq, GibbsEqConst, Log10, Exp, ArrheniusParam/EyringParam.as_RateExpr; operators + - * / ** neg incl. '
            'reflected forms and the operands 0 / 1 of the short-cuts; unique_keys on 30 % of the instances (each key present with '
            'probability 1/2), `fk` construction, wrong argument counts, missing variables, reaction keyword absent / None / orders 1-3; '
            'T in 200..2000 K; 40 % of the trees live in a magnitude regime 10**k, 6 <= |k| <= 30, of all their constants. Half of the trees are rational-only and compared exactly. A case is non-trivial when it is a distinct JSON value.')
    assumptions = ('Float instantiation vs Python floats: relative tolerance 1e-9 (same libm, different association only through the model)',
                   'variables hold numbers (Expr-valued / str-valued variables are not modelled); dict arguments, sympy operands of '
                   '_implicit_conversion, plain UnaryWrapper instances and Expr.arg with a str index are outside the model',
                   'Eyring/EyringHS default conc0 = 1*molar is modelled by its magnitude 1',
                   'Piecewise: the model covers backends without `Piecewise` (math, numpy); sympy is compared inside the bounds only',
                   'a complex value (negative base, non-integer exponent) ends the evaluation in the model; Python continues with complex arithmetic, so a later exception of the real code is accepted there',
                   'unit-carrying evaluation is checked by the oracle only (quantities is third-party)',
                   'translator pyfn2lean + the two AST rewrites of tools/extract/rateconst.py (plain-number path of try/except AttributeError)')
    clauses_without_theorem = (
        'evaluation with unit-carrying quantities (chempy.units / quantities objects, to_unitless, Backend(), patched_numpy, `.simplified` of '
        'unsimplified ratios): decided by the oracle only (units and ubackend templates); the theorem unit_scaling_arrhenius_rate covers the '
        'change of units for MassAction(Arrhenius) as algebra on magnitudes, the other classes and the quantities library are not modelled',
        'symbolic evaluation of Piecewise instances (sympy builds Piecewise(And(lo <= x, x <= up), ...)): oracle only (at and inside the '
        'bounds); symbolic_then_substituted covers every tree without a Piecewise instance',
        'math vs numpy as implementations of float arithmetic (same libm, numpy returning inf/nan where math raises): oracle only; the Float '
        'instantiation of the model is never used in a theorem',
        'ArrheniusParam(A, Ea)(T) / EyringParam(dH, dS)(T) dispatching to arrhenius_equation / eyring_equation, the constants= / units= paths '
        '(R = constants.molar_gas_constant, ArrheniusParamWithUnits, EyringParamWithUnits) and Reaction(..., ParamSet).rate(vars): oracle only',
        'the class bodies in Model/Expr.call are hand transcriptions tied to the source by the *_guard theorems (regenerated normalised source '
        'text) and by the correspondence, not extracted; the spec theorems (eyringHS_spec, radiolytic_spec, gibbs_spec, '
        'temperature_programs_spec, exp_log10_spec, ...) are about stored numeric arguments without unique keys',
        'the @skipped hash of the signature records (units / constants branches of arrhenius.py, eyring.py) is not pinned by a theorem',
        'named overrides in NESTED trees that contain MassAction operands at several levels: oracle (wrapper_case) and correspondence; the '
        'theorems cover one level (override_in_massaction_arithmetic), every MassAction-free program (override_under_composition) and the '
        'refusal for wrappers that carry keys (unarywrapper_refuses_unique_keys)',
        'conversion of sympy operands by _implicit_conversion (Symbol, Float, two-argument Add / Mul, Pow; refusals for Integer / Rational atoms, '
        'three-argument Add / Mul, sympy object as left operand): oracle only (sympyop cases), not in the Lean model',
        'Expr.__eq__, Expr.arg with a str index, rate_coeff of composite expressions, get_named_keys, g_value, the callback factories '
        '(MassAction.from_callback / subclass_from_callback, UnaryWrapper.from_callback, MassActionEq.from_callback), the refusals of '
        'Expr.__init__ for custom classes and Reaction.rate_expr for str / number / Expr params: oracle only (api cases)',
        'linearised fits (fit_arrhenius_equation, fit_eyring_equation, _fit_linearized: numpy least squares): exploration only, not checked',
    )
    anchors = (('chempy/util/_expr.py', 'Expr.__init__'), ('chempy/util/_expr.py', 'Expr.arg'), ('chempy/util/_expr.py', 'Expr.all_args'),
               ('chempy/util/_expr.py', 'Expr.all_params'), ('chempy/util/_expr.py', '_implicit_conversion'),
               ('chempy/util/_expr.py', 'Expr.__add__'), ('chempy/util/_expr.py', 'Expr.__sub__'), ('chempy/util/_expr.py', 'Expr.__mul__'),
               ('chempy/util/_expr.py', 'Expr.__truediv__'), ('chempy/util/_expr.py', 'Expr.__neg__'), ('chempy/util/_expr.py', 'Expr.__rsub__'),
               ('chempy/util/_expr.py', 'Expr.__rtruediv__'), ('chempy/util/_expr.py', 'Expr.__pow__'), ('chempy/util/_expr.py', 'Expr.__rpow__'),
               ('chempy/util/_expr.py', 'Expr.__eq__'), ('chempy/util/_expr.py', 'Expr.from_callback'),
               ('chempy/util/_expr.py', 'UnaryWrapper'), ('chempy/util/_expr.py', '_NegExpr.__call__'), ('chempy/util/_expr.py', '_NegExpr.rate_coeff'), ('chempy/util/_expr.py', '_BinaryExpr.__call__'), ('chempy/util/_expr.py', '_BinaryExpr.rate_coeff'),
               ('chempy/util/_expr.py', '_MulExpr'), ('chempy/util/_expr.py', 'Constant.trivially_zero'), ('chempy/util/_expr.py', 'Constant.__call__'), ('chempy/util/_expr.py', 'Constant.rate_coeff'), ('chempy/util/_expr.py', 'Symbol.__call__'),
               ('chempy/util/_expr.py', 'UnaryFunction'), ('chempy/util/_expr.py', 'Log10'), ('chempy/util/_expr.py', 'create_Piecewise'), ('chempy/util/_expr.py', 'create_Poly'),
               ('chempy/kinetics/rates.py', 'mk_Radiolytic'), ('chempy/kinetics/rates.py', 'MassAction.active_conc_prod'), ('chempy/kinetics/rates.py', 'MassAction.rate_coeff'), ('chempy/kinetics/rates.py', 'MassAction.__call__'), ('chempy/kinetics/rates.py', 'MassAction.from_callback'), ('chempy/kinetics/rates.py', 'MassAction.subclass_from_callback'), ('chempy/kinetics/rates.py', 'MassAction.get_named_keys'), ('chempy/kinetics/rates.py', 'Arrhenius.__call__'),
               ('chempy/kinetics/rates.py', 'Eyring.__call__'), ('chempy/kinetics/rates.py', 'EyringHS.__call__'), ('chempy/kinetics/rates.py', 'RampedTemp.__call__'),
               ('chempy/kinetics/rates.py', 'SinTemp.__call__'), ('chempy/thermodynamics/expressions.py', 'MassActionEq'),
               ('chempy/thermodynamics/expressions.py', 'GibbsEqConst'), ('chempy/kinetics/arrhenius.py', 'ArrheniusParam.as_RateExpr'),
               ('chempy/kinetics/eyring.py', 'EyringParam.as_RateExpr'), ('chempy/kinetics/_rates.py', None),
               ('chempy/chemistry.py', 'Reaction.order'), ('chempy/chemistry.py', 'Reaction.rate_expr'))

    # ---- generation --------------------------------------------------------------------------------------
    def generate(self, rng, n, tier):
        cases = []
        maxd = 3 if tier == 'quick' else 6
        n_tree = int(n * 0.54)
        for i in range(n_tree):
            mode = 'rat' if i % 2 == 0 else 'float'
            d = rng.randint(1, maxd)
            cases.append(Gen(rng, mode, tier).case(d))
        n_par = int(n * 0.1)
        for i in range(n_par):
            which = ('arrhenius', 'eyring', 'from_rateconst')[i % 3]
            T = float('%.7g' % rng.uniform(200, 2000))
            if which == 'arrhenius':
                a = [float('%.6g' % math.exp(rng.uniform(math.log(1e-3), math.log(1e16)))), float('%.6g' % rng.uniform(0, 2.5e5)), T]
            elif which == 'eyring':
                a = [float('%.6g' % rng.uniform(0, 2.5e5)), float('%.6g' % rng.uniform(-250, 150)), T]
            else:
                a = [float('%.6g' % rng.uniform(0, 2.5e5)), T, float('%.6g' % math.exp(rng.uniform(math.log(1e-8), math.log(1e8))))]
            cases.append({'kind': 'param', 'which': which, 'a': a})
        n_u = int(n * 0.07)
        for i in range(n_u):
            cases.append(self._units_case(rng, i))
        for i in range(int(n * 0.03)):
            cases.append(self._radiolytic_case(rng))
        for i in range(int(n * 0.05)):
            g = Gen(rng, 'rat' if i % 2 == 0 else 'float', tier)
            g.mag = 0
            cases.append(g.wrapper_case())
        for i in range(int(n * 0.04)):
            cases.append(self._override0_case(rng, i))
        for i in range(int(n * 0.03)):
            cases.append(self._eqeq_case(rng, 'rat' if i % 2 == 0 else 'float', tier))
        for i in range(max(len(API_TEMPLATES), int(n * 0.03))):
            cases.append({'kind': 'api', 'tmpl': API_TEMPLATES[i % len(API_TEMPLATES)],
                          'a': [float('%.5g' % rng.uniform(0.5, 9)) for _ in range(4)], 'T': float('%.7g' % rng.uniform(200, 2000)),
                          'conc': {sub: float('%.5g' % math.exp(rng.uniform(-4, 1))) for sub in SUBST},
                          'nu': [rng.randint(1, 2), rng.randint(1, 2), rng.randint(1, 3)]})
        for i in range(max(len(SYMPY_OPERANDS), int(n * 0.02))):
            cases.append({'kind': 'sympyop', 'operand': SYMPY_OPERANDS[i % len(SYMPY_OPERANDS)], 'op': rng.choice(['add', 'sub', 'mul', 'div', 'pow']),
                          'c': float('%.5g' % rng.uniform(0.5, 4)), 'vals': {v: float('%.5g' % rng.uniform(0.5, 3)) for v in 'xyz'}})
        for i in range(int(n * 0.03)):
            k = rng.choice([-1, 1]) * rng.randint(0, 30)
            cases.append({'kind': 'smallsum', 'tmpl': i % 4, 'k': k, 'T': float('%.7g' % rng.uniform(200, 2000)),
                          'A': float('%.6ge%d' % (rng.uniform(1, 9), k)), 'E': float('%.6g' % rng.uniform(100, 3000)),
                          'c': float('%.6ge%d' % (rng.uniform(1, 9) * rng.choice([1, -1]), k - rng.randint(0, 2))),
                          'p': [float('%.5g' % rng.uniform(0.5, 2)), float('%.5g' % rng.uniform(1e-4, 1e-2))]})
        n_ub = int(n * 0.05)
        for i in range(n_ub):
            cases.append(self._ubackend_case(rng, i))
        while len(cases) < n:
            cases.append(self._rxnrate_case(rng))
        return cases

    def _eqeq_case(self, rng, mode, tier):
        """MassActionEq / GibbsEqConst .equilibrium_equation(variables, equilibrium=Equilibrium(reac, prod))"""
        g = Gen(rng, mode, tier)
        g.mag = 0
        rat = mode == 'rat'
        r = rng.random()
        if rat or r < 0.6:
            a = g.arg(1)
            if a[0]['t'] == 'num' and isinstance(a[0]['v'], list) and rng.random() < 0.5:
                pass
            prog, _ = g.new('MassActionEq', [a], 'Q')
        else:
            g.var('temperature')
            prog, _ = g.new('GibbsEqConst', [({'t': 'num', 'v': float('%.6g' % rng.uniform(-3000, 3000))}, 'F'),
                                             ({'t': 'num', 'v': float('%.6g' % rng.uniform(-5, 5))}, 'F')], 'F')
        subs = rng.sample(SUBST, rng.randint(2, 3))
        k = rng.randint(1, len(subs) - 1)
        reac = [[s_, rng.randint(1, 3)] for s_ in subs[:k]]
        prod = [[s_, rng.randint(1, 3)] for s_ in subs[k:]]
        for s_ in subs:
            g.var(s_)
        names = sorted(g.vars)
        if rng.random() < 0.05 and names:
            names.remove(rng.choice(names))   # missing variable: KeyError
        return {'kind': 'eqeq', 'num': mode, 'prog': prog, 'vars': [[n_, g.vars[n_]] for n_ in names], 'reac': reac, 'prod': prod}

    def _radiolytic_case(self, rng):
        """multi-dose-rate Radiolytic classes, names in ARBITRARY order, distinct yields and dose rates"""
        pool = ['alpha', 'beta', 'gamma', 'neutron', 'x']
        names = rng.sample(pool, rng.randint(2, 4))
        return {'kind': 'radiolytic', 'names': names,
                'g': [float('%.6g' % rng.uniform(1e-8, 9e-7)) for _ in names],
                'doserate': [float('%.6g' % rng.uniform(0.01, 50)) for _ in names],
                'density': float('%.6g' % rng.uniform(0.7, 1.3))}

    def _override0_case(self, rng, i):
        """named overrides at the boundary: exactly 0 / 0.0 / -0.0, a zero quantity, a symbolic zero, array-valued"""
        return {'kind': 'override0',
                'cls': ('arrhenius', 'ma_arrhenius', 'arrp', 'shiftedpoly', 'ma_fk')[i % 5],
                'idx': rng.randint(0, 1),
                'val': rng.choice(['int0', 'float0', 'negzero', 'array', 'array0', 'sym0', 'qty0', 'nonzero']),
                'A': float('%.6g' % math.exp(rng.uniform(math.log(1e3), math.log(1e10)))),
                'E': float('%.6g' % rng.uniform(500, 9000)), 'T': float('%.7g' % rng.uniform(200, 2000)),
                'coef': [float('%.5g' % rng.uniform(-3, 3)) for _ in range(3)], 'Tref': float('%.5g' % rng.uniform(250, 400)),
                'cA': float('%.6g' % math.exp(rng.uniform(-4, 1))), 'order': rng.randint(1, 2)}

    def _ubackend_case(self, rng, i):
        """unit-carrying parameters whose ratio is an UNSIMPLIFIED dimensionless / temperature unit (kJ vs J, cal vs J, mM vs M)
        under math / patched_numpy / Backend() versus plain SI numbers"""
        tmpl = UB_TEMPLATES[i % len(UB_TEMPLATES)]
        return {'kind': 'ubackend', 'tmpl': tmpl, 'energy_unit': rng.choice(['kilojoule', 'kilojoule', 'joule', 'calorie']),
                'conc_unit': rng.choice(['molar', 'millimolar']), 'order': rng.randint(1, 3),
                'T': float('%.7g' % rng.uniform(200, 2000)),
                'A': float('%.6g' % math.exp(rng.uniform(math.log(1e3), math.log(1e12)))),
                'dH': float('%.6g' % rng.uniform(1e4, 1.2e5)), 'dS': float('%.6g' % rng.uniform(-120, 100)),
                'cA': float('%.6g' % math.exp(rng.uniform(-5, 1))), 'g': float('%.6g' % rng.uniform(1e-8, 5e-7)),
                'doserate': float('%.6g' % rng.uniform(0.01, 50)), 'density': float('%.6g' % rng.uniform(0.7, 1.3))}

    def _units_case(self, rng, i):
        tmpl = ('arrhenius', 'eyring', 'eyringhs', 'radiolytic', 'ramped', 'combo', 'param_arr', 'param_eyr', 'from_rateconst')[i % 9]
        reac = rng.choice([[['A', 1]], [['A', 2]], [['A', 1], ['B', 1]], [['A', 2], ['B', 1]]])
        return {'kind': 'units', 'tmpl': tmpl, 'reac': reac,
                'T': float('%.7g' % rng.uniform(200, 2000)),
                'A': float('%.6g' % math.exp(rng.uniform(math.log(1e3), math.log(1e12)))),
                'Ea': float('%.6g' % rng.uniform(5e3, 1.5e5)),
                'dH': float('%.6g' % rng.uniform(1e4, 1.2e5)), 'dS': float('%.6g' % rng.uniform(-150, 100)),
                'conc': {'A': float('%.6g' % math.exp(rng.uniform(-6, 2))), 'B': float('%.6g' % math.exp(rng.uniform(-6, 2)))},
                'conc_unit': rng.choice(['molar', 'millimolar', 'micromolar']),
                'time_unit': rng.choice(['second', 'minute', 'hour']),
                'g': float('%.6g' % rng.uniform(1e-8, 5e-7)), 'doserate': float('%.6g' % rng.uniform(0.01, 50)),
                'density': float('%.6g' % rng.uniform(0.7, 1.3)),
                'T0': float('%.6g' % rng.uniform(250, 400)), 'dTdt': float('%.6g' % rng.uniform(-2, 5)), 't': float('%.6g' % rng.uniform(0, 50)),
                's1': float(rng.choice([2, 3, 0.5])), 's2': float(rng.choice([2, 4, 5]))}

    def _rxnrate_case(self, rng):
        reac = rng.choice([[['A', 1]], [['A', 2]], [['A', 1], ['B', 1]], [['A', 2], ['B', 1]], [['A', 3]]])
        return {'kind': 'rxnrate', 'which': rng.choice(['arrhenius', 'eyring']), 'reac': reac,
                'prod': rng.choice([[['C', 1]], [['C', 2]], [['A', 1], ['C', 1]]]),
                'T': float('%.7g' % rng.uniform(200, 2000)),
                'p': [float('%.6g' % math.exp(rng.uniform(math.log(1e3), math.log(1e13)))), float('%.6g' % rng.uniform(5e3, 1.5e5)),
                      float('%.6g' % rng.uniform(-150, 100))],
                'conc': {s: float('%.6g' % math.exp(rng.uniform(-6, 2))) for s in SUBST},
                'override': rng.random() < 0.4, 'ov': float('%.6g' % math.exp(rng.uniform(0, 20)))}

    # ---- model side ----------------------------------------------------------------------------------------
    def model_case(self, c):
        k = c.get('kind')
        if k == 'tree':
            if c['num'] == 'float':
                prog = map_nums(c['prog'], f2b)
                vars_ = [[n, f2b(v)] for n, v in c['vars']]
            else:
                prog, vars_ = c['prog'], c['vars']
            return {'op': 'eval', 'num': c['num'], 'prog': prog, 'vars': vars_, 'rxn': c['rxn']}
        if k == 'param':
            return {'op': c['which'], 'a': [f2b(x) for x in c['a']]}
        if k == 'eqeq':
            if c['num'] == 'float':
                prog, vars_ = map_nums(c['prog'], f2b), [[n, f2b(v)] for n, v in c['vars']]
            else:
                prog, vars_ = c['prog'], c['vars']
            return {'op': 'eqeq', 'num': c['num'], 'prog': prog, 'vars': vars_, 'reac': c['reac'], 'prod': c['prod']}
        return None

    # ---- real code -----------------------------------------------------------------------------------------
    def _decode(self, mc):
        if mc['num'] == 'float':
            prog = map_nums(mc['prog'], b2f)
            vars_ = {n: b2f(v) for n, v in mc['vars']}
        else:
            prog = mc['prog']
            vars_ = {n: (Fraction(*v) if isinstance(v, list) else Fraction(v)) for n, v in mc['vars']}
        return prog, vars_

    def impl(self, mc):
        import math as _m
        import warnings
        warnings.filterwarnings('ignore', category=RuntimeWarning)
        if mc['op'] == 'eval':
            prog, vars_ = self._decode(mc)
            real = Real(mc['num'])
            try:
                obj = real.build(prog)
            except Exception as e:
                return '!py:' + exc_name(e)
            s = real.show(obj)
            try:
                v = value_text(mc['num'], real.call(obj, vars_, mc['rxn'], _m))
            except Exception as e:
                v = '!py:' + exc_name(e)
            return s + ' = ' + v
        if mc['op'] == 'eqeq':
            from chempy import Equilibrium
            prog, vars_ = self._decode(mc)
            real = Real(mc['num'])
            try:
                obj = real.build(prog)
            except Exception as e:
                return '!py:' + exc_name(e)
            try:
                eq = Equilibrium({k: v for k, v in mc['reac']}, {k: v for k, v in mc['prod']})
                return value_text(mc['num'], obj.equilibrium_equation(vars_, backend=_m, equilibrium=eq))
            except Exception as e:
                return '!py:' + exc_name(e)
        a = [b2f(x) for x in mc['a']]
        try:
            if mc['op'] == 'arrhenius':
                from chempy.kinetics.arrhenius import arrhenius_equation
                return float(arrhenius_equation(a[0], a[1], a[2], backend=_m))
            if mc['op'] == 'eyring':
                from chempy.kinetics.eyring import eyring_equation
                return float(eyring_equation(a[0], a[1], a[2], backend=_m))
            if mc['op'] == 'from_rateconst':
                from chempy.kinetics.arrhenius import ArrheniusParam
                return float(ArrheniusParam.from_rateconst_at_T(a[0], (a[1], a[2]), backend=_m).A)
        except Exception as e:
            return '!py:' + exc_name(e)
        return '!unknown-op'

    @staticmethod
    def _split_nums(s):
        import re
        parts = re.split(r'#(\d+)', s)
        return parts[0::2], [b2f(x) for x in parts[1::2]]

    def same(self, mc, io, mo):
        if mc['op'] == 'eqeq':
            if not isinstance(io, str) or not isinstance(mo, str):
                return False
            if mc['num'] == 'rat' or io.startswith('!') or mo.startswith('!'):
                return io == mo
            try:
                return close(b2f(io[1:]), b2f(mo[1:]), self.float_tol)
            except Exception:
                return False
        if mc['op'] != 'eval':
            if not isinstance(io, float):
                return False
            try:
                return close(io, b2f(mo), self.float_tol)
            except Exception:
                return False
        if not isinstance(io, str) or not isinstance(mo, str):
            return False
        if mc['num'] == 'rat':
            return io == mo
        if mo.endswith(' = !py:complex') and ' = ' in io:
            # a complex number is a value in Python (evaluation goes on: it may raise later, or the value may sit in an
            # unselected Piecewise branch); the real-number model stops there: only the structures are compared
            io, mo = io.split(' = ')[0], mo.split(' = ')[0]
        if mo.endswith(' = !py:ZeroDivisionError') and ' = #' in io and _has_qty(mc['prog']):
            # Eyring's default conc0 is a Quantity (a numpy array): dividing by such a zero gives inf/nan instead of raising, and the
            # evaluation goes on (x / inf = 0): only the structures are compared
            io, mo = io.split(' = ')[0], mo.split(' = ')[0]
        ti, ni = self._split_nums(io)
        tm, nm = self._split_nums(mo)
        return ti == tm and len(ni) == len(nm) and all(close(x, y, self.float_tol) for x, y in zip(ni, nm))

    # ---- the arithmetic meaning (oracle side; independent of the Lean model and of chempy) -------------------------
    def meaning(self, p, vars_, rxn, be):
        """`_meaning` + bookkeeping of the largest intermediate magnitude (conditioning of the float evaluation: x - (x + k) with
        |x| >> |k| loses k in floats but not symbolically; the comparison tolerance is widened by 1e-13 of that magnitude)"""
        r = self._meaning(p, vars_, rxn, be)
        if isinstance(r, float) and r == r and abs(r) != float('inf'):
            self._maxabs = max(getattr(self, '_maxabs', 0.0), abs(r))
        return r

    def _meaning(self, p, vars_, rxn, be):
        """plain arithmetic value of a build program. `be`: module with exp/log10/sin. Raises Skip when undefined."""
        M = lambda q: self.meaning(q, vars_, rxn, be)
        t = p['t']
        if t == 'num':
            return p['v']
        if t == 'str':
            if p['v'] not in vars_:
                raise Skip('missing variable')
            return vars_[p['v']]
        if t == 'op':
            for side in ('a', 'b'):        # a Fraction is the harness' exactness device, not an int/float: no claim for it as a bare operand
                if side in p and p[side]['t'] == 'num' and isinstance(p[side]['v'], Fraction):
                    raise Skip('bare Fraction operand')
            if p['o'] == 'sub':
                qb = _strip(p['b'])
                if qb['t'] == 'new' and qb['k']['c'] == 'Mul' and qb['args'] and 'l' in qb['args'] and qb['args']['l'] \
                        and qb['args']['l'][0]['t'] == 'num' and isinstance(qb['args']['l'][0]['v'], Fraction):
                    raise Skip('x - _MulExpr([Fraction, ...]): the Fraction (harness device) meets _implicit_conversion in Expr.__eq__')
            if p['o'] in ('sub', 'mul', 'div'):
                for side in ('a', 'b'):     # UnaryWrapper: "can only be used when unique_keys are None" (documented ValueError)
                    q = _strip(p[side])
                    if q['t'] == 'new' and q['k']['c'] == 'MassAction' and (q['uk'] is not None or q['args'] is None):
                        # UnaryWrapper arithmetic on a wrapper that carries unique keys: the code REFUSES it (ValueError "can only be
                        # used when unique_keys are None").  Acceptable outcomes: that refusal, or -- if an expression is built -- the
                        # value with exactly the named argument replaced (computed below like for any other operand)
                        self._refusal_ok = True
                    if (side == 'b' and p['o'] == 'sub' and q['t'] == 'new' and q['k']['c'] == 'MassAction' and q['args'] and 'l' in q['args']
                            and len(q['args']['l']) == 1 and q['args']['l'][0]['t'] == 'num' and isinstance(q['args']['l'][0]['v'], Fraction)):
                        raise Skip('x - MassAction([Fraction]): the Fraction meets _implicit_conversion in `other == other*0`')
            if p['o'] in ('mul', 'div') and self._is_ma(p):
                # UnaryWrapper (test_rates.py::test_MassAction__expression): arithmetic with a MassAction acts on its rate
                # coefficient -- `x / MassAction(k)` IS MassAction(x / k) -- the result is again a MassAction
                return self.coefficient(p, vars_, rxn, be) * self._concprod(vars_, rxn)
            a = M(p['a'])
            if p['o'] == 'neg':
                return -a
            b = M(p['b'])
            o = p['o']
            if o == 'add':
                return a + b
            if o == 'sub':
                return a - b
            if o == 'mul':
                return a * b
            if o == 'div':
                if b == 0:
                    raise Skip('division by zero')
                return a / b
            if o == 'pow':
                if a == 0 and b < 0:
                    raise Skip('0 ** negative')
                if a < 0 and b != int(b):
                    raise Skip('complex')
                return a ** b
        def order():
            if not isinstance(rxn, list):
                raise Skip('no reaction')
            return sum(v for _, v in rxn)

        def concprod():
            if not isinstance(rxn, list):
                raise Skip('no reaction')
            r = 1
            for k, v in rxn:
                if k not in vars_:
                    raise Skip('missing variable')
                r = r * vars_[k] ** v
            return r

        def V(name):
            if name not in vars_:
                raise Skip('missing variable')
            return vars_[name]

        def arguments(n, given, uk, defaults):
            """the specification of a named override: argument i is variables[uk[i]] when that key is present,
            otherwise the stored argument (or, for an omitted trailing argument, the class default)."""
            out = []
            if given is not None:          # construction is eager: every stored argument must itself be well-formed
                for g in given:
                    g()
            for i in range(n):
                if uk is not None and i < len(uk) and uk[i] in vars_:
                    out.append(vars_[uk[i]])
                elif given is not None and i < len(given):
                    out.append(given[i]())
                elif given is not None and defaults and i >= n - len(defaults):
                    out.append(defaults[i - (n - len(defaults))])
                elif given is None and uk is not None and i >= len(uk) and defaults and i >= n - len(defaults):
                    out.append(defaults[i - (n - len(defaults))])
                else:
                    raise Skip('argument %d is not determined' % i)
            return out

        if t == 'arrp':
            if p['uk'] is not None and len(p['uk']) > 2:
                raise Skip('more unique keys than arguments: refused by Expr.__init__')
            A, E = arguments(2, [lambda: p['A'], lambda: p['Ea'] / R_GAS], p['uk'], None)
            return A * be.exp(-E / V('temperature')) * concprod()
        if t == 'eyrp':
            if p['uk'] is not None and len(p['uk']) > 3:
                raise Skip('more unique keys than arguments: refused by Expr.__init__')
            # Eyring has three arguments: a third unique key overrides conc0 (default 1 molar)
            c0, c1, conc0 = arguments(3, [lambda: KB_OVER_H * be.exp(p['dS'] / R_GAS), lambda: p['dH'] / R_GAS, lambda: 1], p['uk'], None)
            return c0 * V('temperature') * be.exp(-c1 / V('temperature')) * conc0 ** (1 - order()) * concprod()
        assert t == 'new'
        k = p['k']
        c = k['c']
        a = p['args']
        uk = p['uk']
        if a is None:
            given = None
        elif 'l' in a:
            given = [(lambda q=q: M(q)) for q in a['l']]
        else:
            if a['s']['t'] == 'num' and isinstance(a['s']['v'], Fraction):
                raise Skip('bare Fraction argument')
            given = [lambda: M(a['s'])]
        if c == 'Constant':
            if given is None or len(given) != 1 or (a.get('l') or [a.get('s')])[0]['t'] != 'num':
                raise Skip('odd Constant')
            return given[0]()
        if c == 'Symbol':
            if not uk or len(uk) != 1:
                raise Skip('odd Symbol')
            return V(uk[0])
        fixed = {'MassAction': 1, 'Arrhenius': 2, 'Eyring': 3, 'EyringHS': 3, 'RampedTemp': 2, 'SinTemp': 4, 'MassActionEq': 1,
                 'GibbsEqConst': 2, 'Log10': 1, 'Exp': 1}
        defaults = [1] if c in ('Eyring', 'EyringHS') else None
        if c == 'Radiolytic':
            n = len(k['names'])
        elif c in fixed:
            n = fixed[c]
        else:
            if given is None:
                raise Skip('no stored arguments')
            n = len(given)
        if given is not None and c in fixed or c == 'Radiolytic':
            ng = len(given) if given is not None else None
            if ng is not None and not (ng == n or (defaults and ng == n - 1)):
                raise Skip('wrong number of arguments')
        if uk is not None and (c in fixed or c == 'Radiolytic') and len(uk) > n:
            raise Skip('too many unique keys')
        if given is None and c in ('Eyring', 'EyringHS') and uk is not None and len(uk) < 2:
            raise Skip('arguments not determined')
        args = arguments(n, given, uk, defaults)
        if c == 'Poly':
            x = V(k['param'])
            if k['shift']:
                if not args:
                    raise Skip('no shift')
                x = x - args[0]
                args = args[1:]
            if not args:
                raise Skip('empty polynomial')
            if k['recip'] and x == 0:
                raise Skip('1/0')
            tot = None
            for i, cf in enumerate(args):
                term = cf * (x ** (-i if k['recip'] else i))
                tot = term if tot is None else tot + term
            return tot
        if c == 'Piecewise':
            x = V(k['param'])
            if len(args) < 3 or len(args) % 2 == 0:
                raise Skip('malformed piecewise')
            for i in range((len(args) - 1) // 2):
                if args[2 * i] <= x <= args[2 * i + 2]:
                    return args[2 * i + 1]
            raise Skip('outside every interval')
        if c == 'MassAction':
            return args[0] * concprod()
        if c == 'MassActionEq':
            return args[0]
        if c == 'Mul':
            if len(args) != 2:
                raise Skip('arity')
            return args[0] * args[1]
        if c == 'Arrhenius':
            return args[0] * be.exp(-args[1] / V('temperature'))
        if c == 'Eyring':
            T = V('temperature')
            return args[0] * T * be.exp(-args[1] / T) * args[2] ** (1 - order())
        if c == 'EyringHS':
            T, Rg, kB, h = V('temperature'), V('molar_gas_constant'), V('Boltzmann_constant'), V('Planck_constant')
            return kB * T / h * be.exp(args[1] / Rg) * be.exp(-args[0] / (Rg * T)) * args[2] ** (1 - order())
        if c == 'Radiolytic':
            tot = 0
            for nm, g in zip(k['names'], args):
                tot = tot + V('doserate' + ('' if nm == '' else '_' + nm)) * g
            return V('density') * tot
        if c == 'RampedTemp':
            return args[0] + args[1] * V('time')
        if c == 'SinTemp':
            return args[0] + args[1] * be.sin(args[2] * V('time') + args[3])
        if c == 'GibbsEqConst':
            return be.exp(args[1] - args[0] / V('temperature'))
        if c == 'Log10':
            if args[0] <= 0:
                raise Skip('log of a non-positive number')
            return be.log10(args[0])
        if c == 'Exp':
            return be.exp(args[0])
        raise Skip('class ' + c)

    @staticmethod
    def _concprod(vars_, rxn):
        if not isinstance(rxn, list):
            raise Skip('no reaction')
        r = 1
        for k, v in rxn:
            if k not in vars_:
                raise Skip('missing variable')
            r = r * vars_[k] ** v
        return r

    def coefficient(self, p, vars_, rxn, be):
        """rate coefficient of a program that builds a MassAction instance"""
        p = _strip(p)
        M = lambda q: self.meaning(q, vars_, rxn, be)
        if p['t'] == 'op' and p['o'] in ('mul', 'div'):
            a, b = p['a'], p['b']
            for q in (a, b):
                if q['t'] == 'num' and isinstance(q['v'], Fraction):
                    raise Skip('bare Fraction operand')
            if self._is_ma(a):
                ka, vb = self.coefficient(a, vars_, rxn, be), M(b)
                if p['o'] == 'mul':
                    return ka * vb
                if vb == 0:
                    raise Skip('division by zero')
                return ka / vb
            va, kb = M(a), self.coefficient(b, vars_, rxn, be)
            if p['o'] == 'mul':
                return kb * va
            if kb == 0:
                raise Skip('division by zero')
            return va / kb
        if p['t'] == 'new' and p['k']['c'] == 'MassAction' and (p['uk'] is not None or p['args'] is None):
            self._refusal_ok = True       # (see `_meaning`: refusal, or the override replaces exactly the rate constant)
        cp = self._concprod(vars_, rxn)
        v = M(p)
        if cp == 0:
            raise Skip('zero concentration product')
        return v / cp

    def _eq(self, mode, got, want, tol=None):
        tol = tol or self.float_tol
        if hasattr(got, 'magnitude'):
            got = float(got.magnitude)
        if mode == 'rat':
            if isinstance(got, (int, Fraction)):
                return Fraction(got) == Fraction(want)
            tol = 1e-12          # the real code divided two ints somewhere: a float, numerically the same number
        try:
            return close(float(got), float(want), tol, 1e-13 * getattr(self, '_maxabs', 0.0))
        except Exception:
            return False

    # ---- the property on the real code ------------------------------------------------------------------------
    def oracle(self, c):
        import warnings
        warnings.filterwarnings('ignore', category=RuntimeWarning)
        k = c.get('kind')
        if k == 'tree':
            return self._oracle_tree(c)
        if k == 'param':
            return self._oracle_param(c)
        if k == 'units':
            return self._oracle_units(c)
        if k == 'rxnrate':
            return self._oracle_rxnrate(c) or self._oracle_mutable(c)
        if k == 'ubackend':
            return self._oracle_ubackend(c)
        if k == 'radiolytic':
            return self._oracle_radiolytic(c)
        if k == 'override0':
            return self._oracle_override0(c)
        if k == 'smallsum':
            return self._oracle_smallsum(c)
        if k == 'api':
            return self._oracle_api(c)
        if k == 'eqeq':
            return self._oracle_eqeq(c)
        if k == 'sympyop':
            return self._oracle_sympyop(c)
        return None

    def _oracle_eqeq(self, c):
        """equilibrium_equation = K - prod(products ** nu) / prod(reactants ** nu), K = the arithmetic meaning of the instance"""
        from chempy import Equilibrium
        import numpy as np
        mode = c['num']
        real = Real(mode)
        prog = map_nums(c['prog'], real.num)
        vars_ = {n: (real.num(v) if mode == 'float' else Fraction(real.num(v))) for n, v in c['vars']}
        self._maxabs, self._refusal_ok = 0.0, False
        try:
            K = self.meaning(prog, vars_, None, math)
            if not c['reac'] and not c['prod']:
                return None
            q = 1
            for k, v in c['prod']:
                q = q * vars_[k] ** v
            for k, v in c['reac']:
                q = q / vars_[k] ** v
        except (Skip, KeyError, ZeroDivisionError, OverflowError, ValueError):
            return None
        want = K - q
        try:
            obj = real.build(c['prog'])
            eq = Equilibrium({k: v for k, v in c['reac']}, {k: v for k, v in c['prod']})
            for bn, be in (('math', math), ('numpy', np)):
                got = obj.equilibrium_equation(vars_, backend=be, equilibrium=eq)
                if not self._eq(mode, got, want):
                    return '%s.equilibrium_equation(%r) with backend %s = %r, K - quotient = %r' % (real.show(obj), c['vars'], bn, got, want)
        except Exception as e:
            return 'equilibrium_equation raised %s: %s' % (exc_name(e), str(e)[:100])
        return None

    def _oracle_sympyop(self, c):
        """`expr op <sympy object>`: `_implicit_conversion` turns a sympy Symbol / Float / two-argument Add, Mul / Pow into the
        corresponding Expr; evaluation with numbers then gives the arithmetic meaning.  Documented refusals (NotImplementedError):
        sympy Integer / Rational atoms, Add / Mul with more than two arguments."""
        import sympy, operator
        from chempy.util._expr import Symbol, Expr
        vals, cc = c['vals'], c['c']
        y, z = sympy.Symbol('y'), sympy.Symbol('z')
        kind = c['operand']
        if kind in SYMPY_PENDING:
            return None
        obj, val, refuse = {
            'symbol': (y, vals['y'], False), 'float': (sympy.Float(cc), cc, False), 'add2': (y + z, vals['y'] + vals['z'], False),
            'mul2': (y * z, vals['y'] * vals['z'], False), 'mulfloat': (sympy.Float(cc) * y, cc * vals['y'], False),
            'pow': (y ** z, vals['y'] ** vals['z'], False), 'powfloat': (y ** sympy.Float(2.0), vals['y'] ** 2.0, False),
            'left': (y, vals['y'], False), 'mul3': (sympy.Float(cc) * y * z, None, True), 'add3': (sympy.Float(cc) + y + z, None, True),
            'integer': (sympy.Integer(2) * y, None, True), 'rational': (sympy.Rational(1, 2), None, True),
            'nested': ((y + sympy.Float(cc)) * z, (vals['y'] + cc) * vals['z'], False)}[kind]
        x = Symbol(unique_keys=('x',))
        f = {'add': operator.add, 'sub': operator.sub, 'mul': operator.mul, 'div': operator.truediv, 'pow': operator.pow}[c['op']]
        if kind == 'left':
            # limitation (refusal, no wrong value): a sympy object as LEFT operand -- sympy's sympify calls Expr.__float__ =
            # float(self({})), which raises KeyError for an unbound Symbol instead of TypeError, so __radd__ is never reached
            try:
                e = f(obj, x)
            except KeyError:
                return None
            except Exception as ex:
                return '%s %s x raised %s (the refusal on /repo is KeyError)' % (obj, c['op'], exc_name(ex))
            if not isinstance(e, Expr):
                return '%s %s x gives %r, not an Expr' % (obj, c['op'], e)
            got = float(e(dict(vals)))
            want = f(val, vals['x'])
            return None if close(got, want, 1e-9) else '(%s %s x)(%r) = %r, arithmetic meaning %r' % (obj, c['op'], vals, got, want)
        try:
            e = f(x, obj)
        except NotImplementedError as ex:
            return None if refuse else 'x %s %s raised NotImplementedError (%s)' % (c['op'], obj, str(ex)[:60])
        except Exception as ex:
            return 'x %s %s raised %s: %s' % (c['op'], obj, exc_name(ex), str(ex)[:80])
        if refuse:
            return 'x %s %s was converted (%r) although the conversion is documented as not implemented' % (c['op'], obj, e)
        if not isinstance(e, Expr):
            return 'x %s %s is not an Expr: %r' % (c['op'], obj, e)
        want = f(vals['x'], val)
        import numpy as np
        for bn, be in (('math', math), ('numpy', np), ('sympy', sympy)):
            try:
                got = float(e(dict(vals), backend=be))
            except Exception as ex:
                return '(x %s %s)(%r, backend=%s) raised %s' % (c['op'], obj, vals, bn, exc_name(ex))
            if not close(got, want, 1e-9):
                return '(x %s %s)(%r, backend=%s) = %r, arithmetic meaning %r' % (c['op'], obj, vals, bn, got, want)
        return None

    def _oracle_api(self, c):
        """the remaining public entry points of the anchored classes, each judged against its defining formula / documented refusal"""
        import warnings, numpy as np
        from chempy import Reaction, Equilibrium
        from chempy.util._expr import Expr, UnaryWrapper, Constant, Symbol, Log10, Exp
        from chempy.kinetics.rates import MassAction, Arrhenius, Eyring, mk_Radiolytic, RateExpr
        from chempy.thermodynamics.expressions import MassActionEq, GibbsEqConst
        warnings.filterwarnings('ignore', category=DeprecationWarning)
        t, a, T, conc, nu = c['tmpl'], c['a'], c['T'], c['conc'], c['nu']
        rxn = Reaction({'A': nu[0], 'B': nu[1]}, {'C': nu[2]})
        prod = conc['A'] ** nu[0] * conc['B'] ** nu[1]
        v = dict(conc, temperature=T)

        def bad(msg):
            return 'api/%s: %s' % (t, msg)
        try:
            if t == 'arg_by_name':          # Expr.arg(variables, 'name') = the argument of that name
                arr = Arrhenius([a[0], a[1] * 100], unique_keys=('kA',))
                for i, nm in enumerate(Arrhenius.argument_names):
                    if arr.arg(v, nm) != arr.all_args(v)[i]:
                        return bad('arg(%r) = %r, all_args()[%d] = %r' % (nm, arr.arg(v, nm), i, arr.all_args(v)[i]))
                if arr.arg(dict(v, kA=a[2]), 'A') != a[2]:
                    return bad('arg("A") ignores the override')
            elif t == 'eq':                 # Expr.__eq__: same class + same arguments (key-only: same keys)
                mk = lambda: [Arrhenius([a[0], a[1]]), MassAction([a[0]]), MassAction.fk('kf'), Constant(a[0]), Arrhenius([a[0], a[1]], ('p', 'q'))]
                l1, l2 = mk(), mk()
                for i, x in enumerate(l1):
                    for j, y in enumerate(l2):
                        if (x == y) != (i == j or {i, j} == {0, 4}):
                            return bad('%r == %r is %r' % (x, y, x == y))
                from chempy.util._expr import create_Poly
                PX = create_Poly('x')
                if PX([a[0], a[1]]) == PX([a[0], a[1], a[2]]) or not (PX([a[0], a[1]]) == PX([a[0], a[1]])):
                    return bad('polynomials with different numbers of coefficients / equal coefficients')
                if MassAction.fk('kf') == MassAction.fk('kb') or MassAction.fk('kf') == MassAction([a[0]]) or \
                        MassAction([a[0]]) == MassAction.fk('kf') or Arrhenius([a[0], a[1]]) == Arrhenius([a[0], a[2]]):
                    return bad('unequal expressions compare equal')
            elif t == 'rate_coeff':         # rate_coeff of combinations = the same combination of the rate coefficients
                m1, m2 = MassAction([a[0]]), MassAction(Arrhenius([a[1], a[2] * 100]))
                k1, k2 = a[0], a[1] * math.exp(-a[2] * 100 / T)
                for e, want in ((m1 + m2, k1 + k2), (m1 - m2, k1 - k2), (-m1, -k1), (m2 + Constant(a[3]), k2 + a[3])):
                    got = e.rate_coeff(v, reaction=rxn)
                    got = got[0] if isinstance(got, tuple) else got
                    if not close(float(got), want, 1e-12):
                        return bad('%r.rate_coeff = %r, expected %r' % (e, got, want))
                got = Log10([MassAction([a[0]])]).rate_coeff(v, backend=math)
                if not close(float(got), math.log10(a[0]), 1e-12):
                    return bad('Log10([MassAction]).rate_coeff = %r' % (got,))
            elif t == 'named_keys':
                if MassAction([a[0]], ['kf']).get_named_keys() != ('kf',) or MassAction([a[0]]).get_named_keys() is not None:
                    return bad('get_named_keys of a MassAction with / without unique keys')
                if tuple(MassAction(Symbol(unique_keys=('kf',))).get_named_keys() or ()) not in ((), ('kf',)):
                    return bad('get_named_keys of MassAction(Symbol)')
            elif t in ('ma_from_callback', 'ma_subclass_from_callback'):
                # a rate constant given by a callback: value = callback(args, params) * conc product
                if t == 'ma_from_callback':
                    F = MassAction.from_callback(lambda args, T_, backend=math, **kw: args[0] * backend.exp(-args[1] / T_),
                                                 parameter_keys=('temperature',), nargs=2)
                else:
                    F = MassAction.subclass_from_callback(
                        lambda variables, all_args, backend=math, **kw: all_args[0] * backend.exp(-all_args[1] / variables['temperature']),
                        cls_attrs=dict(parameter_keys=('temperature',), nargs=2))
                ma = F([a[0], a[1] * 100])
                want = a[0] * math.exp(-a[1] * 100 / T) * prod
                for be in (math, np):
                    got = float(ma(v, backend=be, reaction=rxn))
                    if not close(got, want, 1e-12):
                        return bad('value %r, callback * concentration product = %r' % (got, want))
                if not isinstance(ma, MassAction):
                    return bad('not a MassAction')
            elif t == 'uw_from_callback':   # UnaryWrapper.from_callback: the wrapper around a callback expression; scaling acts inside
                class W1(UnaryWrapper):
                    nargs = 1
                F = W1.from_callback(lambda args, x, backend=math, **kw: args[0] * x, parameter_keys=('x',), nargs=1)
                w = F([a[0]])
                if not isinstance(w, UnaryWrapper) or len(w.args) != 1:
                    return bad('not a UnaryWrapper around one expression')
                if not close(float(w.args[0]({'x': a[1]})), a[0] * a[1], 1e-12):
                    return bad('wrapped callback value')
                w2 = w * 2
                if not isinstance(w2, UnaryWrapper) or not close(float(w2.args[0]({'x': a[1]})), 2 * a[0] * a[1], 1e-12):
                    return bad('(wrapper * 2) does not wrap 2 * inner')
            elif t == 'uw_nargs':           # refusal: UnaryWrapper arithmetic needs nargs == 1
                class W2(UnaryWrapper):
                    nargs = 2
                for f in (lambda: W2([a[0], a[1]]) * 2, lambda: W2([a[0], a[1]]) / 2, lambda: 2 / W2([a[0], a[1]])):
                    try:
                        f()
                        return bad('arithmetic on a UnaryWrapper with nargs = 2 was not refused')
                    except ValueError:
                        pass
            elif t == 'init_refusals':      # the ValueErrors of Expr.__init__
                Unb = Expr.from_callback(lambda args, backend=math, **kw: sum(args), nargs=-1, argument_defaults=(1,), argument_names=('p', Ellipsis))
                TooMany = Expr.from_callback(lambda args, backend=math, **kw: args[0], argument_names=('p',), argument_defaults=(1, 2))
                for f, what in ((lambda: Unb([a[0]]), 'defaults with an unbounded number of arguments'),
                                (lambda: TooMany([a[0]]), 'more defaults than arguments'),
                                (lambda: Arrhenius([a[0], a[1]], unique_keys=('p', 'q', 'r')), 'more unique keys than arguments'),
                                (lambda: Arrhenius([a[0]]), 'too few arguments'), (lambda: Arrhenius([a[0], a[1], a[2]]), 'too many arguments')):
                    try:
                        f()
                        return bad('%s: not refused' % what)
                    except ValueError:
                        pass
                try:
                    MassAction.fk('kf')(v, reaction=rxn)
                    return bad('a key-only MassAction without its key in the variables was evaluated')
                except KeyError:
                    pass
                if MassAction('kname')(dict(v, kname=a[0]), reaction=rxn) != a[0] * prod and \
                        not close(float(MassAction('kname')(dict(v, kname=a[0]), reaction=rxn)), a[0] * prod, 1e-12):
                    return bad("MassAction('kname') does not look its str argument up in the variables")
            elif t == 'g_value':            # deprecated single-yield accessor
                R1 = mk_Radiolytic()
                if R1([a[0] * 1e-7]).g_value({}) != a[0] * 1e-7 or R1([a[0]], ['g']).g_value({'g': a[1]}) != a[1]:
                    return bad('g_value')
            elif t in ('equilibrium', 'gibbs_equilibrium', 'eq_from_callback'):
                # MassActionEq.equilibrium_equation = K - prod(products^nu) / prod(reactants^nu); eq_const / __call__ = K
                eq = Equilibrium({'A': nu[0], 'B': nu[1]}, {'C': nu[2]})
                quot = conc['C'] ** nu[2] / (conc['A'] ** nu[0] * conc['B'] ** nu[1])
                if t == 'equilibrium':
                    me, K = MassActionEq([a[0]]), a[0]
                elif t == 'gibbs_equilibrium':
                    me, K = GibbsEqConst([a[0] * 300, a[1]]), math.exp(a[1] - a[0] * 300 / T)
                else:
                    F = MassActionEq.from_callback(lambda args, T_, backend=math, **kw: args[0] * backend.exp(-args[1] / T_),
                                                   parameter_keys=('temperature',), nargs=2)
                    me, K = F([a[0], a[1] * 100]), a[0] * math.exp(-a[1] * 100 / T)
                for be in (math, np):
                    if not close(float(me(v, backend=be)), K, 1e-12) or not close(float(me.eq_const(v, backend=be)), K, 1e-12):
                        return bad('eq_const = %r, expected %r' % (me(v, backend=be), K))
                    got = float(me.equilibrium_equation(v, backend=be, equilibrium=eq))
                    if not close(got, K - quot, 1e-12, 1e-12 * max(K, quot)):
                        return bad('equilibrium_equation = %r, K - quotient = %r' % (got, K - quot))
                import sympy
                sv = {k_: sympy.Symbol('v_' + k_, positive=True) for k_ in v}
                se = me.equilibrium_equation(sv, backend=sympy, equilibrium=eq).subs({sv[k_]: sympy.Float(x_, 30) for k_, x_ in v.items()})
                if not close(float(se), K - quot, 1e-9, 1e-12 * max(K, quot)):
                    return bad('equilibrium_equation symbolically then substituted = %r, K - quotient = %r' % (float(se), K - quot))
            else:                           # Reaction.rate_expr(): an Expr param is used as it is, a str names the rate constant, a number is it
                if t == 'rxn_param_expr':
                    par, k, extra = MassAction(Arrhenius([a[0], a[1] * 100])), a[0] * math.exp(-a[1] * 100 / T), {}
                elif t == 'rxn_param_str':
                    par, k, extra = 'k_fwd', a[0], {'k_fwd': a[0]}
                else:
                    par, k, extra = a[0], a[0], {}
                r = Reaction({'A': nu[0], 'B': nu[1]}, {'C': nu[2]}, par)
                ratex = r.rate_expr()
                if not isinstance(ratex, MassAction) or (t == 'rxn_param_expr' and ratex is not par):
                    return bad('rate_expr() = %r' % (ratex,))
                rates = r.rate(dict(v, **extra))
                for sub, net in (('A', -nu[0]), ('B', -nu[1]), ('C', nu[2])):
                    if not close(float(rates[sub]), k * prod * net, 1e-12):
                        return bad('rate()[%s] = %r, k * prod * net = %r' % (sub, rates[sub], k * prod * net))
        except Exception as e:
            return bad('raised %s: %s' % (exc_name(e), str(e)[:120]))
        return None

    def _oracle_smallsum(self, c):
        """sums whose terms live at a common magnitude 10**k, -30 <= k <= 30 (e.g. gas-phase constants in cm3/molecule/s):
        no term may be dropped -- judged against the closed formula, under math, numpy and sympy-then-substituted"""
        from chempy.kinetics.rates import Arrhenius
        from chempy.util._expr import create_Poly, Constant
        import numpy as np, sympy
        A, E, cc, p, T, t = c['A'], c['E'], c['c'], c['p'], c['T'], c['tmpl']
        arr = Arrhenius([A, E])
        kT = A * math.exp(-E / T)
        try:
            if t == 0:
                expr, want = arr + cc * create_Poly('temperature')(p), kT + cc * (p[0] + p[1] * T)
            elif t == 1:
                expr, want = arr + Constant(cc), kT + cc
            elif t == 2:
                expr, want = cc + arr, cc + kT
            else:
                expr, want = (arr + cc) - create_Poly('temperature')([cc * p[0]]) * 2, kT + cc - 2 * cc * p[0]
            v = {'temperature': T}
            for bn, be in (('math', math), ('numpy', np)):
                got = float(expr(v, backend=be))
                if not close(got, want, 1e-9):
                    return 'magnitude 1e%d: %r evaluates to %r with backend %s, the sum of its terms is %r' % (c['k'], expr, got, bn, want)
            Ts = sympy.Symbol('T', positive=True)
            got = float(expr({'temperature': Ts}, backend=sympy).subs(Ts, sympy.Float(T, 30)))
            if not close(got, want, 1e-9):
                return 'magnitude 1e%d: %r symbolically then substituted gives %r, the sum of its terms is %r' % (c['k'], expr, got, want)
        except Exception as e:
            return 'smallsum raised %s: %s' % (exc_name(e), str(e)[:100])
        return None

    def _oracle_radiolytic(self, c):
        """defining formula (docstring of mk_Radiolytic / rates.py): rate = density * sum_i G_i * doserate_i, where G_i is the yield
        for the dose rate of the SAME name -- list arguments, dict arguments, g_values(), every backend, with units"""
        from chempy.kinetics.rates import mk_Radiolytic
        from chempy.units import default_units as u, to_unitless
        import numpy as np, sympy
        names, g, dr, rho = c['names'], c['g'], c['doserate'], c['density']
        want = rho * sum(gi * di for gi, di in zip(g, dr))
        try:
            Rad = mk_Radiolytic(*names)
            variables = {'density': rho}
            for nm, d in zip(names, dr):
                variables['doserate_' + nm] = d
            by_list = Rad(list(g))
            by_dict = Rad({'radiolytic_yield_' + nm: gi for nm, gi in zip(names, g)})
            for how, obj in (('list', by_list), ('dict', by_dict)):
                for bn, be in (('math', math), ('numpy', np)):
                    got = obj(variables, backend=be)
                    if not close(float(got), want, 1e-12):
                        return ('mk_Radiolytic%r(%s args %r)(%r, backend=%s) = %r, defining formula density*sum(G_i*doserate_i) = %r'
                                % (tuple(names), how, g, variables, bn, float(got), want))
                syms = {k: sympy.Symbol('v_' + k, positive=True) for k in variables}
                sv = obj(syms, backend=sympy).subs({syms[k]: sympy.Float(v, 30) for k, v in variables.items()})
                if not close(float(sv), want, 1e-12):
                    return 'mk_Radiolytic%r (%s args), sympy then substituted: %r, defining formula %r' % (tuple(names), how, float(sv), want)
                gv = obj.g_values(variables)
                for nm, gi in zip(names, g):
                    if 'doserate_' + nm not in gv or gv['doserate_' + nm] != gi:
                        return 'mk_Radiolytic%r(%s).g_values() = %r: the yield of %s is %r' % (tuple(names), how, dict(gv), nm, gi)
            dims = by_list.args_dimensionality(None)      # a yield is an amount per energy (mol/J = mol s2 kg-1 m-2), one entry per yield
            want_dim = {'length': -2, 'mass': -1, 'time': 2, 'amount': 1}
            if len(dims) != len(names) or any({k: v for k, v in d.items() if v != 0} != want_dim for d in dims):
                return 'mk_Radiolytic%r.args_dimensionality() = %r, expected amount/energy for each of the %d yields' % (tuple(names), dims, len(names))
            vq = {'density': rho * u.kg / u.dm3}
            for nm, d in zip(names, dr):
                vq['doserate_' + nm] = d * u.Gy / u.s
            got = to_unitless(Rad([gi * u.mol / u.J for gi in g])(vq), u.molar / u.s)
            if not close(float(got), want, 1e-9):
                return 'mk_Radiolytic%r with units: %r, defining formula %r' % (tuple(names), float(got), want)
        except Exception as e:
            return 'radiolytic check raised %s: %s' % (exc_name(e), str(e)[:120])
        return None

    def _oracle_override0(self, c):
        """a named override replaces exactly that argument -- also when its value is 0, 0.0, -0.0, a zero quantity, a symbolic zero or
        an array (arrays evaluate element-wise); judged against the closed formula with that argument replaced"""
        from chempy import Reaction
        from chempy.kinetics.rates import MassAction, Arrhenius
        from chempy.kinetics.arrhenius import ArrheniusParam
        from chempy.util._expr import create_Poly
        from chempy.units import default_units as u, to_unitless
        import numpy as np, sympy
        A, E, T, idx, val, cls = c['A'], c['E'], c['T'], c['idx'], c['val'], c['cls']
        order = c['order']
        rxn = Reaction({'A': order}, {'P': 1})
        prod = c['cA'] ** order
        be, post = math, float
        # the override value and its plain-number meaning (scalar or array)
        if val == 'int0':
            ov, num = 0, 0.0
        elif val == 'float0':
            ov, num = 0.0, 0.0
        elif val == 'negzero':
            ov, num = -0.0, 0.0
        elif val == 'nonzero':
            ov, num = 1.5, 1.5
        elif val in ('array', 'array0'):
            num = np.array([0.0, 2.0, 0.5]) if val == 'array0' else np.array([1.0, 2.0, 0.5])
            ov, be, post = num.copy(), np, (lambda x: np.asarray(getattr(x, 'magnitude', x), dtype=float))
        elif val == 'sym0':
            ov, num, be, post = sympy.Float(0), 0.0, sympy, (lambda x: float(x))
        else:          # 'qty0': a zero quantity of the argument's own unit
            ov, num = None, 0.0
        try:
            variables = {'temperature': T, 'A': c['cA']}
            if cls in ('arrhenius', 'ma_arrhenius', 'arrp'):
                if cls == 'arrp':
                    ratex = ArrheniusParam(A, E * R_GAS).as_RateExpr(unique_keys=('k0', 'k1'))
                elif cls == 'ma_arrhenius':
                    ratex = MassAction(Arrhenius([A, E], unique_keys=('k0', 'k1')))
                else:
                    ratex = Arrhenius([A, E], unique_keys=('k0', 'k1'))
                if val == 'qty0':
                    ov = 0 * u.K if idx == 1 else 0.0 / u.s
                    variables['temperature'] = T * u.K
                    variables['A'] = c['cA'] * u.molar
                a2, e2 = (num, E) if idx == 0 else (A, num)
                want = a2 * np.exp(-e2 / T) * (prod if cls != 'arrhenius' else 1.0)
                variables['k%d' % idx] = ov
                got = ratex(variables, backend=be, reaction=rxn) if cls != 'arrhenius' else ratex(variables, backend=be)
                if val == 'qty0':
                    unit = (u.molar ** order if cls != 'arrhenius' else 1) * (1 / u.s if idx == 0 else 1)
                    got = to_unitless(got, unit)
            elif cls == 'shiftedpoly':
                SPoly = create_Poly('temperature', shift='Tref')
                p = SPoly([c['Tref']] + c['coef'], unique_keys=('Tref_key', 'c0_key'))
                if val == 'qty0':
                    ov = 0.0       # (a polynomial of a quantity is not unit-consistent: plain zero)
                tref, c0 = (num, c['coef'][0]) if idx == 0 else (c['Tref'], num)
                x = T - tref
                want = c0 + c['coef'][1] * x + c['coef'][2] * x ** 2
                variables['Tref_key' if idx == 0 else 'c0_key'] = ov
                got = p(variables, backend=be)
            else:              # 'ma_fk': key-only construction, the rate constant comes from the variables
                ratex = MassAction.fk('kf')
                if val == 'qty0':
                    ov = 0.0 * u.molar ** (1 - order) / u.s
                    variables['A'] = c['cA'] * u.molar
                want = num * prod
                variables['kf'] = ov
                got = ratex(variables, backend=be, reaction=rxn)
                if val == 'qty0':
                    got = to_unitless(got, u.molar / u.s)
            got = post(got)
            g1, w1 = np.atleast_1d(np.asarray(got, dtype=float)), np.atleast_1d(np.asarray(want, dtype=float)) * np.ones_like(np.atleast_1d(np.asarray(got, dtype=float)))
            if g1.shape != w1.shape or not all(close(x, y, 1e-9, 1e-300) for x, y in zip(g1, w1)):
                return ('override %s = %r of argument %d of %s: evaluates to %r, the formula with that argument replaced gives %r'
                        % (val, ov, idx, cls, g1.tolist(), w1.tolist()))
        except Exception as e:
            return 'override %s of argument %d of %s raised %s: %s' % (val, idx, cls, exc_name(e), str(e)[:100])
        return None

    def _oracle_ubackend(self, c):
        from chempy import Reaction
        from chempy.units import default_units as u, default_constants as const, to_unitless, Backend, patched_numpy
        from chempy.kinetics.rates import MassAction, Arrhenius, Eyring, EyringHS, mk_Radiolytic
        from chempy.thermodynamics.expressions import GibbsEqConst
        from chempy.kinetics.arrhenius import ArrheniusParamWithUnits
        from chempy.kinetics.eyring import EyringParamWithUnits
        t, T, order = c['tmpl'], c['T'], c['order']
        eu = getattr(u, c['energy_unit'])
        efac = {'kilojoule': 1000.0, 'joule': 1.0, 'calorie': 4.184}[c['energy_unit']]
        cu = getattr(u, c['conc_unit'])
        cfac = {'molar': 1.0, 'millimolar': 1e-3}[c['conc_unit']]
        rxn = Reaction({'A': order}, {'P': 1})
        cA = c['cA']
        v = {'A': cA / cfac * cu, 'temperature': T * u.K}
        prod = cA ** order
        Rq = float(to_unitless(const.molar_gas_constant, u.J / u.mol / u.K))
        kB = float(to_unitless(const.Boltzmann_constant, u.J / u.K))
        h = float(to_unitless(const.Planck_constant, u.J * u.s))
        dHq, dSq = c['dH'] / efac * eu / u.mol, c['dS'] / efac * eu / u.K / u.mol     # BOTH in the (possibly non-coherent) energy unit
        RJ = R_GAS * u.J / u.mol / u.K
        kun = u.molar ** (1 - order) / u.s

        def build(be):
            if t == 'arrhenius':
                return (to_unitless(MassAction(Arrhenius([c['A'] * kun, dHq / RJ]))(v, backend=be, reaction=rxn), u.molar / u.s),
                        c['A'] * math.exp(-c['dH'] / R_GAS / T) * prod)
            if t == 'eyring':      # conc0 given in the other concentration unit
                return (to_unitless(MassAction(Eyring([c['A'] / u.K / u.s, dHq / RJ, 1 / cfac * cu]))(v, backend=be, reaction=rxn), u.molar / u.s),
                        c['A'] * T * math.exp(-c['dH'] / R_GAS / T) * prod)
            if t == 'eyringhs':
                vq = dict(v, molar_gas_constant=const.molar_gas_constant, Boltzmann_constant=const.Boltzmann_constant,
                          Planck_constant=const.Planck_constant)
                return (to_unitless(MassAction(EyringHS([dHq, dSq]))(vq, backend=be, reaction=rxn), u.molar / u.s),
                        kB * T / h * math.exp(c['dS'] / Rq) * math.exp(-c['dH'] / (Rq * T)) * prod)
            if t == 'gibbs':
                return (float(to_unitless(GibbsEqConst([dHq / RJ, dSq / RJ])(v, backend=be), 1)),
                        math.exp(c['dS'] / R_GAS - c['dH'] / R_GAS / T))
            if t == 'radiolytic':
                Rad = mk_Radiolytic()
                q = Rad([c['g'] * 1e6 * u.micromole / u.J])({'density': c['density'] * 1000 * u.g / u.dm3,
                                                            'doserate': c['doserate'] * 60 * u.Gy / u.minute}, backend=be)
                return to_unitless(q, u.molar / u.s), c['g'] * c['density'] * c['doserate']
            if t == 'param_arr':
                return (to_unitless(ArrheniusParamWithUnits(c['A'] / u.s, dHq)(T * u.K, backend=be), 1 / u.s),
                        c['A'] * math.exp(-c['dH'] / (Rq * T)))
            if t == 'param_eyr':
                kBh = float(to_unitless(const.Boltzmann_constant / const.Planck_constant, 1 / u.K / u.s))
                return (to_unitless(EyringParamWithUnits(dHq, dSq)(T * u.K, backend=be), 1 / u.s),
                        kBh * T * math.exp(c['dS'] / Rq) * math.exp(-c['dH'] / (Rq * T)))
            if t == 'ratex_arr':
                ratex = ArrheniusParamWithUnits(c['A'] * kun, dHq).as_RateExpr()
                return (to_unitless(ratex(v, backend=be, reaction=rxn), u.molar / u.s), c['A'] * math.exp(-c['dH'] / (Rq * T)) * prod)
            if t == 'ratex_eyr':
                kBh = float(to_unitless(const.Boltzmann_constant / const.Planck_constant, 1 / u.K / u.s))
                ratex = EyringParamWithUnits(dHq, dSq).as_RateExpr()
                return (to_unitless(ratex(v, backend=be, reaction=rxn), u.molar / u.s),
                        kBh * T * math.exp(c['dS'] / Rq) * math.exp(-c['dH'] / (Rq * T)) * prod)
            if t in ('rxn_arr', 'rxn_eyr'):
                # DEFAULT-argument conversion: Reaction(..., param).rate_expr() / .rate() call param.as_RateExpr() without arguments
                kBh = float(to_unitless(const.Boltzmann_constant / const.Planck_constant, 1 / u.K / u.s))
                if t == 'rxn_arr':
                    par = ArrheniusParamWithUnits(c['A'] * kun, dHq)
                    kT = c['A'] * math.exp(-c['dH'] / (Rq * T))
                else:
                    par = EyringParamWithUnits(dHq, dSq)
                    kT = kBh * T * math.exp(c['dS'] / Rq) * math.exp(-c['dH'] / (Rq * T))
                r = Reaction({'A': order}, {'P': 1}, par)
                via_param = float(to_unitless(par(T * u.K), 1 / u.s if t == 'rxn_eyr' else kun)) * prod
                if not close(via_param, kT * prod, 1e-9):
                    raise AssertionError('param(T) = %r, SI formula %r' % (via_param / prod, kT))
                via_expr = float(to_unitless(r.rate_expr()(v, backend=be, reaction=r), u.molar / u.s))
                if not close(via_expr, kT * prod, 1e-9):
                    raise AssertionError('Reaction(..., %r).rate_expr()(v) = %r but param(T)*prod = %r' % (par, via_expr, kT * prod))
                return to_unitless(r.rate(v, backend=be)['P'], u.molar / u.s), kT * prod
            raise KeyError(t)

        for name, be in (('math', math), ('patched_numpy', patched_numpy), ('Backend()', Backend())):
            if name == 'math' and t in UNITS_PENDING_MATH:
                continue
            try:
                got, want = build(be)
                got = float(got)
            except Exception as e:
                return 'units/backends template %s [%s, %s]: raised %s: %s' % (t, c['energy_unit'], name, exc_name(e), str(e)[:100])
            if not close(got, want, 1e-9):
                return ('units/backends template %s with energies in %s, backend %s: %r; with plain SI numbers: %r'
                        % (t, c['energy_unit'], name, got, want))
        return None

    def _oracle_mutable(self, c):
        """mutable concentration values (numpy arrays, quantities): the evaluation must not modify its inputs, a second
        evaluation must give the same numbers, and reactions of one ReactionSystem that share a reactant must not interfere"""
        from chempy import Reaction, ReactionSystem
        from chempy.kinetics.arrhenius import ArrheniusParam
        from chempy.kinetics.eyring import EyringParam
        from chempy.units import default_units as u, to_unitless
        import numpy as np
        reac = {k: v for k, v in c['reac']}
        prod = {k: v for k, v in c['prod']}
        T = c['T']
        A, Ea, dS = c['p']

        def par_k(scale):
            if c['which'] == 'arrhenius':
                return ArrheniusParam(A * scale, Ea), A * scale * math.exp(-Ea / (R_GAS * T))
            return EyringParam(Ea, dS + R_GAS * math.log(scale)), KB_OVER_H * T * math.exp(dS / R_GAS) * scale * math.exp(-Ea / (R_GAS * T))

        par1, k1 = par_k(1.0)
        par2, k2 = par_k(0.5)
        mult = np.array([1.0, 2.0, 0.5])
        try:
            rxn = Reaction(reac, prod, par1)
            # (1) numpy arrays, evaluated twice
            arr = {s: c['conc'][s] * mult for s in SUBST}
            keep = {s: a.copy() for s, a in arr.items()}
            variables = dict(arr, temperature=T)
            cp = np.ones(3)
            for s, v in reac.items():
                cp = cp * keep[s] ** v
            for rep in (1, 2):
                rates = rxn.rate(variables, backend=np)
                for s in sorted(set(reac) | set(prod)):
                    want = k1 * cp * (prod.get(s, 0) - reac.get(s, 0))
                    got = np.asarray(getattr(rates[s], 'magnitude', rates[s]), dtype=float) * np.ones(3)
                    if not all(close(g, w, 1e-9, 1e-300) for g, w in zip(got, want)):
                        return 'evaluation %d of Reaction(%r, %r, %r).rate(arrays)[%s] = %r, expected %r' % (rep, reac, prod, par1, s, got.tolist(), want.tolist())
                for s in SUBST:
                    if not np.array_equal(arr[s], keep[s]):
                        return ('Reaction(%r, %r, ...).rate(variables, backend=numpy) modified its input variables[%r]: %r -> %r'
                                % (reac, prod, s, keep[s].tolist(), arr[s].tolist()))
            # (2) unit-carrying concentrations, the same rate expression evaluated twice
            ratex = rxn.rate_expr()
            vq = {s: c['conc'][s] * u.molar for s in SUBST}
            vq['temperature'] = T
            order = sum(reac.values())
            unit = u.molar ** order if c['which'] == 'arrhenius' else u.molar
            cpf = 1.0
            for s, v in reac.items():
                cpf *= c['conc'][s] ** v
            for rep in (1, 2):
                val = float(to_unitless(ratex(vq, backend=math, reaction=rxn), unit))
                if not close(val, k1 * cpf, 1e-9):
                    return 'evaluation %d of %r with unit-carrying concentrations = %r, expected %r' % (rep, ratex, val, k1 * cpf)
                for s in SUBST:
                    if not close(float(to_unitless(vq[s], u.molar)), c['conc'][s], 1e-12):
                        return 'evaluating %r modified its input variables[%r]: now %s, was %r molar' % (ratex, s, vq[s], c['conc'][s])
            # (3) two reactions of one system sharing the first reactant (Arrhenius only: Eyring's default conc0 = 1 molar makes
            #     rates of reactions of different order carry different units)
            if c['which'] != 'arrhenius':
                return None
            first = next(iter(reac))
            other = 'C' if 'C' not in reac else 'B'
            r2 = Reaction({first: 1, other: 1}, {'D': 1}, par2)
            rsys = ReactionSystem([rxn, r2], 'A B C D')
            arr = {s: c['conc'].get(s, 0.3) * mult for s in 'ABC'}
            arr['D'] = np.zeros(3)
            variables = dict(arr, temperature=T)
            q1 = k1 * cp
            q2 = k2 * (c['conc'][first] * mult) * (c['conc'][other] * mult)
            res = rsys.rates(variables, backend=np)
            for s in 'ABCD':
                want = q1 * (prod.get(s, 0) - reac.get(s, 0)) + q2 * ((1 if s == 'D' else 0) - (1 if s in (first, other) else 0))
                r_s = res.get(s, 0.0)            # a substance that takes part in no reaction may be absent (= 0)
                got = np.asarray(getattr(r_s, 'magnitude', r_s), dtype=float) * np.ones(3)
                if not all(close(g, w, 1e-9, 1e-290) for g, w in zip(got, want)):
                    return ('ReactionSystem([%s, %s]).rates(arrays)[%s] = %r, expected the sum of k(T)*prod*net over both reactions %r'
                            % (rxn, r2, s, got.tolist(), want.tolist()))
        except Exception as e:
            return 'mutable-input check raised %s: %s' % (exc_name(e), str(e)[:120])
        return None

    def _oracle_tree(self, c):
        mode = c['num']
        real = Real(mode)
        prog = map_nums(c['prog'], real.num)
        vars_ = {n: (real.num(v) if mode == 'float' else Fraction(real.num(v))) for n, v in c['vars']}
        rxn = c['rxn']
        self._maxabs = 0.0
        self._refusal_ok = False
        try:
            want = self.meaning(prog, vars_, rxn, math)
        except Skip:
            return None
        except (OverflowError, ZeroDivisionError, ValueError):
            return None
        if isinstance(want, complex) or (isinstance(want, float) and (math.isnan(want) or math.isinf(want))):
            return None
        if mode == 'rat' and not isinstance(want, (int, Fraction)):
            return None                       # a float crept in (int / int): not an exact case
        has_log10 = any(q['t'] == 'new' and q['k']['c'] == 'Log10' for q in walk(c['prog']))
        has_pw = any(q['t'] == 'new' and q['k']['c'] == 'Piecewise' for q in walk(c['prog']))
        has_qty = _has_qty(c['prog'])
        try:
            obj = real.build(c['prog'])
        except Exception as e:
            if self._refusal_ok and isinstance(e, ValueError) and 'unique_keys' in str(e):
                return None               # the documented refusal of UnaryWrapper arithmetic with unique keys
            return 'building the expression raised %s although its arithmetic meaning is %r' % (exc_name(e), want)
        import numpy as np
        if isinstance(rxn, list) and self._dropped_rxn(c['prog']):
            # classes made by Expr.from_callback, GibbsEqConst, EyringHS, Radiolytic do not forward `reaction=` to their
            # arguments: a nested MassAction / Eyring is rejected -- the rejection has to be the same under every backend
            import sympy
            outs = {}
            for name, be in (('math', math), ('numpy', np), ('sympy', sympy)):
                vv = vars_ if name != 'sympy' else {n: sympy.Symbol('v_' + n, real=True) for n in vars_}
                try:
                    with np.errstate(all='ignore'):
                        real.call(obj, vv, rxn, be)
                    outs[name] = 'value'
                except Exception as e:
                    outs[name] = exc_name(e)
            if len(set(outs.values())) > 1:
                return 'nested reaction-dependent argument: backends disagree about the rejection: %r' % outs
            if outs['math'] != 'value':
                return None
        for name, be in (('math', math), ('numpy', np)):
            try:
                with np.errstate(all='ignore'):
                    got = real.call(obj, vars_, rxn, be)
            except Exception as e:
                return 'backend %s: %s raised %s (%s); arithmetic meaning %r' % (name, real.show(obj)[:200], exc_name(e), str(e)[:80], want)
            if not self._eq(mode, got, want):
                return 'backend %s: %s evaluates to %r, arithmetic meaning %r' % (name, real.show(obj)[:300], got, want)
        # symbolic evaluation, then substitution of the same numbers
        if has_qty:
            return None
        import sympy
        syms = {n: sympy.Symbol('v_' + n, real=True) for n in vars_}
        try:
            sexpr = real.call(obj, syms, rxn, sympy)
        except Exception as e:
            return 'sympy backend: %s raised %s (%s); arithmetic meaning %r' % (real.show(obj)[:200], exc_name(e), str(e)[:80], want)
        try:
            sub = {syms[n]: (sympy.Rational(v.numerator, v.denominator) if mode == 'rat' else sympy.Float(v, 40)) for n, v in vars_.items()}
            sv = sympy.sympify(sexpr).subs(sub)
            if mode == 'rat':
                sv = sympy.nsimplify(sv) if not sv.is_Rational else sv
                ok = sv.is_Rational and Fraction(int(sv.p), int(sv.q)) == Fraction(want)
            else:
                ok = close(float(sympy.N(sv, 30)), float(want), self.float_tol, 1e-13 * self._maxabs)
        except Exception as e:
            return 'sympy backend: substituting into %s failed with %s' % (str(sexpr)[:120], exc_name(e))
        if not ok:
            if has_pw:
                return None if mode == 'float' and not sv.is_number else 'sympy backend (Piecewise): %s vs %r' % (sv, want)
            return 'sympy backend: %s substituted gives %s, arithmetic meaning %r' % (str(sexpr)[:160], sv, want)
        return None

    def _oracle_param(self, c):
        from chempy.kinetics.arrhenius import ArrheniusParam, arrhenius_equation
        from chempy.kinetics.eyring import EyringParam, eyring_equation
        import numpy as np, sympy
        a = c['a']
        w = c['which']
        if w == 'arrhenius':
            A, Ea, T = a
            want = A * math.exp(-Ea / (R_GAS * T))
            got = {'math': arrhenius_equation(A, Ea, T, backend=math), 'numpy': arrhenius_equation(A, Ea, T),
                   'param': ArrheniusParam(A, Ea)(T), 'param-math': ArrheniusParam(A, Ea)(T, backend=math)}
            s = sympy.symbols('A Ea T', positive=True)
            got['sympy'] = float(arrhenius_equation(*s, backend=sympy).subs(dict(zip(s, map(sympy.Float, (A, Ea, T))))))
        elif w == 'eyring':
            dH, dS, T = a
            want = KB_OVER_H * T * math.exp(dS / R_GAS) * math.exp(-dH / (R_GAS * T))
            got = {'math': eyring_equation(dH, dS, T, backend=math), 'numpy': eyring_equation(dH, dS, T),
                   'param': EyringParam(dH, dS)(T), 'param-math': EyringParam(dH, dS)(T, backend=math)}
            s = sympy.symbols('dH dS T', real=True)
            got['sympy'] = float(eyring_equation(*s, backend=sympy).subs(dict(zip(s, map(sympy.Float, (dH, dS, T))))))
        else:
            Ea, T, k = a
            p = ArrheniusParam.from_rateconst_at_T(Ea, (T, k))
            want = k
            got = {'roundtrip-numpy': p(T), 'roundtrip-math': ArrheniusParam.from_rateconst_at_T(Ea, (T, k), backend=math)(T, backend=math)}
            if p.Ea != Ea:
                return 'from_rateconst_at_T changed Ea: %r -> %r' % (Ea, p.Ea)
        for name, g in got.items():
            if not close(float(g), want, self.float_tol):
                return '%s%r [%s] = %r, defining formula gives %r' % (w, tuple(a), name, float(g), want)
        return None

    def _oracle_units(self, c):
        """the same template evaluated with unit-carrying quantities and with plain floats (in M, s, K, J, mol, kg, dm3)"""
        from chempy import Reaction
        from chempy.units import default_units as u, default_constants as const, to_unitless, Backend
        from chempy.kinetics.rates import MassAction, Arrhenius, Eyring, EyringHS, mk_Radiolytic, RampedTemp
        from chempy.kinetics.arrhenius import ArrheniusParam, ArrheniusParamWithUnits
        from chempy.kinetics.eyring import EyringParam, EyringParamWithUnits
        t = c['tmpl']
        rxn = Reaction({k: v for k, v in c['reac']}, {'P': 1})
        order = sum(v for _, v in c['reac'])
        cu = getattr(u, c['conc_unit'])
        cfac = {'molar': 1.0, 'millimolar': 1e-3, 'micromolar': 1e-6}[c['conc_unit']]
        tu = getattr(u, c['time_unit'])
        tfac = {'second': 1.0, 'minute': 60.0, 'hour': 3600.0}[c['time_unit']]
        T = c['T']
        conc_f = {s: c['conc'][s] * cfac for s in ('A', 'B')}         # in M
        conc_q = {s: c['conc'][s] * cu for s in ('A', 'B')}
        prod = 1.0
        for s, v in c['reac']:
            prod *= conc_f[s] ** v
        kunit = u.molar ** (1 - order) / u.second
        try:
            if t == 'arrhenius':
                # A given per `time_unit` and per `conc_unit`^(order-1)
                Aq = c['A'] * cu ** (1 - order) / tu
                Af = c['A'] * cfac ** (1 - order) / tfac
                EoR = c['Ea'] / R_GAS
                q = MassAction(Arrhenius([Aq, EoR * u.K]))(dict(conc_q, temperature=T * u.K), reaction=rxn)
                want = Af * math.exp(-EoR / T) * prod
                got = to_unitless(q, u.molar / u.second)
            elif t == 'eyring':
                c0q = c['A'] / u.K / tu          # conc0 (default 1 molar) supplies molar**(1 - order)
                c0f = c['A'] / tfac
                c1 = c['dH'] / R_GAS
                q = MassAction(Eyring([c0q, c1 * u.K]))(dict(conc_q, temperature=T * u.K), reaction=rxn)
                want = c0f * T * math.exp(-c1 / T) * prod
                got = to_unitless(q, u.molar / u.second)
            elif t == 'eyringhs':
                Rg = to_unitless(const.molar_gas_constant, u.J / u.mol / u.K)
                kB = to_unitless(const.Boltzmann_constant, u.J / u.K)
                h = to_unitless(const.Planck_constant, u.J * u.s)
                vq = dict(conc_q, temperature=T * u.K, molar_gas_constant=const.molar_gas_constant,
                          Boltzmann_constant=const.Boltzmann_constant, Planck_constant=const.Planck_constant)
                q = MassAction(EyringHS([c['dH'] / 1000 * u.kilojoule / u.mol, c['dS'] * u.J / u.K / u.mol]))(vq, backend=Backend(), reaction=rxn)
                want = kB * T / h * math.exp(c['dS'] / Rg) * math.exp(-c['dH'] / (Rg * T)) * prod
                got = to_unitless(q, u.molar / u.second)
            elif t == 'radiolytic':
                Rad = mk_Radiolytic()
                q = Rad([c['g'] * u.mol / u.J])({'density': c['density'] * u.kg / u.dm3, 'doserate': c['doserate'] * 60 * u.Gy / u.minute})
                want = c['g'] * c['density'] * c['doserate']
                got = to_unitless(q, u.molar / u.second)
            elif t == 'ramped':
                q = RampedTemp([c['T0'] * u.K, c['dTdt'] * 60 * u.K / u.minute])({'time': c['t'] / tfac * tu})
                want = c['T0'] + c['dTdt'] * c['t']
                got = to_unitless(q, u.K)
            elif t == 'combo':
                Aq = c['A'] * cu ** (1 - order) / tu
                Af = c['A'] * cfac ** (1 - order) / tfac
                EoR = c['Ea'] / R_GAS
                ma1 = MassAction(Arrhenius([Aq, EoR * u.K]))
                ma2 = MassAction([0.5 * Af * kunit])
                expr = -(c['s1'] * ma1 - ma2 / c['s2']) + ma2 * 1
                q = expr(dict(conc_q, temperature=T * u.K), reaction=rxn)
                k1 = Af * math.exp(-EoR / T)
                want = -(c['s1'] * k1 * prod - 0.5 * Af * prod / c['s2']) + 0.5 * Af * prod
                got = to_unitless(q, u.molar / u.second)
            elif t == 'param_arr':
                q = ArrheniusParamWithUnits(c['A'] / tu, c['Ea'] / 1000 * u.kilojoule / u.mol)(T * u.K)
                want = c['A'] / tfac * math.exp(-c['Ea'] / (R_GAS * T))
                got = to_unitless(q, 1 / u.second)
                Rq = to_unitless(const.molar_gas_constant, u.J / u.mol / u.K)
                want = c['A'] / tfac * math.exp(-c['Ea'] / (Rq * T))
            elif t == 'param_eyr':
                q = EyringParamWithUnits(c['dH'] / 1000 * u.kilojoule / u.mol, c['dS'] * u.J / u.K / u.mol)(T * u.K)
                Rq = to_unitless(const.molar_gas_constant, u.J / u.mol / u.K)
                kBh = to_unitless(const.Boltzmann_constant / const.Planck_constant, 1 / u.K / u.s)
                want = kBh * T * math.exp(c['dS'] / Rq) * math.exp(-c['dH'] / (Rq * T))
                got = to_unitless(q, 1 / u.second)
            else:
                kq = c['A'] / tu
                p = ArrheniusParamWithUnits.from_rateconst_at_T(c['Ea'] / 1000 * u.kilojoule / u.mol, (T * u.K, kq))
                got = to_unitless(p(T * u.K), 1 / u.second)
                want = c['A'] / tfac
        except Exception as e:
            return 'units template %s raised %s: %s' % (t, exc_name(e), str(e)[:120])
        if not close(float(got), want, 1e-9):
            return 'units template %s: magnitude %r with units, %r with plain floats' % (t, float(got), want)
        return None

    def _oracle_rxnrate(self, c):
        """Reaction(reac, prod, <ParamSet>).rate(variables) = k(T) * prod c^nu * net stoichiometry"""
        from chempy import Reaction
        from chempy.kinetics.arrhenius import ArrheniusParam
        from chempy.kinetics.eyring import EyringParam
        import numpy as np
        reac = {k: v for k, v in c['reac']}
        prod = {k: v for k, v in c['prod']}
        T = c['T']
        A, Ea, dS = c['p']
        if c['which'] == 'arrhenius':
            par = ArrheniusParam(A, Ea)
            kT = A * math.exp(-Ea / (R_GAS * T))
        else:
            par = EyringParam(Ea, dS)
            kT = KB_OVER_H * T * math.exp(dS / R_GAS) * math.exp(-Ea / (R_GAS * T))
        if not close(float(par(T, backend=math)), kT, 1e-9):
            return 'parameter set %r at T=%r gives %r, formula %r' % (par, T, par(T, backend=math), kT)
        variables = dict(c['conc'], temperature=T)
        cp = 1.0
        for s, v in reac.items():
            cp *= c['conc'][s] ** v
        try:
            rxn = Reaction(reac, prod, par)
            for be in (math, np):
                rates = rxn.rate(variables, backend=be)
                for s in set(reac) | set(prod):
                    want = kT * cp * (prod.get(s, 0) - reac.get(s, 0))
                    got = rates[s]
                    if hasattr(got, 'magnitude'):
                        got = float(got.magnitude)
                    if not close(float(got), want, 1e-9, 1e-300):
                        return 'Reaction(%r, %r, %r).rate(%r)[%s] = %r, expected k(T)*prod*net = %r' % (reac, prod, par, variables, s, got, want)
            if c['override']:
                # a named override of the first argument replaces exactly that argument
                ratex = par.as_RateExpr(unique_keys=('p0',))
                v2 = dict(variables, p0=c['ov'])
                got = ratex(v2, reaction=rxn)
                if hasattr(got, 'magnitude'):
                    got = float(got.magnitude)
                want = kT * cp * c['ov'] / (A if c['which'] == 'arrhenius' else KB_OVER_H * math.exp(dS / R_GAS))
                if not close(float(got), want, 1e-9):
                    return 'override p0=%r of %r: %r, expected %r' % (c['ov'], ratex, got, want)
                got0 = ratex(variables, reaction=rxn)
                if hasattr(got0, 'magnitude'):
                    got0 = float(got0.magnitude)
                if not close(float(got0), kT * cp, 1e-9):
                    return 'unique key absent: %r, expected %r' % (got0, kT * cp)
        except Exception as e:
            return 'rxnrate raised %s: %s' % (exc_name(e), str(e)[:120])
        return None

    # ---- bookkeeping ---------------------------------------------------------------------------------------------
    @staticmethod
    def _is_ma(q):
        """does this program build a MassAction instance (directly, or through UnaryWrapper arithmetic)?"""
        q = _strip(q)
        if q['t'] in ('arrp', 'eyrp'):
            return True
        if q['t'] == 'new':
            return q['k']['c'] == 'MassAction'
        if q['t'] == 'op' and q['o'] in ('mul', 'div'):
            return C16._is_ma(q['a']) or C16._is_ma(q['b'])
        if q['t'] == 'op' and q['o'] == 'neg' and q['a']['t'] == 'op' and q['a']['o'] == 'neg':
            return C16._is_ma(q['a']['a'])          # -(-x) is x
        if q['t'] == 'op' and q['o'] in ('add', 'sub'):  # x + 0, 0 + x, x - 0 are x
            def zero(z):
                if z['t'] == 'num':
                    return z['v'] == 0
                if z['t'] == 'new' and z['k']['c'] == 'Constant' and z['args']:
                    kids = z['args']['l'] if 'l' in z['args'] else [z['args']['s']]
                    return len(kids) == 1 and kids[0]['t'] == 'num' and kids[0]['v'] == 0
                return False
            if zero(q['b']) and C16._is_ma(q['a']):
                return True
            if q['o'] == 'add' and zero(q['a']) and q['a']['t'] == 'num' and C16._is_ma(q['b']):
                return True
        return False

    def _has_rdiv(self, c):
        return any(q['t'] == 'op' and q['o'] == 'div' and self._is_ma(q['b']) and not self._is_ma(q['a']) for q in walk(c['prog']))

    @staticmethod
    def _dropped_rxn(p, below=False):
        """a reaction-dependent expression occurs among the arguments of a class that does not forward `reaction=`"""
        t = p['t']
        if t in ('arrp', 'eyrp'):
            return below
        if t == 'new':
            c = p['k']['c']
            if below and c in NEEDS_RXN:
                return True
            a = p['args']
            kids = [] if a is None else (a['l'] if 'l' in a else [a['s']])
            return any(C16._dropped_rxn(q, below or c in DROPS) for q in kids)
        if t == 'op':
            return C16._dropped_rxn(p['a'], below) or ('b' in p and C16._dropped_rxn(p['b'], below))
        return False

    def known_key(self, c, failure):
        return None

    def classify(self, c):
        k = c.get('kind')
        if k == 'tree':
            top = c['prog']
            lab = top['t'] if top['t'] != 'new' else top['k']['c']
            if top['t'] == 'op':
                lab = top['o']
            rx = 'rxn:' + ('absent' if c['rxn'] is None else 'None' if c['rxn'] == 'none' else 'order%d' % sum(v for _, v in c['rxn']))
            return 'tree:%s:%s:%s' % (c['num'], lab, rx)
        if k == 'param':
            return 'param:' + c['which']
        if k == 'units':
            return 'units:' + c['tmpl']
        if k == 'ubackend':
            return 'ubackend:%s:%s' % (c['tmpl'], c['energy_unit'])
        if k == 'radiolytic':
            return 'radiolytic:%d-names:%s' % (len(c['names']), 'sorted' if c['names'] == sorted(c['names']) else 'unsorted')
        if k == 'override0':
            return 'override0:%s:%s' % (c['cls'], c['val'])
        if k == 'smallsum':
            return 'smallsum:%d:1e%+03d' % (c['tmpl'], 10 * (c['k'] // 10))
        if k == 'api':
            return 'api:' + c['tmpl']
        if k == 'eqeq':
            return 'eqeq:%s:%s' % (c['num'], c['prog']['k']['c'])
        if k == 'sympyop':
            return 'sympyop:%s:%s' % (c['operand'], c['op'])
        return 'rxnrate:' + c.get('which', '?')

    def extra_search(self, rng, tier, hints):
        return self.generate(rng, self.n_quick * 2, tier)


PROPERTY = C16()
