"""Generator, renderer and denotation of formula ASTs (the Python side of the C01/C13/C14 specification).

The AST is JSON-serialisable and is also what the Lean model's `render`/`denote` consume:

formula := {"prefixes": [str...], "sep": ".." | "·", "parts": [part...],
            "charge": null | [sign(+1|-1), null | int], "suffix": "" | "(s)" ...}
part    := {"n": null | int, "terms": [term...]}            # n: leading hydrate count (null for the first part)
term    := {"t": "el", "z": Z, "cnt": cnt, "state": str, "marks": str}
         | {"t": "grp", "br": "(" | "[" | "{", "body": [term...], "cnt": cnt, "state": str, "marks": str}
         | {"t": "cage", "body": [term...]}                 # '@' formula: must be the last term of its list
cnt     := null | ["int", n] | ["dec", "2.35"]

`composition(ast)` is computed here independently of chempy (exact Fractions).
"""
from fractions import Fraction
import json, os

_ref = json.load(open(os.path.join(os.path.dirname(os.path.abspath(__file__)), 'ref_iupac.json')))
SYMBOLS = [r[0] for r in _ref]
NAMES = [r[1] for r in _ref]
WEIGHTS = [Fraction(r[2], 10 ** 9) for r in _ref]
ELECTRON_MASS = Fraction(5489, 10 ** 7)   # chempy's documented 4-digit value (CODATA 5.48579909e-4)

GREEK = ("alpha beta gamma delta epsilon zeta eta theta iota kappa lambda mu nu xi omicron pi rho sigma tau "
         "upsilon phi chi psi omega").split()
PREFIXES = [g + '-' for g in GREEK] + ['.']          # strip order of formula_to_composition's defaults
SUFFIXES = ['(s)', '(l)', '(g)', '(aq)']
STATES = ['(s)', '(l)', '(g)', '(aq)', '(cr)']
CLOSE = {'(': ')', '[': ']', '{': '}'}
COMMON = [1, 6, 7, 8, 11, 12, 13, 14, 15, 16, 17, 19, 20, 26, 27, 29, 30, 92]


def cnt_value(c):
    if c is None:
        return Fraction(1)
    return Fraction(c[1]) if c[0] == 'int' else Fraction(c[1])


def cnt_text(c):
    return '' if c is None else str(c[1])


def render_terms(ts):
    out = []
    for t in ts:
        if t['t'] == 'el':
            out.append(SYMBOLS[t['z'] - 1] + cnt_text(t['cnt']) + t['state'] + t['marks'])
        elif t['t'] == 'grp':
            out.append(t['br'] + render_terms(t['body']) + CLOSE[t['br']] + cnt_text(t['cnt']) + t['state'] + t['marks'])
        else:
            out.append('@' + render_terms(t['body']))
    return ''.join(out)


def render_charge(ch):
    if ch is None:
        return ''
    return ('+' if ch[0] > 0 else '-') + ('' if ch[1] is None else str(ch[1]))


def render_stoich(f):
    out = []
    for i, p in enumerate(f['parts']):
        if i:
            out.append(f['sep'])
        out.append(('' if p['n'] is None else str(p['n'])) + render_terms(p['terms']))
    return ''.join(out)


def render(f):
    return ''.join(f['prefixes']) + render_stoich(f) + render_charge(f['charge']) + f['suffix']


def occ_terms(ts, mult, acc):
    for t in ts:
        if t['t'] == 'el':
            acc[t['z']] = acc.get(t['z'], Fraction(0)) + mult * cnt_value(t['cnt'])
        elif t['t'] == 'grp':
            occ_terms(t['body'], mult * cnt_value(t['cnt']), acc)
        else:
            occ_terms(t['body'], mult, acc)


def charge_value(ch):
    if ch is None:
        return None
    return ch[0] * (1 if ch[1] is None else ch[1])


def composition(f):
    """{Z: Fraction}; key 0 (charge) present iff the formula carries a charge token"""
    acc = {}
    for p in f['parts']:
        occ_terms(p['terms'], Fraction(1 if p['n'] is None else p['n']), acc)
    if f['charge'] is not None:
        acc[0] = Fraction(charge_value(f['charge']))
    return acc


def ref_mass(comp):
    m = Fraction(0)
    for k, v in comp.items():
        m += -v * ELECTRON_MASS if k == 0 else v * WEIGHTS[k - 1]
    return m


def has_decimal(f):
    def walk(ts):
        for t in ts:
            if t['t'] != 'cage' and t['cnt'] is not None and t['cnt'][0] == 'dec':
                return True
            if t['t'] != 'el' and walk(t['body']):
                return True
        return False
    return any(walk(p['terms']) for p in f['parts'])


def depth(f):
    def d(ts):
        return max([0] + [1 + d(t['body']) for t in ts if t['t'] != 'el'])
    return max(d(p['terms']) for p in f['parts'])


# ------------------------------------------------------------------ generation
def gen_cnt(rng, decimals):
    r = rng.random()
    if r < 0.35:
        return None
    if decimals and r < 0.5:
        a, b = rng.randint(0, 12), rng.randint(1, 9999)
        return ['dec', '%d.%s' % (a, str(b).zfill(rng.randint(1, 4))[:4])]
    if r < 0.55:
        return ['int', 1]
    if r < 0.97:
        return ['int', rng.randint(2, 12)]
    return ['int', rng.choice([0, 10, 60, 100, 1000])]


def gen_el(rng):
    return rng.choice(COMMON) if rng.random() < 0.5 else rng.randint(1, 118)


def gen_terms(rng, depth_left, decimals, max_len, allow_state, final):
    n = rng.randint(1, max_len)
    ts = []
    for i in range(n):
        last = (i == n - 1)
        r = rng.random()
        marks = ''.join(rng.choice("*'") for _ in range(rng.randint(1, 3))) if rng.random() < 0.06 else ''
        state = ''
        if allow_state and rng.random() < 0.06:
            state = '(cr)' if (final and last) else rng.choice(STATES)
        if depth_left > 0 and r < 0.28:
            ts.append({'t': 'grp', 'br': rng.choice('([{'),
                       'body': gen_terms(rng, depth_left - 1, decimals, 3, allow_state, False),
                       'cnt': gen_cnt(rng, decimals), 'state': state, 'marks': marks})
        elif depth_left > 0 and last and r < 0.31:
            ts.append({'t': 'cage', 'body': gen_terms(rng, depth_left - 1, decimals, 2, allow_state, final)})
        else:
            ts.append({'t': 'el', 'z': gen_el(rng), 'cnt': gen_cnt(rng, decimals), 'state': state, 'marks': marks})
    return ts


def gen_formula(rng, max_depth=3, decimals=None, plain=False):
    """plain=True: no prefixes/suffix/marks/states (e.g. for use as reaction keys of the simplest kind)"""
    if decimals is None:
        decimals = rng.random() < 0.15
    nparts = 1 if rng.random() < 0.8 else rng.randint(2, 3)
    parts = []
    for i in range(nparts):
        n = None
        if i and rng.random() < 0.8:
            n = rng.choice([1, 2, 3, 5, 6, 7, 10, 12])
        parts.append({'n': n, 'terms': gen_terms(rng, rng.randint(0, max_depth), decimals, 4, not plain, i == nparts - 1)})
    prefixes = []
    if not plain and rng.random() < 0.15:
        k = rng.choice([1, 1, 1, 2])
        idx = sorted(rng.sample(range(len(PREFIXES)), k))
        prefixes = [PREFIXES[i] for i in idx]
    charge = None
    if rng.random() < 0.35:
        charge = [rng.choice([1, -1]), rng.choice([None, None, 1, 2, 3, 4, 12])]
    suffix = '' if plain or rng.random() < 0.75 else rng.choice(SUFFIXES)
    f = {'prefixes': prefixes, 'sep': rng.choice(['..', '·']), 'parts': parts, 'charge': charge, 'suffix': suffix}
    if plain:
        strip_marks(f)
    return f


def strip_marks(f):
    def walk(ts):
        for t in ts:
            if t['t'] != 'cage':
                t['marks'] = ''
                t['state'] = ''
            if t['t'] != 'el':
                walk(t['body'])
    for p in f['parts']:
        walk(p['terms'])


def adjacency_formula(z1, z2):
    """two adjacent bare symbols (the Co / CO class)"""
    el = lambda z: {'t': 'el', 'z': z, 'cnt': None, 'state': '', 'marks': ''}
    return {'prefixes': [], 'sep': '..', 'parts': [{'n': None, 'terms': [el(z1), el(z2)]}], 'charge': None, 'suffix': ''}


WELL_KNOWN = ['H2O', 'NaCl', 'Fe+3', 'SO4-2', 'NH4+', 'OH-', '[Fe(H2O)6]+3', 'Na2CO3..7H2O', 'CuSO4·5H2O',
              'Ca2.832Fe0.6285Mg5.395(CO3)6', 'UO2.3', '.NHO-(aq)', 'alpha-FeOOH(s)', 'K4[Fe(CN)6]', 'Li@C60',
              'C6H5OH', 'Fe(SCN)2+', 'e-', 'H2O2', 'Co', 'CO', 'Cs', 'CS2', "H2O*", "O2'"]
