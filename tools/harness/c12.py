"""C12 — reaction text is read exactly as written; printing and parsing are inverse"""
from fractions import Fraction
import json, re
from lib.framework import Property
from . import formula_gen as fg
from .util import *

BRACKET_KEYS = ['(NH4)2SO4', '(CH3)3N(aq)', '(NH4)3PO4(s)', '[Fe(CN)6]-4', '{Cu(NH3)4}+2', '(UO2)2(OH)2+2', '((CH3)2N)3PO',
                '(H2O)(l)', '(e-)', '(A)(B)', "(OH)'", '(NO3-)2', '(s)X', '(X)2(Y)', '((A)B)C']
ODD_KEYS = ['*A', 'A*', '*', '2', '10', '1e3', '2.5', '+A', 'A+', '++', 'A+B', 'e-', '-', '>', '=>', '<-', 'A(', 'A)', ')(', 'A#', '#A', "'k'", 'A;B',
            'A->B', 'A=B', '(', ')', '()', '(A)', '((A))', '+', 'A\tB', 'a·b', 'α-X', 'A..B', '_', 'é']


def esc(s):
    out = []
    for ch in s:
        o = ord(ch)
        if 32 <= o <= 126 and ch not in '\\",[]:|':
            out.append(ch)
        else:
            out.append('\\{%x}' % o)
    return ''.join(out)


def show_coef(v):
    if isinstance(v, float):
        return 'f' + show_rat(Fraction(v))
    return 'i' + str(int(v))


def show_dict(d):
    return '[' + ','.join(esc(k) + ':' + show_coef(v) for k, v in d.items()) + ']'


def show_strs(l):
    return '[' + ','.join(esc(x) for x in l) + ']'


def show_rxn(r, param_as_text=None):
    if param_as_text is not None:
        p = param_as_text
    elif r.param is None:
        p = '-'
    elif type(r.param).__name__ == 'MassAction' and len(r.param.args) == 1 and hasattr(r.param.args[0], 'unique_keys'):
        p = 'sym"%s"' % esc(r.param.args[0].unique_keys[0])      # the quoted 'k' form: a Symbol rate constant
    else:
        p = '=' + repr(r.param)
    return '%s %s %s %s %s' % (show_dict(r.reac), show_dict(r.prod), show_dict(r.inact_reac), show_dict(r.inact_prod), p)


def err_tag(e):
    if not isinstance(e, ValueError):
        return type(e).__name__
    m = str(e)
    if m.startswith('Missing token'):
        return 'ValueError:missingToken'
    if m.startswith('To many parts'):
        return 'ValueError:tooManyParts'
    if m.startswith('Unknown substance_key'):
        return 'ValueError:unknownKey'
    if m.startswith('could not convert string to float') or m.startswith('invalid literal for int()'):
        return 'ValueError:badNumber'
    if m.startswith('The net stoichiometry') or m.startswith('Found a negative') or m.startswith('Found a non-integer'):
        return 'ValueError:check'
    if m.startswith('Cannot specify both'):
        return 'ValueError:both'
    if m.startswith('Unknown setting'):
        return 'ValueError:unknownSetting'
    if m.startswith("Don't know how to print"):
        return 'ValueError:cannotPrint'
    if m.startswith('empty separator'):
        return 'ValueError:emptySeparator'
    return 'ValueError:?' + m[:40]


# ------------------------------------------------------------------ the written notation (specification side)
def write_term(t):
    if t['form'] == 'omit':
        s = t['key']
    elif t['form'] == 'plain':
        s = '%d %s' % (t['n'], t['key'])
    elif t['form'] == 'dec':
        s = '%d.%s %s' % (t['n'], t['frac'], t['key'])
    else:
        s = '%d * %s' % (t['n'], t['key'])
    return '(' + s + ')' if t['inact'] else s


def write_line(a):
    s = ' + '.join(map(write_term, a['reac'])) + ' ' + a['token'] + ' ' + ' + '.join(map(write_term, a['prod']))
    if a.get('param') is not None:
        s += '; ' + a['param']
    if a.get('kw') is not None:
        if a.get('param') is None:
            s += '; None'
        s += '; ' + a['kw']
    return a.get('lead', '') + s + a.get('trail', '')


def closes_at_end(s):
    """own reading of "the parenthesis opened by the first character is closed by the last one" """
    if len(s) < 2 or s[0] != '(' or s[-1] != ')':
        return False
    depth = 0
    for i, ch in enumerate(s):
        depth += (ch == '(') - (ch == ')')
        if depth == 0:
            return i == len(s) - 1
    return False


def balanced(s):
    depth = 0
    for ch in s:
        depth += (ch == '(') - (ch == ')')
        if depth < 0:
            return False
    return depth == 0


def admissible(key, token, t=None):
    if key == '' or ' ' in key or ';' in key or token in key or key == '+' or key[0].isspace() or key[-1].isspace() or '\n' in key:
        return False
    if t is not None:
        if t['inact']:
            return balanced(key)
        if t['form'] == 'omit':
            return not closes_at_end(key)
    return True


def term_value(t):
    """exact value of the written coefficient"""
    return Fraction('%d.%s' % (t['n'], t['frac'])) if t['form'] == 'dec' else Fraction(t['n'])


def expected(a):
    """-> (dicts key -> exact total, dicts key -> written with a decimal?, keys, net effect?, all totals integral?)"""
    exp = {'reac': {}, 'prod': {}, 'inact_reac': {}, 'inact_prod': {}}
    isf = {'reac': {}, 'prod': {}, 'inact_reac': {}, 'inact_prod': {}}
    for side in ('reac', 'prod'):
        for t in a[side]:
            nm = ('inact_' if t['inact'] else '') + side
            exp[nm][t['key']] = exp[nm].get(t['key'], 0) + term_value(t)
            isf[nm][t['key']] = isf[nm].get(t['key'], False) or t['form'] == 'dec'
    keys = set().union(*[set(d) for d in exp.values()])
    effect = any(exp['prod'].get(k, 0) + exp['inact_prod'].get(k, 0) - exp['reac'].get(k, 0) - exp['inact_reac'].get(k, 0) != 0 for k in keys)
    integral = all(Fraction(v).denominator == 1 for d in exp.values() for v in d.values())
    return exp, isf, keys, effect, integral


KW_ITEM = re.compile(r"[ \t]*(name|ref)[ \t]*=[ \t]*(?:'[^'\\\n]*'|(\d+))[ \t]*")
PY_NUM = re.compile(r'[+-]?(?:(?:0+|[1-9]\d*)|(?:\d+\.\d*|\.\d+)(?:[eE][+-]?\d+)?|\d+[eE][+-]?\d+)')


def kw_modelled(kw):
    """own reading of the keyword texts the model claims to understand"""
    if kw.strip(' \t') == '':
        return True
    seen, pos = set(), 0
    while True:
        m = KW_ITEM.match(kw, pos)
        if not m or m.group(1) in seen or (m.group(1) == 'name' and m.group(2) is not None):
            return False
        if m.group(2) is not None and not re.fullmatch(r'0+|[1-9]\d*', m.group(2)):
            return False
        seen.add(m.group(1))
        pos = m.end()
        if pos == len(kw):
            return True
        if kw[pos] != ',':
            return False
        pos += 1


def eval_unmodelled(line, ev):
    """is the keyword / parameter text of this line outside what the model evaluates?"""
    parts = line.rstrip('\n').split(';')
    if len(parts) > 2 and not kw_modelled(';'.join(parts[2:])):
        return True
    if ev and len(parts) > 1:
        p = parts[1].strip()
        quoted = p.startswith("'") and p.endswith("'") and "'" not in p[1:-1]
        if not quoted and p != 'None' and not PY_NUM.fullmatch(p):
            return True
    return False


def reference_line(a, use_float):
    """canonical answer for a written reaction without tail: exact sums (the model) or IEEE sums in written order (Python)"""
    out, net, integral = [], {}, True
    for nm, side, inact in (('reac', 'reac', False), ('prod', 'prod', False), ('inact_reac', 'reac', True), ('inact_prod', 'prod', True)):
        tot, isf = {}, {}
        for t in a[side]:
            if t['inact'] != inact:
                continue
            if t['form'] == 'dec':
                v = float('%d.%s' % (t['n'], t['frac'])) if use_float else Fraction('%d.%s' % (t['n'], t['frac']))
            else:
                v = t['n']
            tot[t['key']] = tot.get(t['key'], 0) + v
            isf[t['key']] = isf.get(t['key'], False) or t['form'] == 'dec'
        for k, v in tot.items():
            integral = integral and Fraction(v).denominator == 1
            net[k] = net.get(k, 0) + (Fraction(v) if nm.endswith('prod') else -Fraction(v))
        out.append('[' + ','.join(esc(k) + ':' + ('f' if isf[k] else 'i') + show_rat(Fraction(tot[k])) for k in sorted(tot)) + ']')
    if not any(v != 0 for v in net.values()) or not integral:
        return 'ValueError:check'
    return 'ok ' + ' '.join(out) + ' - n-'


NUM_TOKEN = re.compile(r'[^\s+()*;=>-]+')


def unmodelled_justified(text):
    """does the text contain a coefficient-like token outside the modelled grammar of int()/float()?
    (non-ASCII characters; inf/nan spellings; floats with more than 15 mantissa digits or a magnitude outside [1e-300, 1e300))"""
    if any(ord(ch) >= 128 for ch in text):
        return True
    for tok in re.split(r'[\s;]+', text):
        t = tok.strip('()').lstrip('+-')
        if t.lower() in ('inf', 'infinity', 'nan'):
            return True
        if '.' in t or 'e' in t or 'E' in t:
            try:
                v = float(t)
            except ValueError:
                continue
            mant = re.split('[eE]', t.replace('_', ''))[0]
            if len(mant.replace('.', '')) > 15:
                return True
            if v != v or v in (float('inf'), float('-inf')) or abs(v) >= 1e300 or (0 < abs(v) < 1e-300):
                return True
            if v == 0 and any(ch in '123456789' for ch in mant):
                return True
    return False


class C12(Property):
    pid = 'C12'
    title = ('parsing a written reaction line yields exactly the written species with the summed coefficients on the written side '
             '(keys may begin with a bracket; "(n X)" terms are inactive; unknown keys rejected); print then parse gives an equal object; copy == original')
    props_module = 'ChemModel.Props.C12'
    build_modules = ('ChemModel.Model.ReactionText', 'ChemModel.Basic.Proto')
    driver = 'ChemModel/Driver/C12.lean'
    n_quick, n_thorough = 2000, 40000
    rule = ('reaction ASTs (1-6 terms per side, coefficients 1..1000 written omitted / "n X" / "n * X", repeated species, inactive "(n X)" groups, '
            'keys rendered from tools/harness/formula_gen.py plus bracket-leading and odd keys, tokens -> and =, parameters over 30 decades, '
            'keyword parts, allowed-key lists) written to text and parsed by the real Reaction/Equilibrium.from_string; Reaction objects printed and re-parsed; '
            'multi-line systems with comments and blank lines; malformed lines (missing/duplicated arrow, too many parts, bad numbers, character mutations); '
            'the string primitives on separator-rich random strings. Non-trivial = distinct JSON value with at least one species.')
    clauses_without_theorem = (
        '"parameters to the printed precision": the theorems hand the parser exactly the printed parameter TEXT; that a %.3g text denotes the value '
        'rounded to 3 significant digits is C20\'s theorem, the composition (eval of the text) is checked by the oracle only '
        '(from_string(r.string(with_param=True)).param == float("%.3g" % p), parameters over 30 decades)',
        '"; keyword=value" parts: eval is not modelled; the model recognises only name=/ref= texts (keyword_name_read) and answers Unmodelled for every other keyword text '
        '(checks=(), several parts that do not re-join, malformed text); parse_written is stated for lines with at most the parameter part; what Python does with the other keyword '
        'texts (e.g. `A -> A; 1; checks=()` returns the reaction) is neither modelled nor claimed by the oracle',
        '"a copy compares equal to its original": theorem copy_eq over a copy that goes through the constructor\'s _init_stoich with the container kind (dict/OrderedDict/set) modelled; '
        'that the copy shares no mutable state, keeps name/ref/data and the class is oracle-only; NaN parameters violate equality (finding 7, parameter equality is reflexive in the model)',
        'decimal coefficients: the model adds exact rationals, Python adds doubles; parse_written carries the hypothesis floatSafe (dyadic fractions, totals < 2^38) under which both agree '
        '(IEEE exactness is an argument in the docstring, not a Lean proof); outside it (1.2 A + 1.4 A + 1.4 A) the harness checks the model against the exact and Python against the IEEE reference; '
                'decimal coefficients: theorem for texts "n.ddd" with n >= 1 and at most 15 digits (exact value); exponent forms (1e2), leading-dot forms, signs, '
        'underscores and the float rounding of sums of non-dyadic decimals are correspondence-only',
        'keys that contain the arrow token (e.g. C=O in an equilibrium line) or ";" are excluded from parse_written (witness: token_in_key_missplit_witness); '
        'named reactions / named systems do not round-trip (witnesses); both are outside the theorems\' hypotheses',
        'system round trip: theorem covers unnamed systems of reactions with sorted int dictionaries; ReactionSystem-level checks (balance, substance_keys, duplicates), '
        'substance construction (substance_factory) and ReactionSystem.__eq__ on substances are oracle-only',
        '"parameters to the printed precision" composition with C20 (NumText (fmtG 3 x) for every x, and the value that text denotes) is still missing: the C12 theorems take NumText p as a hypothesis; the oracle checks the value',
        'Reaction.__eq__ on foreign / identical operands (eq_iff covers reaction operands; checks / dont_check lists are characterised by init_checks_list_iff / init_dont_check_iff up to the Python set order of several failing checks), unknown printer settings and '
        'fallback_print_fn=None: modelled (initChecks, anyEffect/allPositive/allIntegral, Reaction.eq, printReactionWith) and compared case by case with the real code and an independent '
        'oracle, but stated as theorems only where they touch the property (parsed_passes_default_checks, copy_eq); the set order in which several failing checks raise is not modelled',
        'the quoted parameter form: theorem quoted_param_is_symbol is about the text classification; that the real object is MassAction(Symbol(unique_keys=(k,))) and prints back as \'k\' is oracle-only',
        'unit-carrying parameters: printed as "<%.3g of the magnitude> <dimensionality>" is an oracle-only claim (not modelled; such text does not re-parse)',
    )
    _base_assumptions = ('eval of the parameter text and of "; key=value" parts is not modelled (the model keeps the text; compared numerically through float())',
                   'coefficient tokens: ASCII only, decimal floats with <= 15 mantissa digits and magnitude in [1e-300, 1e300); outside this the model answers Unmodelled; '
                   'such an answer is accepted only when the harness finds such a token in the text (unmodelled_justified), it is counted below, and more than 1 % of them is a failure',
                   'float rounding of sums of decimal coefficients is not modelled (the generator sums only dyadic decimals: .0 .5 .25 .75 .125)',
                   'parameters carrying units and quoted \'k\' parameters are outside the model',
                   'the order in which the default checks of Reaction.__init__ run is a set order: only the exception class is compared for them',
                   'the %.3g text of a float parameter is produced by Python\'s % operator in the harness (C20 models it)')
    @property
    def assumptions(self):
        return self._base_assumptions + (
            'Unmodelled model answers in this run: %d of %d compared (by op: %s); every one justified by a token outside the modelled number grammar'
            % (sum(self._unmodelled.values()), self._compared, dict(self._unmodelled)),)

    _unmodelled = {}
    _compared = 0

    anchors = (('chempy/util/parsing.py', '_parse_multiplicity'), ('chempy/util/parsing.py', '_is_inactive_term'),
               ('chempy/util/parsing.py', 'to_reaction'), ('chempy/chemistry.py', 'Reaction._init_stoich'),
               ('chempy/chemistry.py', 'Reaction.__init__'), ('chempy/chemistry.py', 'Reaction.from_string'),
               ('chempy/chemistry.py', 'Reaction.copy'), ('chempy/chemistry.py', 'Reaction.string'), ('chempy/chemistry.py', 'Reaction.__eq__'),
               ('chempy/chemistry.py', 'Reaction.check_any_effect'), ('chempy/chemistry.py', 'Reaction.check_all_positive'),
               ('chempy/chemistry.py', 'Reaction.check_all_integral'), ('chempy/chemistry.py', 'Reaction.net_stoich'),
               ('chempy/chemistry.py', 'Reaction.keys'),
               ('chempy/reactionsystem.py', 'ReactionSystem.from_string'),
               ('chempy/printing/string.py', 'StrPrinter._Reaction_parts'), ('chempy/printing/string.py', 'StrPrinter._Reaction_str'),
               ('chempy/printing/string.py', 'StrPrinter._Reaction_param_str'), ('chempy/printing/string.py', 'StrPrinter._print_Reaction'),
               ('chempy/printing/string.py', 'StrPrinter._print_ReactionSystem'),
               ('chempy/printing/printer.py', 'Printer.__init__'), ('chempy/printing/printer.py', 'Printer._get'),
               ('chempy/printing/printer.py', 'Printer._print'))

    # ------------------------------------------------------------------ generation
    def _key(self, rng, tier):
        r = rng.random()
        if r < 0.18:
            return rng.choice(BRACKET_KEYS)
        if r < 0.30:
            return rng.choice(fg.WELL_KNOWN)
        if r < 0.36:
            return rng.choice(ODD_KEYS)
        if r < 0.50:
            return rng.choice('ABCDEFGXYZ') + rng.choice(['', '', '2', '+', '-', '(aq)', "'"])
        return fg.render(fg.gen_formula(rng, max_depth=2 if tier == 'quick' else 4))

    def _coef(self, rng):
        r = rng.random()
        if r < 0.45:
            return 1
        if r < 0.85:
            return rng.randint(2, 12)
        return rng.choice([rng.randint(13, 1000), 1000, 100, 10, 999])

    def _term(self, rng, pool, token, inact_ok=True):
        for _ in range(50):
            key = rng.choice(pool)
            n = self._coef(rng)
            form = rng.choice(['omit', 'plain', 'plain', 'star']) if n == 1 else rng.choice(['plain', 'plain', 'plain', 'star'])
            t = {'key': key, 'n': n, 'form': form, 'inact': inact_ok and rng.random() < 0.12}
            if self._decimals and rng.random() < 0.45:
                t['form'] = 'dec'
                t['n'] = rng.choice([1, 1, 2, 3, 10, 12, rng.randint(1, 1000)])
                t['frac'] = rng.choice(['0', '0', '5', '5', '00', '50', '25', '75', '125', '000', '500'])
            if admissible(key, token, t):
                return t
        return {'key': 'H2O', 'n': 1, 'form': 'omit', 'inact': False}

    _decimals = False

    SAFE_KEYS = ['H2O', 'H+', 'OH-', 'NaCl', 'Na+', 'Cl-', 'H2', 'O2', 'CO2', 'H2O2', 'NH4+', 'NH3', 'Fe+3', 'Fe+2', 'SO4-2', 'e-']

    def _ast(self, rng, tier, inact_ok=True, pool=None):
        self._decimals = rng.random() < 0.2          # one reaction in five is written with decimal coefficients
        token = '->' if rng.random() < 0.6 else '='
        npool = rng.randint(1, 7)
        pool = [self._key(rng, tier) for _ in range(npool)] if pool is None else rng.sample(pool, min(len(pool), npool + 1))
        nmax = 6 if tier == 'quick' else 9
        nr = rng.choice([0, 1, 1, 2, 2, 3, 4, rng.randint(1, nmax)])
        np_ = rng.choice([0, 1, 1, 2, 2, 3, 4, rng.randint(1, nmax)])
        a = {'token': token,
             'reac': [self._term(rng, pool, token, inact_ok) for _ in range(nr)],
             'prod': [self._term(rng, pool, token, inact_ok) for _ in range(np_)]}
        return a

    def _param_text(self, rng):
        mant = rng.choice([rng.randint(1, 9999), rng.random() * 10, 1, 2.5])
        ex = rng.randint(-15, 15)
        r = rng.random()
        if r < 0.4:
            return repr(float('%se%d' % (mant, ex)))
        if r < 0.7:
            return '%se%d' % (mant, ex)
        if r < 0.85:
            return str(rng.randint(0, 10 ** rng.randint(0, 9)))
        return '%.3g' % float('%se%d' % (mant, ex))

    def _written_case(self, rng, tier):
        a = self._ast(rng, tier)
        r = rng.random()
        if r < 0.35:
            a['param'] = rng.choice(['', ' ', '  ']) + self._param_text(rng) + rng.choice(['', ' ', '\t'])
            a['eval'] = rng.choice([False, True, True, 'default'])        # globals_=False / {} / None (the default parsing context)
            if rng.random() < 0.2:
                a['sym'] = rng.choice(['k', 'k_1', 'kf', 'K w', 'a+b', ''])
                a['param'] = rng.choice(['', ' ']) + "'" + a['sym'] + "'" + rng.choice(['', ' '])
            if rng.random() < 0.3:
                a['kw'] = rng.choice(["name='r%d'" % rng.randint(0, 99), "ref='doi:10/x'", "name='a b', ref=3"])
        a['lead'] = rng.choice(['', '', '', ' ', '  ', '\t'])
        a['trail'] = rng.choice(['', '', '', '\n', ' ', ' \n', '\n\n'])
        exp, isf, keys, effect, integral = expected(a)
        r = rng.random()
        allowed = None
        if r < 0.12 and keys:
            ks = sorted(keys)
            rng.shuffle(ks)
            allowed = ks + [self._key(rng, tier) for _ in range(rng.randint(0, 2))]
        elif r < 0.22 and keys:
            ks = sorted(keys)
            drop = rng.choice(ks)
            allowed = [k for k in ks if k != drop] + ['Zz']
        elif r < 0.27 and len(keys) >= 1:
            allowed = ' '.join(sorted(keys) + ['Qq'])          # the str form with spaces: split()
        a['allowed'] = allowed
        return {'kind': 'written', 'op': 'parse', 'ast': a, 'line': write_line(a), 'token': a['token'], 'allowed': allowed,
                'eval': a.get('eval', False)}

    def _mutate(self, rng, s):
        if not s:
            return s
        i = rng.randrange(len(s))
        r = rng.random()
        alphabet = ' +->=();*#.e12\t\nA'
        if r < 0.3:
            return s[:i] + s[i + 1:]
        if r < 0.55:
            return s[:i] + s[i] + s[i:]
        if r < 0.8:
            return s[:i] + rng.choice(alphabet) + s[i:]
        j = rng.randrange(len(s))
        l = list(s)
        l[i], l[j] = l[j], l[i]
        return ''.join(l)

    def _nd_case(self, rng):
        """repeated species with non-dyadic decimal coefficients: exact and IEEE sums may differ"""
        token = rng.choice(['->', '='])
        fr = lambda: rng.choice(['1', '2', '3', '4', '6', '7', '9', '15', '35', '05'])
        term = lambda k: {'key': k, 'n': rng.randint(1, 3), 'form': 'dec', 'frac': fr(), 'inact': False}
        a = {'token': token, 'reac': [term(rng.choice('AB')) for _ in range(rng.randint(2, 5))],
             'prod': [{'key': 'Zz', 'n': rng.randint(1, 3), 'form': rng.choice(['plain', 'plain', 'dec']), 'frac': '0', 'inact': False}]}
        return {'kind': 'raw', 'op': 'parse', 'line': write_line(a), 'token': token, 'allowed': None, 'eval': False, 'nd_ast': a}

    def _evalish_case(self, rng):
        """keyword / parameter texts that reach eval: several keyword parts, constructor keywords, malformed expressions"""
        token = '->'
        st = rng.choice(['A -> B', 'A -> A', 'A B', '2 A -> 3 B', 'A -> B -> C'])
        tail = rng.choice(["; 1; name='a'; ref='b'", "; 1; checks=()", "; 1; )(", "; 1/0", "; 1; param=3", ";", "; 1; name='a;b'", "; 1; name='x', ref=12",
                           "; None; ref='r'", "; 1; dont_check={'any_effect'}", "; 2*3", "; 1; inact_reac={'Q': 1}", "; 1; name = 'sp ace' ", "; 1; ",
                           "; 1; name='a', name='b'", "; 1; ref=007", "; 1e3; ref=0", "; .5"])
        return {'kind': 'raw', 'op': 'parse', 'line': st + tail, 'token': token, 'allowed': None, 'eval': rng.choice([False, True, 'default'])}

    def _raw_case(self, rng, tier):
        r0 = rng.random()
        if r0 < 0.04:
            return self._nd_case(rng)
        if r0 < 0.07:
            return self._evalish_case(rng)
        r = rng.random()
        token = '->' if rng.random() < 0.6 else '='
        allowed = None
        if r < 0.35:
            a = self._ast(rng, tier)
            token = a['token']
            s = write_line(a)
            for _ in range(rng.randint(1, 3)):
                s = self._mutate(rng, s)
        elif r < 0.55:
            toks = ['A', 'B', 'H2O', '2', '3', '10', '2.0', '1.5', '0.5', '1e2', '1E2', '-2', '+3', '0', '1_0', '1__0', '_1', '.5', '5.', '.', 'e', '1e', 'e5',
                    '*', '+', '->', '=', '(', ')', '(2', 'A)', '(A)', '(2 A)', '(2 * A)', '()', ';', '#', '2.50e1', '0x10', '007', '1e-2', '2e0', '1.0e+1', 'inf', 'nan',
                    '(NH4)2SO4', '((A))', "'k'", '1e400', '1e-400', '12345678901234567890', '1.234567890123456789']
            parts = [rng.choice(toks) for _ in range(rng.randint(1, 9))]
            if rng.random() < 0.7 and token not in parts:
                parts.insert(rng.randrange(len(parts) + 1), token)
            s = rng.choice([' ', ' ', ' ', '  ', '']).join(parts) if rng.random() < 0.2 else ' '.join(parts)
        elif r < 0.7:
            a = self._ast(rng, tier)
            token = a['token']
            s = write_line(a)
            s = s + ' ' + token + ' ' + write_term(self._term(rng, ['A', 'B', 'C'], token))        # second arrow
        elif r < 0.85:
            # numeric coefficient forms (decimal / exponent / sign / underscore), possibly repeated species
            keys = [rng.choice('ABC') for _ in range(rng.randint(1, 3))]
            num = lambda: rng.choice(['2.0', '3.00', '1e1', '1e0', '2.5e1', '0.5', '1.5', '2.25', '4.0e0', '+2', '-1', '0', '00', '1_000', '1.', '.5', '2e2', '10.0',
                                      '0.25', '0.75', '1e-1', '1E1', ' 2', '2\t', '\t3'])
            s = ' + '.join('%s %s' % (num(), k) for k in keys) + ' ' + token + ' ' + rng.choice(['D', '2 D', 'A', ''])
        else:
            a = self._ast(rng, tier)
            token = a['token']
            s = write_line(a)
            allowed = rng.choice([rng.choice(sorted(expected(a)[2]) or ['A']), 'H2O', 'AB', '', 'A B', ' A', 'A '])   # str forms
        return {'kind': 'raw', 'op': 'parse', 'line': s, 'token': token, 'allowed': allowed, 'eval': False}

    def _rxn_obj(self, rng, tier, inact_ok=False, floats=False):
        """a reaction object (sorted unique keys, coefficients >= 1) as JSON"""
        token = '->' if rng.random() < 0.6 else '='
        pool = []
        while len(pool) < rng.randint(2, 8):
            k = self._key(rng, tier)
            if admissible(k, token) and not closes_at_end(k) and k not in pool:
                pool.append(k)

        def side(nmax, p=1.0):
            ks = rng.sample(pool, min(len(pool), rng.randint(0, nmax))) if rng.random() < p else []
            return [[k, self._coef(rng), floats and rng.random() < 0.2] for k in sorted(ks)]
        o = {'arrow': token, 'reac': side(5), 'prod': side(5),
             'inact_reac': side(2, 0.25) if inact_ok else [], 'inact_prod': side(2, 0.25) if inact_ok else [],
             'param': None, 'name': None}
        return o

    def _print_case(self, rng, tier):
        o = self._rxn_obj(rng, tier, inact_ok=True, floats=True)
        if rng.random() < 0.2:
            for side in ('reac', 'prod'):
                if o[side] and rng.random() < 0.5:
                    o[side][rng.randrange(len(o[side]))][1] = rng.choice([0, -1, -3])
        r = rng.random()
        if r < 0.5:
            o['pval'] = rng.choice([float(self._param_text(rng)), rng.randint(0, 10 ** 6)])
        if rng.random() < 0.3:
            o['name'] = rng.choice(['R1', 'my reaction', 'k_2', 'x'])
        o['with_param'] = rng.random() < 0.7
        o['with_name'] = rng.random() < 0.5
        r = rng.random()
        if r < 0.08:
            o['settings'] = rng.sample(['bogus', 'Reaction_arow', 'with_params', 'substance', 'colour'], rng.randint(1, 2))
        elif r < 0.16:
            o['no_fallback'] = True
        o.update({'kind': 'print', 'op': 'print'})
        return o

    def _roundtrip_case(self, rng, tier):
        o = self._rxn_obj(rng, tier)
        if rng.random() < 0.4:
            o['pval'] = float(self._param_text(rng))
        o.update({'kind': 'roundtrip', 'op': 'roundtrip'})
        return o

    def _float_rt_case(self, rng, tier):
        """print -> parse with float coefficients that need 13-17 significant digits (checks=() on both sides)"""
        token = '->' if rng.random() < 0.6 else '='
        keys = rng.sample(['A', 'B', 'C', 'H2O', '(NH4)2SO4', 'Fe+3', 'e-', 'X(aq)'], rng.randint(2, 5))

        def val():
            r = rng.random()
            if r < 0.25:
                return sum(rng.choice([1.1, 2.2, 0.1, 0.2, 0.7, 1.4, 1.2, 3.3]) for _ in range(rng.randint(2, 4)))
            if r < 0.45:
                return rng.randint(1, 20) / rng.choice([3, 7, 9, 11, 13])
            if r < 0.6:
                return rng.randint(1, 9) + rng.choice([1e-15, 2e-15, 4.4e-16, -4.4e-16, 1e-13, 1e-12])
            if r < 0.8:
                return rng.random() * 10 ** rng.randint(-3, 6)
            return float(rng.randint(1, 10 ** 6)) / 10 ** rng.randint(1, 8)
        nr = rng.randint(1, len(keys) - 1)
        return {'kind': 'float_rt', 'arrow': token, 'reac': [[k, repr(val())] for k in sorted(keys[:nr])],
                'prod': [[k, repr(val())] for k in sorted(keys[nr:])],
                'sumline': ' + '.join('%s %s' % (rng.choice(['1.1', '2.2', '0.1', '0.2', '1.4', '1.2', '0.7']), rng.choice('AB')) for _ in range(rng.randint(2, 4)))}

    COMMENT_SETS = [None, None, None, ['#'], ['//'], ['#', '%%'], ['%'], ['//', '#'], ['rem'], ['--', ';;'], ['#', '//', '!']]

    def _system_case(self, rng, tier):
        token = '->' if rng.random() < 0.7 else '='
        cts = rng.choice(self.COMMENT_SETS)
        toks = cts if cts is not None else ['#']
        opt = rng.choice(['checks', 'checks', 'dont_check', 'factory_lambda', 'factory_default'])
        safe = self.SAFE_KEYS if opt == 'factory_default' else None
        lines, asts = [], []
        foreign = False
        for _ in range(rng.randint(0, 7)):
            r = rng.random()
            if r < 0.2:
                lines.append(rng.choice(['', ' ', '\t', '   ']))
            elif r < 0.45:
                ct = rng.choice(toks)
                if rng.random() < 0.08:
                    ct = rng.choice(['#', '//', '%%', '%', 'rem', '!'])         # maybe a token that is NOT a comment here
                    foreign = foreign or not any(ct.startswith(x) for x in toks)
                lines.append(rng.choice(['', '', ' ', '\t', '    ']) + ct + rng.choice(['', ' comment', ' A -> B', ct, ' 2 H2O = x; 3', 'x']))
            else:
                for _ in range(20):
                    a = self._ast(rng, tier, pool=safe)
                    a['token'] = token
                    ok = all(admissible(t['key'], token, t) for t in a['reac'] + a['prod'])
                    e = expected(a)
                    if ok and e[3] and e[4] and not any(write_line(a).strip().startswith(x) for x in toks):
                        break
                else:
                    continue
                if rng.random() < 0.3:
                    a['param'] = self._param_text(rng)
                a['lead'] = rng.choice(['', '', ' '])
                asts.append(a)
                lines.append(write_line(a))
        text = '\n'.join(lines) + rng.choice(['', '\n', '\n\n'])
        if foreign:
            asts = None
        if rng.random() < 0.1 and opt != 'factory_default':
            text = self._mutate(rng, text)
            asts = None
        if opt == 'factory_default' and asts is None:
            opt = 'checks'
        return {'kind': 'system', 'op': 'system_parse', 'text': text, 'token': token, 'allowed': None, 'asts': asts,
                'comment_tokens': cts, 'eqsystem': token == '=' and rng.random() < 0.6,
                'opt': opt}

    def _copy_case(self, rng, tier):
        """a reaction built from containers of arbitrary kind and order, possibly edited in place, then copied"""
        token = '->' if rng.random() < 0.5 else '='
        pool = []
        while len(pool) < rng.randint(3, 9):
            k = self._key(rng, tier)
            if admissible(k, token) and k not in pool:
                pool.append(k)
        kinds, sides = [], {}
        for nm, p in (('reac', 1.0), ('prod', 1.0), ('inact_reac', 0.3), ('inact_prod', 0.3)):
            kind = rng.choice(['dict', 'ordered', 'ordered', 'set'])
            ks = rng.sample(pool, min(len(pool), rng.randint(0 if nm.startswith('inact') else 1, 4))) if rng.random() < p else []
            if kind == 'dict':
                ks = ks[:]           # insertion order of a plain dict is irrelevant: the constructor sorts
            items = [[k, 1 if kind == 'set' else self._coef(rng), False] for k in ks]
            kinds.append(kind)
            sides[nm] = items
        edits = []
        for _ in range(rng.choice([0, 0, 1, 2])):
            side = rng.choice(['reac', 'prod'])
            if sides[side]:
                old = rng.choice(sides[side])[0]
                new = rng.choice(pool + ['Q9', 'aa'])
                if not any(e[0] == side for e in edits) and new != old:
                    edits.append([side, old, new])
        c = {'kind': 'copy', 'op': 'copy', 'arrow': token, 'kinds': kinds, 'edits': edits,
             'name': rng.choice([None, None, 'R1', 'my reaction']), 'data': rng.choice([None, {'ref': [1, 2]}, {'T': 298}]),
             'pval': rng.choice([None, None, float(self._param_text(rng)), rng.randint(0, 10 ** 6)])}
        c.update(sides)
        return c

    CHECKS = ['any_effect', 'all_positive', 'all_integral', 'consistent_units']

    def _construct_case(self, rng, tier):
        """the constructor itself: containers of any kind, coefficients that may be zero / negative / fractional, `checks` / `dont_check`"""
        c = self._copy_case(rng, tier)
        c['edits'] = []
        for nm in ('reac', 'prod', 'inact_reac', 'inact_prod'):
            for it, kind in zip(c[nm], [c['kinds'][('reac', 'prod', 'inact_reac', 'inact_prod').index(nm)]] * len(c[nm])):
                if kind != 'set' and rng.random() < 0.25:
                    it[1], it[2] = rng.choice([(0, False), (-1, False), (-2, False), ([3, 2], True), ([1, 2], True), (2, True), (0, True), ([-5, 2], True)])
        if rng.random() < 0.3 and c['reac']:
            c['prod'] = [list(x) for x in c['reac']]          # no net effect
            c['kinds'][1] = c['kinds'][0]
        r = rng.random()
        c['checks'] = c['dont_check'] = None
        if r < 0.3:
            c['checks'] = rng.sample(self.CHECKS, rng.randint(0, 4))
        elif r < 0.6:
            c['dont_check'] = rng.sample(self.CHECKS, rng.randint(0, 4))
        elif r < 0.7:
            c['checks'] = rng.sample(self.CHECKS, rng.randint(0, 2))
            c['dont_check'] = rng.sample(self.CHECKS, rng.randint(0, 2))
        elif r < 0.75:
            c['dont_check'] = ['no_such_check']
            c['prod'] = [['Zq', 1, False]]
            c['kinds'][1] = 'dict'
            c['reac'] = [it for it in c['reac'] if it[0] != 'Zq' and (it[2] is False and isinstance(it[1], int) and it[1] > 0)] or [['A', 1, False]]
            c['inact_reac'], c['inact_prod'] = [], []
        c.update({'kind': 'construct', 'op': 'construct', 'pval': None, 'data': None})
        return c

    def _eq_case(self, rng, tier):
        """two reaction objects compared with ==: equal, or differing in exactly one place"""
        a = self._copy_case(rng, tier)
        a['edits'] = []
        a['kinds'] = ['ordered'] * 4
        import copy as _c
        b = _c.deepcopy(a)
        how = rng.choice(['same', 'same', 'order', 'coef', 'key', 'param', 'name', 'inact', 'side', 'float', 'class'])
        if how == 'order':
            side = rng.choice(['reac', 'prod'])
            b[side] = list(reversed(b[side]))
        elif how == 'coef' and b['prod']:
            b['prod'][0][1] += 1
        elif how == 'key' and b['reac']:
            b['reac'][0][0] += 'x'
        elif how == 'param':
            b['pval'] = (a['pval'] or 0) + 1
        elif how == 'name':
            b['name'] = 'other'
        elif how == 'inact':
            b['inact_reac'] = b['inact_reac'] + [['Qx', 2, False]]
        elif how == 'side':
            b['reac'], b['prod'] = b['prod'], b['reac']
        elif how == 'float' and b['reac']:
            b['reac'][0][2] = True
        elif how == 'class':
            b['arrow'] = '=' if a['arrow'] == '->' else '->'
        return {'kind': 'eq', 'op': 'eq', 'a': a, 'b': b, 'how': how}

    def _unit_case(self, rng, tier):
        o = self._rxn_obj(rng, tier)
        o.update({'kind': 'unit_param', 'mag': float(self._param_text(rng)), 'unit': rng.choice(['second', 'molar_second', 'hour'])})
        return o

    def _system_rt_case(self, rng, tier):
        token = '->' if rng.random() < 0.7 else '='
        objs = []
        for _ in range(rng.randint(0, 5)):
            o = self._rxn_obj(rng, tier)
            o['arrow'] = token
            if any(not admissible(k, token) or k.startswith('#') for k, _, _ in o['reac'] + o['prod']):
                continue
            if rng.random() < 0.5:
                o['pval'] = float(self._param_text(rng))
            objs.append(o)
        return {'kind': 'system_rt', 'op': 'system_print', 'arrow': token, 'rxns': objs, 'with_param': True, 'with_name': True, 'name': None}

    def _prim_case(self, rng):
        alpha = ' +*->=();\n\tAB2#'
        s = ''.join(rng.choice(alpha) for _ in range(rng.randint(0, 14)))
        r = rng.random()
        if r < 0.25:
            return {'kind': 'prim', 'op': 'split', 'sep': rng.choice([' + ', ';', '->', '=', '\n', '++', ' ', 'AA', '  ']), 's': s}
        if r < 0.45:
            return {'kind': 'prim', 'op': 'resplit', 's': s}
        if r < 0.55:
            ws = ' \t\n\x0b\x0c\r\x1c\x1d\x1e\x1f\x85\xa0        　​﻿A'
            s2 = ''.join(rng.choice(ws) for _ in range(rng.randint(0, 4))) + s + ''.join(rng.choice(ws) for _ in range(rng.randint(0, 4)))
            return {'kind': 'prim', 'op': rng.choice(['strip', 'words']), 's': s2}
        if r < 0.85:
            par = ''.join(rng.choice('()()A 2') for _ in range(rng.randint(0, 9)))
            t = rng.choice([par, '(' + par + ')', '(' + par, rng.choice(BRACKET_KEYS + ODD_KEYS), '(2 ' + rng.choice(BRACKET_KEYS) + ')'])
            return {'kind': 'prim', 'op': 'inactive', 'term': t}
        ks = list({''.join(rng.choice('AaBb(2[+-é·') for _ in range(rng.randint(0, 4))) for _ in range(rng.randint(0, 7))})
        rng.shuffle(ks)
        return {'kind': 'prim', 'op': 'sorted', 'keys': ks}

    def generate(self, rng, n, tier):
        cases = []
        for i in range(n):
            r = rng.random()
            if r < 0.40:
                cases.append(self._written_case(rng, tier))
            elif r < 0.58:
                cases.append(self._raw_case(rng, tier))
            elif r < 0.60:
                cases.append(self._copy_case(rng, tier))
            elif r < 0.615:
                cases.append(self._construct_case(rng, tier))
            elif r < 0.63:
                cases.append(self._eq_case(rng, tier))
            elif r < 0.633:
                cases.append(self._unit_case(rng, tier))
            elif r < 0.645:
                cases.append(self._float_rt_case(rng, tier))
            elif r < 0.69:
                cases.append(self._print_case(rng, tier))
            elif r < 0.78:
                cases.append(self._roundtrip_case(rng, tier))
            elif r < 0.86:
                cases.append(self._system_case(rng, tier))
            elif r < 0.90:
                cases.append(self._system_rt_case(rng, tier))
            else:
                cases.append(self._prim_case(rng))
        return cases

    # ------------------------------------------------------------------ model cases
    @staticmethod
    def _ptext(v):
        """what StrPrinter prints for a parameter: '%.3g' for floats, str() otherwise"""
        return ('%.3g' % v) if isinstance(v, float) else str(v)

    def _mobj(self, o):
        return {'reac': o['reac'], 'prod': o['prod'], 'inact_reac': o['inact_reac'], 'inact_prod': o['inact_prod'],
                'param': self._ptext(o['pval']) if o.get('pval') is not None else None, 'name': o.get('name')}

    def model_case(self, c):
        k = c.get('kind')
        if k in ('written', 'raw'):
            return {'op': 'parse', 'line': c['line'], 'token': c['token'], 'allowed': c['allowed'], 'eval': c.get('eval', False),
                    'nd_ast': c.get('nd_ast')}
        if k == 'print':
            m = self._mobj(c)
            m.update({'op': 'print', 'arrow': c['arrow'], 'with_param': c['with_param'], 'with_name': c['with_name'], 'pval': c.get('pval'),
                      'settings': c.get('settings'), 'no_fallback': bool(c.get('no_fallback', False))})
            return m
        if k == 'construct':
            m = self._mobj(c)
            m.update({'op': 'construct', 'arrow': c['arrow'], 'kinds': c['kinds'], 'checks': c['checks'], 'dont_check': c['dont_check']})
            return m
        if k == 'eq':
            ex = lambda o: dict(self._mobj(o), arrow=o['arrow'], kinds=o['kinds'], pval=o.get('pval'),
                                param=None if o.get('pval') is None else repr(o['pval']))     # exact text: == compares values
            return {'op': 'eq', 'a': ex(c['a']), 'b': ex(c['b'])}
        if k == 'copy':
            m = self._mobj(c)
            m.update({'op': 'copy', 'arrow': c['arrow'], 'kinds': c['kinds'], 'edits': c['edits'], 'pval': c.get('pval'), 'data': c.get('data')})
            return m
        if k == 'roundtrip':
            m = self._mobj(c)
            m['param'] = None
            m.update({'op': 'roundtrip', 'arrow': c['arrow']})
            return m
        if k == 'system':
            return {'op': 'system_parse', 'text': c['text'], 'token': c['token'], 'allowed': None,
                    'comment_tokens': c.get('comment_tokens'), 'eqsystem': c.get('eqsystem', False), 'opt': c.get('opt', 'checks')}
        if k == 'system_rt':
            return {'op': 'system_print', 'arrow': c['arrow'], 'rxns': [dict(self._mobj(o), pval=o.get('pval')) for o in c['rxns']],
                    'with_param': True, 'with_name': True, 'name': c.get('name')}
        if k == 'prim':
            return {kk: v for kk, v in c.items() if kk != 'kind'}
        return c if c.get('op') else None

    # ------------------------------------------------------------------ the real code
    @staticmethod
    def _cls(token):
        from chempy import Reaction, Equilibrium
        return {'->': Reaction, '=': Equilibrium}[token]

    def _parse_real(self, line, token, allowed, ev):
        if ev == 'default':
            return self._cls(token).from_string(line, allowed)            # globals_=None: get_parsing_context()
        return self._cls(token).from_string(line, allowed, globals_={} if ev else False)

    def _build(self, o, arrow=None, checks=None):
        d = lambda l: {k: (float(v) if fl else v) for k, v, fl in l}
        kw = {} if checks is None else {'checks': checks}
        return self._cls(arrow or o['arrow'])(d(o['reac']), d(o['prod']), o.get('pval'), inact_reac=d(o['inact_reac']),
                                              inact_prod=d(o['inact_prod']), name=o.get('name'), **kw)

    def _system_real(self, c, globals_):
        """ReactionSystem.from_string / EqSystem.from_string with the optional arguments of the case"""
        from chempy import ReactionSystem, Substance
        if c.get('eqsystem'):
            from chempy.equilibria import EqSystem
            cls = EqSystem
        else:
            cls = type('RS', (ReactionSystem,), {'_BaseReaction': self._cls(c['token'])})
        kw = {'substance_factory': Substance}
        opt = c.get('opt', 'checks')
        if opt == 'dont_check':
            kw['dont_check'] = {'balance', 'substance_keys', 'duplicate', 'duplicate_names'}
        elif opt == 'factory_lambda':
            kw['substance_factory'] = lambda k: Substance(k)
            kw['checks'] = ()
            kw['sort_substances'] = False
        elif opt == 'factory_default':
            del kw['substance_factory']          # the default: cls._BaseSubstance.from_formula (keys of these cases are formulas)
            kw['checks'] = ()
        else:
            kw['checks'] = ()
        if c.get('comment_tokens') is not None:
            kw['comment_tokens'] = tuple(c['comment_tokens'])
        return cls.from_string(c['text'], None, rxn_parse_kwargs={'globals_': globals_}, **kw)

    def _build_copy_case(self, c, ctor_kw=None):
        """the real object of a copy case: containers of the given kinds, constructor without checks, in-place edits"""
        from collections import OrderedDict
        conts = []
        for kind, nm in zip(c['kinds'], ('reac', 'prod', 'inact_reac', 'inact_prod')):
            items = [(k, (float(Fraction(*v)) if isinstance(v, list) else float(v)) if fl else v) for k, v, fl in c[nm]]
            conts.append({'dict': dict, 'ordered': OrderedDict}[kind](items) if kind != 'set' else {k for k, _ in items})
        if ctor_kw is None:
            ctor_kw = {'checks': ()}
        r = self._cls(c['arrow'])(conts[0], conts[1], c.get('pval'), inact_reac=conts[2], inact_prod=conts[3], name=c.get('name'),
                                  data=c.get('data'), **ctor_kw)
        for side, old, new in c['edits']:
            d = getattr(r, side)
            d[new] = d.pop(old)
        return r

    def impl(self, c):
        import chempy
        from chempy.util import parsing
        op = c['op']
        try:
            if op == 'parse':
                try:
                    r = self._parse_real(c['line'], c['token'], c['allowed'], c.get('eval', False))
                except Exception as e:
                    return err_tag(e)
                nm = 'n-' if r.name is None else ('n"%s"' % esc(r.name) if isinstance(r.name, str) else 'n=' + repr(r.name))
                return 'ok ' + show_rxn(r) + ' ' + nm
            if op == 'multiplicity':
                try:
                    return 'ok ' + show_dict(parsing._parse_multiplicity(c['strings'], c['allowed']))
                except Exception as e:
                    return err_tag(e)
            if op == 'inactive':
                return str(bool(parsing._is_inactive_term(c['term'])))
            if op == 'split':
                return show_strs(c['s'].split(c['sep']))
            if op == 'resplit':
                return show_strs(re.split(' \\* | ', c['s']))
            if op == 'strip':
                return '"' + esc(c['s'].strip()) + '"'
            if op == 'words':
                return show_strs(c['s'].split())
            if op == 'sorted':
                return show_strs(list(chempy.Reaction._init_stoich({k: 1 for k in c['keys']}).keys()))
            if op == 'print':
                r = self._build(c, checks=())
                kw = {k: 1 for k in (c.get('settings') or [])}
                if c.get('no_fallback'):
                    kw['fallback_print_fn'] = None
                try:
                    return '"' + esc(r.string(with_param=c['with_param'], with_name=c['with_name'], **kw)) + '"'
                except ValueError as e:
                    return err_tag(e)
            if op == 'roundtrip':
                r = self._build(c, checks=())
                try:
                    r2 = self._cls(c['arrow']).from_string(r.string(), globals_=False)
                except Exception as e:
                    return err_tag(e)
                return str(r2 == r)
            if op == 'construct':
                probe = self._build_copy_case(dict(c, edits=[], pval=None, data=None))         # checks=()
                preds = '%s %s %s' % (probe.check_any_effect(), probe.check_all_positive(), probe.check_all_integral())
                kw = {}
                if c.get('checks') is not None:
                    kw['checks'] = tuple(c['checks'])
                if c.get('dont_check') is not None:
                    kw['dont_check'] = set(c['dont_check'])
                try:
                    r = self._build_copy_case(dict(c, edits=[], pval=None, data=None), kw)
                except ValueError as e:
                    return err_tag(e) + ' | ' + preds
                except AttributeError:
                    return 'AttributeError | ' + preds
                return 'ok %s %s %s %s | %s' % (show_dict(r.reac), show_dict(r.prod), show_dict(r.inact_reac), show_dict(r.inact_prod), preds)
            if op == 'eq':
                a = self._build_copy_case(dict(c['a'], edits=[], data=None))
                b = self._build_copy_case(dict(c['b'], edits=[], data=None))
                return str(a == b)
            if op == 'copy':
                r = self._build_copy_case(c)
                cp = r.copy()
                return '%s %s %s %s %s "%s"' % (cp == r, show_dict(cp.reac), show_dict(cp.prod), show_dict(cp.inact_reac),
                                                show_dict(cp.inact_prod), esc(cp.string(with_param=True, with_name=True)))
            if op == 'copy_eq':
                r = self._build(c, checks=())
                return str(r.copy() == r)
            if op == 'system_parse':
                try:
                    rs = self._system_real(c, False)
                except Exception as e:
                    return err_tag(e)
                return 'ok ' + ' ; '.join(show_rxn(r) for r in rs.rxns)
            if op == 'system_lines':
                return '!oracle-only'
            if op == 'system_print':
                from chempy import ReactionSystem, Substance
                rxns = [self._build(o, arrow=c['arrow'], checks=()) for o in c['rxns']]
                rs = ReactionSystem(rxns, substance_factory=Substance, checks=(), name=c.get('name'))
                return '"' + esc(rs.string(with_param=c['with_param'], with_name=c['with_name'])) + '"'
        except Exception as e:
            return 'harness:' + exc_name(e) + ':' + str(e)[:80]
        return '!unknown-op'

    _PARAM = re.compile(r'^(.*) ("(?:[^"]*)"|-|=\S+)$')

    def same(self, c, io, mo):
        self._compared += 1
        if mo == 'Unmodelled':
            # outside the modelled grammar of numeric tokens: accepted only when such a token is really there, counted, and rare
            text = c.get('line', c.get('text', '')) if c['op'] in ('parse', 'system_parse') else ' '.join(c.get('strings', []))
            if c['op'] in ('print', 'roundtrip', 'system_print'):
                justified = any(fl and (v != int(v) or abs(v) >= 10 ** 16) for o in ([c] + c.get('rxns', []))
                                for side in ('reac', 'prod', 'inact_reac', 'inact_prod') for _, v, fl in o.get(side, []))
            else:
                lines = text.split('\n') if c['op'] == 'system_parse' else [text]
                justified = unmodelled_justified(text) or any(eval_unmodelled(l, bool(c.get('eval'))) for l in lines)
            self._unmodelled[c['op']] = self._unmodelled.get(c['op'], 0) + 1
            return justified and sum(self._unmodelled.values()) <= max(25, self._compared // 100)
        if io == mo:
            return True
        if c.get('nd_ast') is not None:
            # non-dyadic decimal sums: the model adds exact rationals, Python adds doubles; each side must equal ITS reference
            return mo == reference_line(c['nd_ast'], False) and io == reference_line(c['nd_ast'], True)
        if c['op'] in ('parse', 'system_parse'):
            # compare reaction by reaction; the parameter is text in the model and a value (or None) in the real code
            if not (io.startswith('ok ') and mo.startswith('ok ')):
                return False
            ia, ma = io[3:].split(' ; '), mo[3:].split(' ; ')
            if len(ia) != len(ma):
                return False
            if c['op'] == 'parse':
                def cut(x):
                    i = len(x) - 3 if x.endswith(' n-') else max(x.rfind(' n"'), x.rfind(' n='))
                    return x[:i], x[i + 1:]
                ia, ma = [' ; '.join(ia)], [' ; '.join(ma)]
                (ia0, na), (ma0, nb) = cut(ia[0]), cut(ma[0])
                if na != nb:
                    return False
                ia, ma = [ia0], [ma0]
            for a, b in zip(ia, ma):
                # four dictionaries (no spaces inside: keys never contain an ASCII space) and the parameter
                fa, fb = a.split(' ', 4), b.split(' ', 4)
                if len(fa) != 5 or len(fb) != 5 or not self._same_dicts(' '.join(fa[:4]), ' '.join(fb[:4])):
                    return False
                vi, vm = fa[4], fb[4]
                if vi == '-' or vm == '-':
                    if vi != vm:
                        return False
                    continue
                if vi.startswith('sym"') or vm.startswith('sym"'):
                    if vi != vm:
                        return False
                    continue
                if vi.startswith('=') and vm.startswith('"'):
                    try:
                        if float(vi[1:]) != float(vm[1:-1]):
                            return False
                    except ValueError:
                        return False
                    continue
                return False
            return True
        return False

    @staticmethod
    def _same_dicts(a, b):
        if a == b:
            return True
        ta, tb = re.split(r'(:f-?\d+(?:/\d+)?)', a), re.split(r'(:f-?\d+(?:/\d+)?)', b)
        if len(ta) != len(tb):
            return False
        for x, y in zip(ta, tb):
            if x.startswith(':f') and y.startswith(':f'):
                if float(Fraction(x[2:])) != float(Fraction(y[2:])):
                    return False
            elif x != y:
                return False
        return True

    # ------------------------------------------------------------------ the property on the real code
    def _check_parsed(self, r, a, where):
        exp, isf, keys, effect, integral = expected(a)
        for attr in ('reac', 'prod', 'inact_reac', 'inact_prod'):
            got = getattr(r, attr)
            if set(got) != set(exp[attr]) or any(Fraction(got[k]) != exp[attr][k] for k in got):
                return '%s: %s of %r is %r, written: %r' % (where, attr, write_line(a), dict(got),
                                                            {k: str(v) for k, v in exp[attr].items()})
            for k, v in got.items():
                if (type(v) is float) != isf[attr][k] or type(v) not in (int, float):
                    return '%s: coefficient of %s in %s of %r has type %s' % (where, k, attr, write_line(a), type(v).__name__)
            if list(got) != sorted(got):
                return '%s: %s keys not sorted: %r' % (where, attr, list(got))
        return None

    def oracle(self, c):
        k = c.get('kind')
        if k == 'written':
            a = c['ast']
            exp, isf, keys, effect, integral = expected(a)
            allowed = c['allowed']
            al = allowed.split() if isinstance(allowed, str) else allowed
            unknown = al is not None and any(kk not in al for kk in keys)
            try:
                r = self._parse_real(c['line'], c['token'], allowed, c.get('eval', False))
            except ValueError as e:
                if unknown and str(e).startswith('Unknown substance_key'):
                    return None
                if not effect and not unknown and str(e).startswith('The net stoichiometry'):
                    return None
                if not integral and not unknown and (str(e).startswith('Found a non-integer') or
                                                     (not effect and str(e).startswith('The net stoichiometry'))):
                    return None
                return 'parsing %r (allowed=%r) raised ValueError: %s' % (c['line'], allowed, e)
            except Exception as e:
                return 'parsing %r raised %s: %s' % (c['line'], exc_name(e), e)
            if unknown:
                return 'unknown key accepted: %r with allowed %r' % (c['line'], allowed)
            if not effect:
                return 'reaction without net effect accepted: %r' % c['line']
            if not integral:
                return 'reaction with a non-integral total coefficient accepted: %r' % c['line']
            f = self._check_parsed(r, a, 'from_string')
            if f:
                return f
            if a.get('sym') is not None:
                if type(r.param).__name__ != 'MassAction' or tuple(r.param.args[0].unique_keys) != (a['sym'],):
                    return "quoted parameter of %r read as %r" % (c['line'], r.param)
                s2 = r.string(with_param=True)
                if not s2.endswith("; '" + a['sym'] + "'"):
                    return 'symbol parameter printed as %r' % s2
            elif a.get('param') is not None and c.get('eval'):
                if r.param != float(a['param']):
                    return 'parameter of %r read as %r' % (c['line'], r.param)
            elif a.get('param') is not None and r.param is not None:
                return 'parameter %r although globals_=False' % (r.param,)
            if a.get('param') is None and r.param is not None:
                return 'parameter appeared from nowhere: %r' % (r.param,)
            if a.get('kw') is not None and a['kw'].startswith("name='r"):
                if r.name != a['kw'][6:-1]:
                    return 'name of %r read as %r' % (c['line'], r.name)
            if r.copy() != r:
                return 'copy differs from original for %r' % c['line']
            return None
        if k == 'construct':
            spec = {nm: [(kk, 1 if kd == 'set' else (Fraction(*v) if isinstance(v, list) else Fraction(v))) for kk, v, fl in c[nm]]
                    for nm, kd in zip(('reac', 'prod', 'inact_reac', 'inact_prod'), c['kinds'])}
            tot = lambda nm, key: sum(v for kk, v in spec[nm] if kk == key)
            keys = {kk for l in spec.values() for kk, _ in l}
            eff = any(tot('prod', q) + tot('inact_prod', q) - tot('reac', q) - tot('inact_reac', q) != 0 for q in keys)
            pos = all(v >= 0 for l in spec.values() for _, v in l)
            integ = all(v.denominator == 1 for l in spec.values() for _, v in l)
            probe = self._build_copy_case(dict(c, edits=[], pval=None, data=None))
            got = (probe.check_any_effect(), probe.check_all_positive(), probe.check_all_integral())
            if got != (eff, pos, integ):
                return 'check_any_effect/all_positive/all_integral = %r, from the coefficients: %r (%r)' % (got, (eff, pos, integ), spec)
            for nm, kd in zip(('reac', 'prod', 'inact_reac', 'inact_prod'), c['kinds']):
                want = [kk for kk, _ in spec[nm]] if kd == 'ordered' else sorted(kk for kk, _ in spec[nm])
                if list(getattr(probe, nm)) != want:
                    return '%s built from a %s has key order %r, expected %r' % (nm, kd, list(getattr(probe, nm)), want)
            kw = {}
            if c.get('checks') is not None:
                kw['checks'] = tuple(c['checks'])
            if c.get('dont_check') is not None:
                kw['dont_check'] = set(c['dont_check'])
            default = {'any_effect', 'all_positive', 'all_integral', 'consistent_units'}
            if 'checks' in kw and 'dont_check' in kw:
                expect = 'ValueError'
            else:
                run = set(kw['checks']) if 'checks' in kw else {x for x in default | set(kw.get('dont_check', ())) if (x in default) != (x in kw.get('dont_check', ()))}
                verdict = {'any_effect': eff, 'all_positive': pos, 'all_integral': integ, 'consistent_units': True}
                if any(x in verdict and not verdict[x] for x in run):
                    expect = 'ValueError'
                elif any(x not in verdict for x in run):
                    expect = 'AttributeError'
                else:
                    expect = None
            try:
                self._build_copy_case(dict(c, edits=[], pval=None, data=None), kw)
                outcome = None
            except (ValueError, AttributeError) as e:
                outcome = type(e).__name__
            if outcome != expect:
                return 'constructor with %r on %r: %r, expected %r' % (kw, spec, outcome, expect)
            return None
        if k == 'eq':
            a = self._build_copy_case(dict(c['a'], edits=[], data=None))
            b = self._build_copy_case(dict(c['b'], edits=[], data=None))
            val = lambda o, nm: [(kk, Fraction(*v) if isinstance(v, list) else Fraction(v)) for kk, v, fl in o[nm]]
            want = all(val(c['a'], nm) == val(c['b'], nm) for nm in ('reac', 'prod', 'inact_reac', 'inact_prod')) and c['a'].get('pval') == c['b'].get('pval')
            if (a == b) != want or (b == a) != want or (a != b) == want:
                return '%r == %r gives %r, attribute-wise comparison %r (%s)' % (str(a), str(b), a == b, want, c['how'])
            if not (a == a) or a != a or (a == 5) is not False or a.__eq__(5) is not NotImplemented or a == None:  # noqa
                return 'identity / foreign-type comparison of %r is wrong' % str(a)
            return None
        if k == 'float_rt':
            cls = self._cls(c['arrow'])
            objs = [cls({k: float(v) for k, v in c['reac']}, {k: float(v) for k, v in c['prod']}, checks=())]
            try:
                objs.append(cls.from_string(c['sumline'] + ' ' + c['arrow'] + ' Zz', globals_=False, checks=()))
            except Exception as e:
                return 'from_string(%r, checks=()) raised %s: %s' % (c['sumline'], exc_name(e), e)
            for r in objs:
                s1 = r.string()
                try:
                    r2 = cls.from_string(s1, globals_=False, checks=())
                except Exception as e:
                    return 'from_string(%r, checks=()) raised %s: %s' % (s1, exc_name(e), e)
                for attr in ('reac', 'prod'):
                    a, b = getattr(r, attr), getattr(r2, attr)
                    if list(a) != list(b) or any(float(a[k]) != float(b[k]) for k in a):
                        return 'print/parse of float coefficients: %r printed as %r, read back as %r' % (dict(a), s1, dict(b))
                if not (r2 == r):
                    return 'from_string(r.string()) != r for float coefficients %r' % s1
            return None
        if k == 'unit_param':
            import chempy.units as cu
            u = cu.default_units
            unit = {'second': 1 / u.second, 'molar_second': 1 / u.molar / u.second, 'hour': 1 / u.hour}[c['unit']]
            q = c['mag'] * unit
            r = self._build(dict(c, pval=None), checks=())
            r.param = q
            plain = r.string()
            got = r.string(with_param=True)
            want = plain + '; ' + ('%.3g' % c['mag']) + ' ' + str(q.dimensionality)
            if got != want:
                return 'reaction with a unit-carrying parameter prints %r, expected %r' % (got, want)
            return None
        if k == 'copy':
            import copy as _copy
            r = self._build_copy_case(c)
            cp = r.copy()
            if not (cp == r) or cp != r:
                return 'copy != original for %s built from %s containers %r / %r (edits %r)' % (
                    type(r).__name__, c['kinds'], list(r.reac.items()), list(r.prod.items()), c['edits'])
            if type(cp) is not type(r):
                return 'copy changed the class'
            for kw in ({}, {'with_param': True}, {'with_param': True, 'with_name': True}):
                if cp.string(**kw) != r.string(**kw):
                    return 'copy prints %r, original %r' % (cp.string(**kw), r.string(**kw))
            for attr in ('reac', 'prod', 'inact_reac', 'inact_prod'):
                if list(getattr(cp, attr).items()) != list(getattr(r, attr).items()):
                    return 'copy has %s %r, original %r' % (attr, list(getattr(cp, attr).items()), list(getattr(r, attr).items()))
            if cp.name != r.name or cp.ref != r.ref or cp.data != r.data or not (cp.param == r.param):
                return 'copy lost name/ref/data/param'
            before = (list(r.reac.items()), list(r.prod.items()), _copy.deepcopy(r.data), list(r.inact_reac.items()))
            cp.reac['__new__'] = 7
            cp.prod.clear()
            cp.inact_reac['__x__'] = 1
            cp.data['__k__'] = 1
            if (list(r.reac.items()), list(r.prod.items()), r.data, list(r.inact_reac.items())) != before:
                return 'mutating the copy changed the original (shared containers)'
            return None
        if k == 'roundtrip':
            valid = any(True for _ in c['reac'] + c['prod'])
            try:
                r = self._build(c)
            except ValueError:
                return None          # no net effect: not a reaction the constructor admits
            cls = self._cls(c['arrow'])
            s = r.string()
            try:
                r2 = cls.from_string(s, globals_=False)
            except Exception as e:
                return 'from_string(%r) raised %s: %s' % (s, exc_name(e), e)
            r0 = self._build(dict(c, pval=None))
            if not (r2 == r0) or dict(r2.reac) != dict(r0.reac) or dict(r2.prod) != dict(r0.prod):
                return 'from_string(r.string()) != r for %r' % s
            if c.get('pval') is not None:
                s = r.string(with_param=True)
                try:
                    r3 = cls.from_string(s, globals_={})
                except Exception as e:
                    return 'from_string(%r) raised %s: %s' % (s, exc_name(e), e)
                want = float('%.3g' % c['pval'])
                if not (r3.param == want and dict(r3.reac) == dict(r.reac) and dict(r3.prod) == dict(r.prod)):
                    return 'from_string(%r): param %r, expected %r' % (s, r3.param, want)
                if abs(want - c['pval']) > 0.0005 * 1.0000001 * abs(c['pval']) * 10:
                    return 'printed parameter %r too far from %r' % (want, c['pval'])
            if r.copy() != r or not (r.copy() == r):
                return 'copy differs from original for %r' % s
            if type(r.copy()) is not type(r):
                return 'copy changed the class'
            return None
        if k == 'system' and c.get('asts') is not None:
            try:
                rs = self._system_real(c, {})
            except Exception as e:
                return 'system text %r raised %s: %s' % (c['text'], exc_name(e), e)
            if len(rs.rxns) != len(c['asts']):
                return 'system text %r gave %d reactions, written: %d' % (c['text'], len(rs.rxns), len(c['asts']))
            for r, a in zip(rs.rxns, c['asts']):
                f = self._check_parsed(r, a, 'ReactionSystem.from_string')
                if f:
                    return f
                if a.get('param') is not None and r.param != float(a['param']):
                    return 'parameter of %r read as %r' % (write_line(a), r.param)
            return None
        if k == 'system_rt':
            from chempy import ReactionSystem, Substance
            cls = type('RS', (ReactionSystem,), {'_BaseReaction': self._cls(c['arrow'])})
            rxns = []
            for o in c['rxns']:
                try:
                    rxns.append(self._build(o, arrow=c['arrow']))
                except ValueError:
                    pass
            rs = cls(rxns, substance_factory=Substance, checks=())
            text = rs.string()
            try:
                rs2 = cls.from_string(text, None, rxn_parse_kwargs={'globals_': {}}, substance_factory=Substance, checks=())
            except Exception as e:
                return 'from_string(%r) raised %s: %s' % (text, exc_name(e), e)
            want = [self._build(dict(o, pval=None if o.get('pval') is None else float('%.3g' % o['pval'])), arrow=c['arrow']) for o in c['rxns']
                    if self._admits(o, c['arrow'])]
            if rs2.rxns != want:
                return 'ReactionSystem.from_string(rsys.string()) differs for %r' % text
            if set(rs2.substances) != set(rs.substances):
                return 'substances differ after the round trip of %r' % text
            return None
        return None

    def _admits(self, o, arrow):
        try:
            self._build(o, arrow=arrow)
            return True
        except ValueError:
            return False

    def classify(self, c):
        k = c.get('kind', c.get('op'))
        if k == 'written':
            a = c['ast']
            nt = len(a['reac']) + len(a['prod'])
            tags = []
            if any(t['key'].startswith('(') for t in a['reac'] + a['prod']):
                tags.append('paren-key')
            if any(t['inact'] for t in a['reac'] + a['prod']):
                tags.append('inactive')
            ks = [(s, t['inact'], t['key']) for s in ('reac', 'prod') for t in a[s]]
            if len(ks) != len(set(ks)):
                tags.append('dup')
            if c['allowed'] is not None:
                tags.append('allowed')
            if a.get('param') is not None:
                tags.append('param')
            return 'written:terms%s%s' % ('0-2' if nt <= 2 else '3-6' if nt <= 6 else '7+', ''.join(':' + t for t in tags))
        if k == 'prim':
            return 'prim:' + c['op']
        if k == 'construct':
            return 'construct:' + ('both' if c['checks'] is not None and c['dont_check'] is not None else 'checks' if c['checks'] is not None
                                   else 'dont_check' if c['dont_check'] is not None else 'default')
        if k == 'eq':
            return 'eq:' + c['how']
        if k == 'copy':
            return 'copy:' + ('unsorted-ordered' if any(kd == 'ordered' and [x[0] for x in c[nm]] != sorted(x[0] for x in c[nm])
                                                        for kd, nm in zip(c['kinds'], ('reac', 'prod', 'inact_reac', 'inact_prod')))
                              else 'edited' if c['edits'] else 'sorted') + (':eq' if c['arrow'] == '=' else '')
        return k

    def nontrivial(self, c):
        k = c.get('kind')
        if k == 'written':
            return len(c['ast']['reac']) + len(c['ast']['prod']) > 0
        if k in ('roundtrip', 'print'):
            return len(c['reac']) + len(c['prod']) > 0
        return True


PROPERTY = C12()
