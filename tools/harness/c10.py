"""C10 — kinetic results do not depend on the units rate constants or registries use.

Cases are SYMBOLIC.  A quantity is {"mag": "<decimal text>", "u": [[unit_name, exponent], ...]} (unit_name = attribute of
chempy.units.default_units), {"num": "<decimal text>"} is a plain number, {"unitobj": name} a bare unit object (UnitQuantity).
A registry is {key: [coefficient text, unit_name]}.  From one description the harness builds
  * the real `quantities` objects / registry dict               (`_real`, `_real_reg`)
  * its own exact bookkeeping with Fractions from the hand-written table `UNITS`   (`_book`, `_book_reg`)
  * the JSON sent to the Lean model                               (`_mj`, `_mj_reg`)
The ORACLE never consults the Lean model: physical rates are computed by hand in SI from the reaction orders and the SI
values of constants and concentrations (Fractions), and compared with what the unit-aware ODE system of the real code
yields in two independently drawn registries / unit choices.  Results of the real code are read through `quantities`'
own `.simplified` (third party), never through chempy's conversion functions.
"""
from fractions import Fraction
import json, math, warnings
from lib.framework import Property
from .util import rat_json, exc_name

F = Fraction
KEYS = ['length', 'mass', 'time', 'current', 'temperature', 'luminous_intensity', 'amount']
L, M, T, I, TH, J, N = range(7)


def _d(**kw):
    v = [0] * 7
    for k, e in kw.items():
        v[{'L': L, 'M': M, 'T': T, 'I': I, 'TH': TH, 'J': J, 'N': N}[k]] = e
    return tuple(v)


CONC = _d(N=1, L=-3)
TIME = _d(T=1)
# attribute name on chempy.units.default_units -> (factor relative to SI, exponent vector); written by hand
UNITS = {
    'm': (F(1), _d(L=1)), 'cm': (F(1, 100), _d(L=1)), 'mm': (F(1, 1000), _d(L=1)), 'km': (F(1000), _d(L=1)),
    'um': (F(1, 10**6), _d(L=1)), 'dm': (F(1, 10), _d(L=1)),
    'kg': (F(1), _d(M=1)), 'g': (F(1, 1000), _d(M=1)), 'mg': (F(1, 10**6), _d(M=1)),
    's': (F(1), TIME), 'ms': (F(1, 1000), TIME), 'minute': (F(60), TIME), 'hour': (F(3600), TIME),
    'A': (F(1), _d(I=1)), 'mA': (F(1, 1000), _d(I=1)),
    'K': (F(1), _d(TH=1)), 'cd': (F(1), _d(J=1)),
    'mol': (F(1), _d(N=1)), 'mmol': (F(1, 1000), _d(N=1)), 'umol': (F(1, 10**6), _d(N=1)),
    'molar': (F(1000), CONC), 'millimolar': (F(1), CONC), 'micromolar': (F(1, 1000), CONC),
    'joule': (F(1), _d(M=1, L=2, T=-2)), 'gray': (F(1), _d(L=2, T=-2)),
}
REG_CHOICES = {'length': ['m', 'cm', 'mm', 'dm', 'km', 'um'], 'mass': ['kg', 'g', 'mg'], 'time': ['s', 'ms', 'minute', 'hour'],
               'current': ['A', 'mA'], 'temperature': ['K'], 'luminous_intensity': ['cd'], 'amount': ['mol', 'mmol', 'umol']}
REG_COEFFS = ['1', '1', '1', '1', '2', '0.5', '1000', '0.25']
TIME_UNITS = ['s', 'minute', 'hour', 'ms']
CONC_UNITS = [[['molar', 1]], [['millimolar', 1]], [['micromolar', 1]], [['mol', 1], ['m', -3]], [['mol', 1], ['cm', -3]]]
SUBST = ['A', 'B', 'C', 'D']
_CLS = {'UnitLength': L, 'UnitMass': M, 'UnitTime': T, 'UnitCurrent': I, 'UnitTemperature': TH,
        'UnitLuminousIntensity': J, 'UnitSubstance': N}
RTOL = 1e-10


def _dadd(a, b, k=1):
    return tuple(x + k * y for x, y in zip(a, b))


def rate_dims(order):
    """the dimension the property names: concentration^(1-order)/time"""
    return _dadd(tuple((1 - order) * x for x in CONC), TIME, -1)


def _book_u(ulist):
    f, d = F(1), (0,) * 7
    for name, e in ulist:
        uf, ud = UNITS[name]
        f *= uf ** e
        d = _dadd(d, ud, e)
    return f, d


def _book(q):
    """(magnitude, unit factor, dims); a plain number / bare unit object: magnitude 1 resp. its value"""
    if 'num' in q:
        return F(q['num']), F(1), (0,) * 7
    if 'unitobj' in q:
        f, d = UNITS[q['unitobj']]
        return F(1), f, d
    f, d = _book_u(q['u'])
    return F(q['mag']), f, d


def _si(q):
    m, f, _ = _book(q)
    return m * f


def _cu():
    from chempy import units
    return units


def _real(q):
    cu = _cu()
    u = cu.default_units
    if 'num' in q:
        return float(F(q['num']))
    if 'unitobj' in q:
        return getattr(u, q['unitobj'])
    if q.get('mt'):
        # the magnitude by TYPE: pq.Quantity(<typed value>, <unit>) keeps int64 / int32 / float32 / object dtypes
        unit = cu.pq.dimensionless
        for name, e in q['u']:
            unit = unit * getattr(u, name) ** e
        return cu.pq.Quantity(_typed(q['mag'], q['mt']), unit)
    r = float(F(q['mag'])) * cu.pq.dimensionless if not q['u'] else float(F(q['mag']))
    for name, e in q['u']:
        r = r * getattr(u, name) ** e
    return r


MAG_TYPES_INT = ['int', 'int64', 'int32', 'float32', 'Fraction']


def _typed(mag, mt):
    import numpy as np
    v = F(mag)
    if mt == 'int':
        assert v.denominator == 1
        return int(v)
    if mt in ('int64', 'int32'):
        assert v.denominator == 1
        return getattr(np, mt)(int(v))
    if mt == 'float32':
        x = np.float32(float(v))
        assert F(float(x)) == v
        return x
    if mt == 'Fraction':
        return v
    raise ValueError(mt)


def _f32_exact(mag):
    import struct
    v = F(mag)
    try:
        return F(struct.unpack('f', struct.pack('f', float(v)))[0]) == v
    except (OverflowError, struct.error):
        return False


def _typify(rng, q, p=0.4, free=False):
    """with probability p give a quantity a magnitude TYPE other than a Python float.  `free`: the magnitude carries no
    physical constraint and may be replaced by an integer so that the integer types apply."""
    if q is None or 'u' not in q or rng.random() >= p:
        return q
    q = dict(q)
    if free and rng.random() < 0.7:
        q['mag'] = str(rng.randint(1, 999))
    v = F(q['mag'])
    if v.denominator == 1 and abs(v) < 2 ** 31:
        q['mt'] = rng.choice(MAG_TYPES_INT if _f32_exact(q['mag']) else ['int', 'int64', 'int32', 'Fraction'])
    else:
        q['mt'] = rng.choice(['Fraction', 'float32'] if _f32_exact(q['mag']) else ['Fraction'])
    return q


def _typed_array(rng, n, ul):
    """a Quantity ARRAY with an integer / float32 dtype (one unit): {"mags": [...], "u": ul, "mt": dtype}"""
    mt = rng.choice(['int64', 'int32', 'float32', 'int'])
    return {'mags': [str(rng.randint(1, 999)) for _ in range(n)], 'u': ul, 'mt': mt}


def _real_array(a):
    import numpy as np
    cu = _cu()
    unit = cu.pq.dimensionless
    for name, e in a['u']:
        unit = unit * getattr(cu.default_units, name) ** e
    dt = {'int': int, 'int64': np.int64, 'int32': np.int32, 'float32': np.float32}[a['mt']]
    return cu.pq.Quantity(np.array([int(m) for m in a['mags']], dtype=dt), unit)


def _mj(q):
    """model JSON; for `param` arguments a bare unit object is 'not a Quantity' = {"n": …} (see Model/KinUnits.lean)"""
    if 'num' in q:
        return {'n': rat_json(F(q['num']))}
    if 'unitobj' in q:
        return {'n': 1}
    m, f, d = _book(q)
    return {'m': rat_json(m), 'f': rat_json(f), 'd': list(d)}


def _real_reg(reg):
    u = _cu().default_units
    out = {}
    for k in KEYS:
        c, name = reg[k]
        out[k] = getattr(u, name) if c == '1' else float(F(c)) * getattr(u, name)
    return out


def _mj_reg(reg):
    return [{'m': rat_json(F(reg[k][0])), 'f': rat_json(UNITS[reg[k][1]][0]), 'd': list(UNITS[reg[k][1]][1])} for k in KEYS]


def _book_reg(reg):
    """SI value of each base unit of the registry"""
    return [F(reg[k][0]) * UNITS[reg[k][1]][0] for k in KEYS]


def _reg_si(reg, dims):
    """SI value of the registry's unit for an exponent vector"""
    r = F(1)
    for b, e in zip(_book_reg(reg), dims):
        r *= b ** e
    return r


def _read(q):
    """a real result -> (SI value as float, dims) via quantities' own .simplified; plain numbers are dimensionless"""
    if not hasattr(q, 'simplified'):
        return float(q), (0,) * 7
    s = q.simplified
    d = [0] * 7
    for unit, e in s.dimensionality.items():
        d[_CLS[type(unit).__name__]] += int(e)
    return float(s.magnitude), tuple(d)


class InputMutated(AssertionError):
    """the real code changed an object the caller passed in"""


def _snap(obj):
    """a value snapshot of (containers of) numbers / quantities: magnitudes and unit text"""
    if isinstance(obj, dict):
        return tuple((k, _snap(v)) for k, v in obj.items())
    if isinstance(obj, (list, tuple)):
        return tuple(_snap(v) for v in obj)
    if hasattr(obj, 'dimensionality'):
        import numpy as np
        return (tuple(np.ravel(np.asarray(obj.magnitude, dtype=float)).tolist()), str(obj.dimensionality))
    return ('plain', repr(obj))


def _unchanged(what, before, obj):
    after = _snap(obj)
    if after != before:
        raise InputMutated('%s modified its input: before %r, after %r' % (what, before, after))


def _close(a, b, scale=None, rtol=RTOL):
    a, b = float(a), float(b)
    if math.isnan(a) or math.isnan(b) or math.isinf(a) or math.isinf(b):
        return False
    s = max(abs(a), abs(b)) if scale is None else max(abs(a), abs(b), float(scale))
    return abs(a - b) <= rtol * s


def _pf(s):
    return F(s)


def _parse_py(o):
    """model PyVal -> (SI value Fraction, dims)"""
    if 'n' in o:
        return F(o['n']), (0,) * 7
    return F(o['m']) * F(o['f']), tuple(o['d'])


# ---------------------------------------------------------------------------------------------------------------
def _rand_mag(rng):
    return '%de%d' % (rng.randint(1, 9999), rng.randint(-6, 3))


def _rand_reg(rng, plain=False):
    reg = {}
    for k in KEYS:
        reg[k] = [('1' if plain else rng.choice(REG_COEFFS)), rng.choice(REG_CHOICES[k])]
    if rng.random() < 0.1:
        reg = {k: ['1', REG_CHOICES[k][0]] for k in KEYS}          # SI itself
    return reg


def _conc_units(rng):
    return [list(map(list, c)) for c in [rng.choice(CONC_UNITS)]][0]


def _rate_unit(rng, order, wrong=None):
    """a unit list for a rate constant of the given order: each of the (1-order) concentration factors in its own unit.
    `wrong`: one of the realistic mistakes, giving another dimension."""
    ul = []
    e = 1 - order
    if wrong == 'sign' and order == 1:
        wrong = 'notime'
    if wrong == 'sign':
        e = order - 1
    if wrong == 'order+1':
        e -= 1
    if wrong == 'order-1':
        e += 1
    for _ in range(abs(e)):
        for name, x in _conc_units(rng):
            ul.append([name, x * (1 if e > 0 else -1)])
    te = -1
    if wrong == 'notime':
        te = 0
    if wrong == 'time2':
        te = -2
    if wrong == 'timeup':
        te = 1
    if te:
        ul.append([rng.choice(TIME_UNITS), te])
    if wrong == 'length':
        ul.append([rng.choice(['m', 'cm']), rng.choice([1, -1, 3])])
    if wrong == 'mass':
        ul.append([rng.choice(['kg', 'g']), 1])
    if wrong == 'amount':
        ul.append([rng.choice(['mol', 'mmol']), 1])
    # merge / shuffle so that the order of the factors is not always the same
    rng.shuffle(ul)
    return ul


WRONGS = ['sign', 'order+1', 'order-1', 'notime', 'time2', 'timeup', 'length', 'mass', 'amount']


def _rand_reac(rng, order):
    """reactant dict of the given total order over SUBST"""
    reac = {}
    for _ in range(order):
        s = rng.choice(SUBST[:3])
        reac[s] = reac.get(s, 0) + 1
    return reac


def _rand_rxn(rng, order, subst):
    reac = {}
    for _ in range(order):
        s = rng.choice(subst)
        reac[s] = reac.get(s, 0) + 1
    prod = {}
    for _ in range(rng.randint(1, 2)):
        s = rng.choice(subst)
        prod[s] = prod.get(s, 0) + 1
    if all(prod.get(s, 0) == reac.get(s, 0) for s in subst):       # no net effect: force one
        s = rng.choice(subst)
        prod[s] = prod.get(s, 0) + 1
    return {'reac': reac, 'prod': prod}


def _net(r, x):
    """net stoichiometry of substance x in a reaction: active AND inactive (parenthesised) parts"""
    return (r['prod'].get(x, 0) - r['reac'].get(x, 0) + r.get('inact_prod', {}).get(x, 0) - r.get('inact_reac', {}).get(x, 0))


def _mkrxn(r, param):
    from chempy import Reaction
    return Reaction(dict(r['reac']), dict(r['prod']), param, dict(r.get('inact_reac', {})) or None, dict(r.get('inact_prod', {})) or None)


def _rand_system(rng, tier, spectator=False):
    ns = rng.randint(2, 3 if spectator else 4)
    subst = SUBST[:ns]
    nr = rng.randint(1, 4 if tier == 'quick' else 6)
    rxns = [_rand_rxn(rng, rng.choice([0, 1, 1, 2, 2, 3]), subst) for _ in range(nr)]
    # every substance must take part, and no derivative may be a bare constant (pyodesys needs a symbol in it)
    for s in subst:
        touching = [r for r in rxns if _net(r, s) != 0]
        if not touching or all(sum(r['reac'].values()) == 0 for r in touching):
            other = rng.choice([x for x in subst if x != s])
            rxns.append({'reac': {s: 1}, 'prod': {other: 1}})
    if rng.random() < 0.25:     # inactive (parenthesised, e.g. solvent) species: in the net stoichiometry, not in the rate law
        for r in rng.sample(rxns, rng.randint(1, min(2, len(rxns)))):
            for key in ('inact_reac', 'inact_prod'):
                d = {}
                for _ in range(rng.choice([0, 1, 1, 2])):
                    x = rng.choice(subst)
                    d[x] = d.get(x, 0) + 1
                if d:
                    r[key] = d
            if all(_net(r, x) == 0 for x in subst):     # Reaction's own check_any_effect would refuse it
                r.pop('inact_reac', None)
                r.pop('inact_prod', None)
        # pyodesys needs a symbol in every derivative: a substance whose only non-zero net terms are zero-order gets a sink
        for s in subst:
            touching = [r for r in rxns if _net(r, s) != 0]
            if touching and all(sum(r['reac'].values()) == 0 for r in touching):
                rxns.append({'reac': {s: 1}, 'prod': {rng.choice([x for x in subst if x != s]): 1}})
    if spectator:       # a substance of the system that takes part in no reaction: get_odesys must refuse (ValueError)
        subst = subst + [SUBST[len(subst)]]
        if rng.random() < 0.5:
            rng.shuffle(subst)
    return subst, rxns


def _config(rng, subst, rxns, phys_k, phys_c):
    """one way of writing the same physical system: registry, units and magnitudes of constants and concentrations"""
    reg = _rand_reg(rng)
    ks, cs = [], {}
    for r, ksi in zip(rxns, phys_k):
        ul = _rate_unit(rng, sum(r['reac'].values()))
        f, _ = _book_u(ul)
        ks.append({'mag': str(ksi / f), 'u': ul})
    for s in subst:
        ul = _conc_units(rng)
        f, _ = _book_u(ul)
        cs[s] = {'mag': str(phys_c[s] / f), 'u': ul}
    tu = rng.choice(TIME_UNITS)
    return {'reg': reg, 'ks': ks, 'c0': cs, 't': {'mag': _rand_mag(rng), 'u': [[tu, 1]]}}


def _typed_config(rng, subst, rxns):
    """a configuration written with INTEGER magnitudes of assorted types; returns (config, phys_k, phys_c)"""
    reg = _rand_reg(rng)
    ks, cs, phys_k, phys_c = [], {}, [], {}
    for r in rxns:
        ul = _rate_unit(rng, sum(r['reac'].values()))
        m = rng.randint(1, 999)
        ks.append(_typify(rng, {'mag': str(m), 'u': ul}, p=0.8))
        phys_k.append(m * _book_u(ul)[0])
    for x in subst:
        ul = _conc_units(rng)
        m = rng.randint(1, 999)
        cs[x] = _typify(rng, {'mag': str(m), 'u': ul}, p=0.8)
        phys_c[x] = m * _book_u(ul)[0]
    t = _typify(rng, {'mag': str(rng.randint(1, 999)), 'u': [[rng.choice(TIME_UNITS), 1]]}, p=0.8)
    return {'reg': reg, 'ks': ks, 'c0': cs, 't': t}, phys_k, phys_c


def _eq_quirk_class(c):
    """EXPLICIT predicate (on the case description only) for the one class in which the exact model and the real
    `Equilibrium.check_consistent_units` may legitimately differ: the constant is a Quantity whose exponent vector and EXACT
    scale factor equal those of molar^delta, but whose unit is not written purely in `molar` — the real code compares the
    float64 products of the factors with ==, which may or may not come out equal (mol/dm3: 999.9999999999998)."""
    p = c['param']
    if 'u' not in p:
        return False
    e = sum(c['prod'].values()) - sum(c['reac'].values())
    f, d = _book_u(p['u'])
    return d == tuple(e * x for x in CONC) and f == F(1000) ** e and any(n != 'molar' for n, _ in p['u'])


def _nice(rng):
    """an SI value with few digits (exact in every unit of the table up to powers of 2, 3, 5)"""
    return F(rng.randint(1, 999)) * F(10) ** rng.randint(-4, 3)


class C10(Property):
    pid = 'C10'
    title = ('a unit-carrying rate constant is accepted iff its dimension is concentration^(1-order)/time; an accepted '
             'equilibrium constant has dimension concentration^(products-reactants); the physical rates of the unit-aware ODE '
             'system are the same in every registry and unit choice and equal the hand computation in SI; output rescaling and '
             'reported parameter units invert the to_arrays conversion')
    props_module = 'ChemModel.Props.C10'
    build_modules = ('ChemModel.Model.KinUnits', 'ChemModel.Basic.Proto')
    driver = 'ChemModel/Driver/C10.lean'
    n_quick, n_thorough = 420, 3000
    float_tol = RTOL
    case_timeout = 120
    rule = ('reactions of orders 0-3 (0-6 for the acceptance checks) with constants in s/min/h/ms x M/mM/uM/mol.m-3/mol.cm-3 '
            '(each concentration factor in its own unit) or one of nine wrong dimensions; registries = SI_base_registry with every '
            'base unit replaced independently (prefixed units, optionally times 2, 0.5, 0.25, 1000); systems of 2-4 substances and '
            '1-6 reactions written in two independent registries / unit choices; named and included constants; output units; '
            'the alternative builder. A case is non-trivial when it is a distinct JSON value.')
    assumptions = ('`quantities` is modelled as factor x exponent vector (C09), never verified; results of the real code are read '
                   'through quantities\' own .simplified',
                   'float rounding is not modelled: exact rational model vs float64 within 1e-10 relative to the largest term '
                   'of a sum (terms of a right-hand side may cancel)',
                   'Equilibrium.check_consistent_units compares float64 scale factors with ==: a unit whose exact factor equals '
                   'molar^n but whose float product differs in the last bit (mol/dm3) is refused by the real code; the harness '
                   'predicts this from quantities\' floats and the exact model accepts (documented quirk, notes/C10.md)',
                   'pyodesys / sympy (construction of the symbolic system, lambdify) are third party: exercised, not modelled; '
                   'a zero-order reaction whose product has no other reaction makes pyodesys fail (constant derivative) and is avoided',
                   'a Quantity wrapping an Expr as rate constant, nested Expr arguments and UncertainQuantity are outside the model')
    clauses_without_theorem = (
        'Arrhenius / Eyring constants supplied otherwise than as values with the temperature as parameter (substitutions, constants, RampedTemp, '
        'as_RateExpr, unique keys), Radiolytic with several dose rates: oracle only (kind ode_expr, THREE registries / unit choices each vs the '
        'hand formula). Values + parameters HAVE theorems: registry_independence_arrhenius (round 10), eyring_constant_registry_independent, '
        'radiolytic_rate_registry_independent, unitless_constants_registry_independent (round 11); correspondence op arrhenius_args only — the '
        'Eyring / Radiolytic model functions are tied to the code by the oracle formulas, not by a driver op',
        'array-valued rate constants (refused with ValueError by `.item()` whatever the dimension): model reactionCheckSized, correspondence + oracle, no theorem',
        'odesys.integrate with quantities in and out: only the three to_arrays callbacks composed with the post-processor have a theorem; '
        'integration itself is third party (unit_aware_solve over a very short time is sampled in the validate cases)',
        'the ⇐ direction of the equilibrium unit check on the REAL code (float64 factor equality): equilibrium_exact_model_unit_check_quirk is '
        'about the exact model; real refusals inside the explicit float-factor class are counted in input_distribution',
        "extra['p_units'] for include_params=True with named parameter keys (temperature, doserate_*): correspondence (ode_units, derived_fallback) only",
        'that the symbolic system built by pyodesys/sympy evaluates to the shared kinetics model (Kinetics.sysRates, C03/C04): correspondence only',
        'rejection of a wrongly-dimensioned constant at get_odesys time when the Reaction was built with checks=(): not required by the property '
        '("accepted system"); notes/C10.md finding 5',
        'independence of the TYPE of a magnitude (Python int, numpy int64 / int32 / float32 scalars and arrays, Fraction / object dtype): the '
        'model has one exact number type; decided by correspondence + oracle (typed configurations vs the same physics in floats)',
        'from_string reading of parenthesised (inactive) species: C12; here only its result is compared with what was written',
        'get_odesys without a unit registry (plain numbers taken as they are, p_units None): correspondence with plainRhs (op plain_rhs) + oracle, no theorem needed beyond plainRhs itself',
        'temperature supplied through substitutions (passive value, RampedTemp expression), through `constants`, ArrheniusParamWithUnits.as_RateExpr, '
        'free unique keys of an Arrhenius expression (p_units from Arrhenius.args_dimensionality: model op ode_units), partial unique keys, '
        'MassAction(Symbol) named constants: oracle (ode_expr variants / ode_named symbol_args), no theorem',
        'Reaction(checks=..., dont_check=...) (model reactionCtor, correspondence reaction_ctor) and Reaction.copy (oracle): no Props theorem '
        '(reactionCtor only selects whether reactionCheck runs)',
        'get_odesys(cstr=True, unit_registry=...): refused with KeyError (finding 8), model and real agree on the refusal',
        'Equilibrium.as_reactions with param=(kf, kb) tuples: oracle only (the model covers kf-given / kb-given / none / both, with the success '
        'characterisation as_reactions_succeeds_iff)',
    )
    anchors = [('chempy/chemistry.py', 'Equilibrium.as_reactions'), ('chempy/chemistry.py', 'Reaction.copy'), ('chempy/chemistry.py', 'Reaction.__init__'),
               ('chempy/chemistry.py', 'Reaction.check_consistent_units'), ('chempy/chemistry.py', 'Equilibrium.check_consistent_units'),
               ('chempy/chemistry.py', 'Reaction.order'), ('chempy/chemistry.py', 'Reaction.rate_expr'),
               ('chempy/util/_expr.py', 'Expr.dedimensionalisation'), ('chempy/util/_expr.py', 'Expr.arg'), ('chempy/util/_expr.py', 'Expr.all_args'),
               ('chempy/kinetics/rates.py', 'MassAction.active_conc_prod'), ('chempy/kinetics/rates.py', 'MassAction.__call__'),
               ('chempy/kinetics/ode.py', 'get_odesys'), ('chempy/kinetics/ode.py', '_get_derived_unit'),
               ('chempy/kinetics/ode.py', '_mk_dedim'), ('chempy/kinetics/ode.py', '_validate'),
               # units.py: to_unitless / unit_of / rescale / get_derived_unit / default_unit_in_registry are C09's anchors (C09 models and
               # covers them; C10 imports that model) — only is_quantity is mirrored here
               ('chempy/units.py', 'is_quantity')]

    # ------------------------------------------------------------------------------------------------ generation
    def generate(self, rng, n, tier):
        cases = []
        share = lambda x: max(1, int(n * x))
        # acceptance of rate constants: every order 0..6 x right / each wrong dimension at least once
        for order in range(0, 7):
            cases.append(self._accept_case(rng, order, None))
            for w in WRONGS:
                cases.append(self._accept_case(rng, order, w))
        for order in range(0, 4):           # array-valued constants: sizes 1-3, right and wrong dimension
            for n_ in (1, 2, 3):
                for w in (None, rng.choice(WRONGS)):
                    cases.append({'kind': 'accept', 'reac': _rand_reac(rng, order), 'prod': {'D': 1}, 'wrong': w, 'array_n': n_,
                                  'param': {'mag': _rand_mag(rng), 'u': _rate_unit(rng, order, w)}})
        for _ in range(share(0.12)):
            cases.append(self._accept_case(rng, rng.choice([0, 1, 1, 2, 2, 3, 3, 4, 6]), rng.choice([None, None] + WRONGS)))
        for _ in range(share(0.03)):
            cases.append(self._accept_case(rng, rng.randint(0, 3), None, kind=rng.choice(['num', 'unitobj', 'dimless'])))
        cases.extend(self._equilibrium_grid(rng))
        for _ in range(share(0.12)):
            cases.append(self._equilibrium_case(rng))
        for cls, nargs in (('MassAction', 1), ('Arrhenius', 2), ('Eyring', 3), ('Radiolytic', 1)):
            for order in range(0, 6):
                cases.append({'kind': 'args_dims', 'cls': cls, 'nargs': nargs, 'reac': _rand_reac(rng, order)})
        for _ in range(share(0.16)):
            cases.append(self._ode_case(rng, tier, named=False, spectator=rng.random() < 0.12))
        for _ in range(share(0.12)):
            cases.append(self._ode_case(rng, tier, named=True, spectator=rng.random() < 0.12))
        for _ in range(share(0.10)):
            cases.append(self._as_reactions_case(rng))
        for _ in range(min(max(share(0.05), 24), 70)):
            cases.append(self._expr_case(rng))
        for _ in range(share(0.06)):
            cases.append(self._history_case(rng, tier))
        for _ in range(share(0.04)):
            cases.append(self._no_registry_case(rng, tier))
        for _ in range(max(2, share(0.01))):
            cases.append({'kind': 'cstr_units', 'reg': _rand_reg(rng), 'order': rng.randint(1, 2),
                          'k': {'mag': _rand_mag(rng), 'u': None}})
        for _ in range(share(0.04)):
            cases.append(self._ctor_flags_case(rng))
        for _ in range(share(0.05)):
            c = self._ode_case(rng, tier, named=True)
            c['kind'] = 'ode_named_wrong'
            i = rng.randrange(len(c['rxns']))
            order = sum(c['rxns'][i]['reac'].values())
            c['A']['ks'][i] = {'mag': _rand_mag(rng), 'u': _rate_unit(rng, order, rng.choice(WRONGS))}
            c['bad'] = i
            cases.append(c)
        for _ in range(share(0.10)):
            cases.append(self._roundtrip_case(rng, tier))
        for _ in range(share(0.05)):
            c = self._ode_case(rng, tier, named=True)
            c['kind'] = 'dedim_tcp'
            cases.append(c)
        for _ in range(min(max(3, int(n * 0.02)), 45)):
            cat = rng.random() < 0.3
            c = self._ode_case(rng, 'quick', named=True, catalyst=cat)
            while len(c['rxns']) > 3:
                c = self._ode_case(rng, 'quick', named=True, catalyst=cat)
            c['kind'] = 'validate'
            if rng.random() < 0.5:
                i = rng.randrange(len(c['rxns']))
                order = sum(c['rxns'][i]['reac'].values())
                c['A']['ks'][i] = {'mag': _rand_mag(rng), 'u': _rate_unit(rng, order, rng.choice(WRONGS))}
            cases.append(c)
        for _ in range(share(0.04)):
            cases.append({'kind': 'derived_fallback', 'reg': _rand_reg(rng),
                          'key': rng.choice(['doserate_alpha', 'doserate', 'temperature', 'density', 'time', 'concentration',
                                             'radiolytic_yield_beta', 'energy', 'bogus_x', 'bogus', 'length_', 'doserate_a_b'])})
        for _ in range(share(0.05)):
            order = rng.randint(0, 3)
            args = [_typify(rng, {'mag': _rand_mag(rng), 'u': _rate_unit(rng, order, rng.choice([None, None] + WRONGS))}, free=True)]
            if rng.random() < 0.5:
                args.append({'mag': _rand_mag(rng), 'u': [['K', 1]]})
            if rng.random() < 0.2:
                args.append({'num': _rand_mag(rng)})
            cases.append({'kind': 'dedim_args', 'reg': _rand_reg(rng), 'args': args})
        for _ in range(share(0.03)):
            cases.append({'kind': 'ode_units_arrhenius', 'reg': _rand_reg(rng), 'order': rng.randint(1, 3),
                          'A': {'mag': _rand_mag(rng), 'u': None}, 'Ea': {'mag': _rand_mag(rng), 'u': [['K', 1]]}})
        return cases

    def _accept_case(self, rng, order, wrong, kind='qty'):
        reac = _rand_reac(rng, order)
        if kind == 'num':
            param = {'num': _rand_mag(rng)}
        elif kind == 'unitobj':
            param = {'unitobj': rng.choice(['s', 'molar', 'minute', 'm'])}
        elif kind == 'dimless':
            param = {'mag': _rand_mag(rng), 'u': []}
        else:
            param = {'mag': _rand_mag(rng), 'u': _rate_unit(rng, order, wrong)}
        c = {'kind': 'accept', 'reac': reac, 'prod': {'D': 1}, 'param': _typify(rng, param, free=True), 'wrong': wrong}
        if 'u' in param and not c['param'].get('mt') and rng.random() < 0.1:
            c['array_n'] = rng.choice([1, 2, 3])     # an ARRAY-valued rate constant (parameter scan): `.item()` needs size 1
            return c
        if 'u' in param and not c['param'].get('mt') and rng.random() < 0.08:
            c['wrap_expr'] = True          # pq.Quantity(<Arrhenius expression>, unit): check_consistent_units evaluates it at 1 K
            return c
        return self._with_inactive(rng, c)

    def _with_inactive(self, rng, c):
        """inactive (parenthesised) reactants / products — they take part in the net stoichiometry, not in the mass-action
        expression — through the constructor or through from_string('… + (H2O) …')"""
        if rng.random() < 0.3:
            for key, names in (('inact_reac', ['X', 'Y']), ('inact_prod', ['Z', 'W'])):
                d = {}
                for _ in range(rng.choice([0, 1, 1, 2])):
                    x = rng.choice(names)
                    d[x] = d.get(x, 0) + 1
                c[key] = d
            p = c['param']
            if p.get('u') and not p.get('mt') and rng.random() < 0.5:
                c['via'] = 'string'
        return c

    def _equilibrium_case(self, rng):
        nr, np_ = rng.randint(0, 3), rng.randint(0, 3)
        if nr == 0 and np_ == 0:
            np_ = 1
        reac, prod = _rand_reac(rng, nr), {}
        for _ in range(np_):
            s = rng.choice(['D', 'E', 'G'])
            prod[s] = prod.get(s, 0) + 1
        e = np_ - nr
        r = rng.random()
        if r < 0.4:       # written with molar only: the accepted form
            ul = [['molar', e]] if e else []
            if e and rng.random() < 0.5:
                ul = [['molar', 1 if e > 0 else -1] for _ in range(abs(e))]
        elif r < 0.75:    # right dimension, any concentration units (mol/dm3 = molar exactly, but not in float64)
            ul = []
            for _ in range(abs(e)):
                cu_ = [['mol', 1], ['dm', -3]] if rng.random() < 0.35 else _conc_units(rng)
                for name, x in cu_:
                    ul.append([name, x * (1 if e > 0 else -1)])
        else:             # wrong dimension, in SI-coherent (simplified unit magnitude 1) and non-coherent units alike
            ul = self._wrong_eq_unit(rng, e)
        kind = 'num' if rng.random() < 0.05 else 'qty'
        param = {'num': _rand_mag(rng)} if kind == 'num' else _typify(rng, {'mag': _rand_mag(rng), 'u': ul}, free=True)
        return self._with_inactive(rng, {'kind': 'equilibrium', 'reac': reac, 'prod': prod, 'param': param})

    def _wrong_eq_unit(self, rng, e):
        """a unit expression whose dimension is NOT concentration^e: another power of concentration (each factor in its own
        unit: mol/m3 and mM are SI-coherent, M, uM, mol/cm3 are not), the right power with a time / length / mass / temperature
        factor too many, a rate-constant unit, or a bare base unit; for e = 0 every non-dimensionless unit is wrong"""
        want = tuple(e * x for x in CONC)
        for _ in range(50):
            r = rng.random()
            ul = []
            if r < 0.35:
                e2 = e + rng.choice([-2, -1, 1, 2])
                for _ in range(abs(e2)):
                    for name, x in _conc_units(rng):
                        ul.append([name, x * (1 if e2 > 0 else -1)])
            elif r < 0.6:
                for _ in range(abs(e)):
                    for name, x in _conc_units(rng):
                        ul.append([name, x * (1 if e > 0 else -1)])
                ul.append([rng.choice(TIME_UNITS + ['m', 'cm', 'kg', 'g', 'K', 'mol', 'mmol']), rng.choice([-1, 1])])
            elif r < 0.8:
                ul = _rate_unit(rng, rng.randint(0, 3))
            else:
                ul = [[rng.choice(['s', 'minute', 'm', 'km', 'kg', 'g', 'K', 'mol', 'umol', 'A']), rng.choice([-1, 1, 2])]]
            rng.shuffle(ul)
            if _book_u(ul)[1] != want:
                return ul
        return [['s', -1]]

    def _equilibrium_grid(self, rng):
        """every delta = products - reactants in -2..2 (delta = 0: equimolar, the expected unit is the dimensionless molar**0)
        x a fixed list of SI-coherent and non-coherent units: right ones must be handled as the model says, wrong ones refused"""
        shapes = [({'A': 1}, {'D': 1}), ({'A': 1, 'B': 1}, {'D': 1, 'E': 1}), ({'A': 2}, {'D': 1, 'E': 1}),
                  ({'A': 1}, {'D': 1, 'E': 1}), ({'A': 2}, {'D': 1}), ({'A': 1}, {'D': 2, 'E': 1}), ({'A': 2, 'B': 1}, {'D': 1}),
                  ({}, {'D': 1}), ({'A': 2}, {})]
        units = [[], [['mol', 1], ['m', -3]], [['millimolar', 1]], [['s', -1]], [['m', 3], ['mol', -1], ['s', -1]], [['m', 3], ['mol', -1]],
                 [['mol', 2], ['m', -6]], [['m', 1]], [['kg', 1]], [['K', 1]], [['millimolar', -1]], [['millimolar', 2]],
                 [['molar', 1]], [['micromolar', 1]], [['minute', -1]], [['molar', -1]], [['molar', 2]], [['mol', 1], ['cm', -3]],
                 [['km', 1]], [['g', 1]], [['hour', -1], ['molar', -1]], [['molar', 1], ['s', -1]], [['mol', 1], ['m', -3], ['s', -1]]]
        out = []
        for reac, prod in shapes:
            for ul in units:
                c = {'kind': 'equilibrium', 'reac': dict(reac), 'prod': dict(prod),
                     'param': {'mag': rng.choice(['1', '3', _rand_mag(rng)]), 'u': [list(x) for x in ul]}}
                out.append(c)
                if rng.random() < 0.5:      # the same with a net count of inactive species of -1, +1 or +2
                    c2 = json.loads(json.dumps(c))
                    c2['inact_reac'], c2['inact_prod'] = rng.choice([({'X': 1}, {}), ({}, {'Z': 1}), ({}, {'Z': 2}), ({'X': 1}, {'Z': 1, 'W': 1})])
                    if c2['param']['u'] and rng.random() < 0.5:
                        c2['via'] = 'string'
                    out.append(c2)
        return out

    def _ode_case(self, rng, tier, named, spectator=False, typed=None, catalyst=False):
        subst, rxns = _rand_system(rng, tier, spectator)
        if catalyst:        # a substance on both sides of one reaction and nowhere else: its rate is identically zero
            rxns[0]['reac']['Q'] = rxns[0]['reac'].get('Q', 0) + 1
            rxns[0]['prod']['Q'] = rxns[0]['prod'].get('Q', 0) + 1
            subst = subst + ['Q']
        typed = (rng.random() < 0.3) if typed is None else typed
        if typed:       # configuration A in integer / numpy-scalar / Fraction magnitudes; B re-expresses the same physics in floats
            conf_a, phys_k, phys_c = _typed_config(rng, subst, rxns)
        else:
            phys_k = [_nice(rng) for _ in rxns]
            phys_c = {s: _nice(rng) for s in subst}
            conf_a = _config(rng, subst, rxns, phys_k, phys_c)
        return {'kind': 'ode_named' if named else 'ode', 'spectator': spectator, 'typed': typed, 'subst': subst, 'rxns': rxns,
                'symbol_args': named and rng.random() < 0.25,
                'phys_k': [str(k) for k in phys_k], 'phys_c': {s: str(v) for s, v in phys_c.items()},
                'A': conf_a, 'B': _config(rng, subst, rxns, phys_k, phys_c)}

    def _as_reactions_case(self, rng):
        nf, nb = rng.randint(1, 3), rng.randint(1, 2)
        reac, prod = {}, {}
        for _ in range(nf):
            x = rng.choice(['A', 'B'])
            reac[x] = reac.get(x, 0) + 1
        for _ in range(nb):
            x = rng.choice(['C', 'D'])
            prod[x] = prod.get(x, 0) + 1
        d = nb - nf
        def rate(order, p_wrong=0.25):
            w = rng.choice(WRONGS) if rng.random() < p_wrong else None
            return {'mag': _rand_mag(rng), 'u': _rate_unit(rng, order, w)}
        if rng.random() < 0.7:
            K = {'num': _rand_mag(rng)}
        else:                                  # unit-carrying K (as Equilibrium's own check wants it written)
            K = {'mag': _rand_mag(rng), 'u': [['molar', d]] if d else []}
        r = rng.random()
        mode = 'kf' if r < 0.45 else 'kb' if r < 0.8 else 'tuple' if r < 0.9 else rng.choice(['none', 'both'])
        units = rng.random() < 0.85
        plain_rates = (not units) and rng.random() < 0.6
        mk = (lambda order: {'num': _rand_mag(rng)}) if plain_rates else rate
        c = {'kind': 'as_reactions', 'reac': reac, 'prod': prod, 'K': K, 'mode': mode, 'units': units, 'kf': None, 'kb': None}
        if mode in ('kf', 'both'):
            c['kf'] = mk(nf)
        if mode in ('kb', 'both'):
            c['kb'] = mk(nb)
        if mode == 'tuple':
            c['pair'] = [mk(nf), mk(nb)]
        subst = sorted(set(reac) | set(prod))
        c['subst'] = subst
        phys_c = {x: _nice(rng) for x in subst}
        c['confs'] = []
        for _ in range(2):
            c0 = {}
            for x in subst:
                ul = _conc_units(rng)
                c0[x] = {'mag': str(phys_c[x] / _book_u(ul)[0]), 'u': ul}
            c['confs'].append({'reg': _rand_reg(rng), 'c0': c0, 't': {'mag': _rand_mag(rng), 'u': [[rng.choice(TIME_UNITS), 1]]}})
        return c

    def _history_case(self, rng, tier):
        """SEVERAL unit-aware systems built one after the other in ONE process, whose rate constants are MassAction expressions
        with unique keys drawn from a small pool of names: the same name carries different values / units / registries in
        different systems (and in other cases of the run).  State leaking from one get_odesys call into the next shows here."""
        pool = ['k1', 'k2', 'k3', 'k4', 'k5', 'k6', 'k7', 'k8']
        systems = []
        for i in range(rng.randint(2, 3)):
            subst, rxns = _rand_system(rng, 'quick')
            keys = ['k1'] + rng.sample(pool[1:], len(rxns) - 1)      # every system reuses 'k1'
            if rng.random() < 0.3:
                rng.shuffle(keys)
            if rng.random() < 0.3:
                conf = _typed_config(rng, subst, rxns)[0]
            else:
                conf = _config(rng, subst, rxns, [_nice(rng) for _ in rxns], {x: _nice(rng) for x in subst})
            systems.append({'subst': subst, 'rxns': rxns, 'keys': keys, 'include': rng.random() < 0.7, 'conf': conf})
        return {'kind': 'history', 'systems': systems}

    def _no_registry_case(self, rng, tier):
        """get_odesys WITHOUT a unit registry on plain numbers: the right-hand side is the plain computation on those numbers
        (`plainRhs`, the hand computation in one fixed unit set), p_units is None"""
        subst, rxns = _rand_system(rng, tier, spectator=rng.random() < 0.1)
        return {'kind': 'no_registry', 'subst': subst, 'rxns': rxns, 'named': rng.random() < 0.4,
                'ks': [str(_nice(rng)) for _ in rxns], 'c0': {x: str(_nice(rng)) for x in subst}, 't': _rand_mag(rng)}

    def _ctor_flags_case(self, rng):
        """Reaction(..., checks=..., dont_check=...): which checks run, and the refusal when both are given"""
        order = rng.randint(0, 3)
        c = self._accept_case(rng, order, rng.choice([None] + WRONGS))
        c.pop('inact_reac', None); c.pop('inact_prod', None); c.pop('via', None); c.pop('array_n', None); c.pop('wrap_expr', None)
        r = rng.random()
        if r < 0.3:
            flags = {'checks': rng.choice([['consistent_units'], [], ['any_effect'], ['consistent_units', 'all_positive']]), 'dont_check': None}
        elif r < 0.7:
            flags = {'checks': None, 'dont_check': rng.choice([['consistent_units'], ['any_effect'], ['consistent_units', 'all_integral'], []])}
        else:
            flags = {'checks': rng.choice([['consistent_units'], []]), 'dont_check': rng.choice([['consistent_units'], ['any_effect']])}
        c['flags'] = flags
        return c

    EXPR_VARIANTS = {'Radiolytic': ['plain'], 'Arrhenius': ['plain', 'as_rateexpr', 'fk_named', 'partial_uk', 'subst', 'constants', 'ramp', 'ramp_free', 'bad_subst', 'noreg_constants'],
                     'Eyring': ['plain', 'subst', 'constants']}

    def _expr_case(self, rng):
        """a reaction whose rate constant is MassAction(Arrhenius([A, Ea/R])) or MassAction(Eyring([c0, dH/R])), supplied in the
        ways get_odesys accepts: values, an ArrheniusParamWithUnits (as_RateExpr), free unique keys (include_params=False),
        unique keys for some arguments only, temperature as parameter / passive substitution / attribute of `constants` /
        RampedTemp substitution; a substitution for a key that occurs nowhere must be refused"""
        cls = rng.choice(['Arrhenius', 'Arrhenius', 'Eyring', 'Radiolytic'])
        order = rng.randint(1, 3)
        reac = {}
        for _ in range(order):
            x = rng.choice(['A', 'B'])
            reac[x] = reac.get(x, 0) + 1
        subst = sorted(set(reac) | {'C'})
        A_si, phys_c = _nice(rng), {x: _nice(rng) for x in subst}
        Ea, T = F(rng.randint(100, 9000)), F(rng.randint(250, 600))
        confs = []
        rho_si, D_si = _nice(rng), _nice(rng)
        for _ in range(3):
            # Eyring.__call__ multiplies by conc0**(1-order) itself: its first argument is per time per kelvin (see notes, finding 6)
            if cls == 'Radiolytic':      # radiolytic yield: amount per energy
                ul = rng.choice([[['mol', 1], ['joule', -1]], [['umol', 1], ['joule', -1]], [['mmol', 1], ['joule', -1]]])
            else:
                ul = _rate_unit(rng, order) if cls == 'Arrhenius' else [[rng.choice(TIME_UNITS), -1], ['K', -1]]
            c0 = {}
            for x in subst:
                cul = _conc_units(rng)
                c0[x] = {'mag': str(phys_c[x] / _book_u(cul)[0]), 'u': cul}
            conf = {'reg': _rand_reg(rng), 'A': {'mag': str(A_si / _book_u(ul)[0]), 'u': ul}, 'c0': c0,
                    't': {'mag': _rand_mag(rng), 'u': [[rng.choice(TIME_UNITS), 1]]}}
            if cls == 'Radiolytic':
                rl = rng.choice([[['kg', 1], ['m', -3]], [['g', 1], ['cm', -3]], [['kg', 1], ['dm', -3]]])
                dl = [['gray', 1], [rng.choice(TIME_UNITS), -1]]
                conf['rho'] = {'mag': str(rho_si / _book_u(rl)[0]), 'u': rl}
                conf['D'] = {'mag': str(D_si / _book_u(dl)[0]), 'u': dl}
            confs.append(conf)
        if not hasattr(self, '_expr_cnt'):
            self._expr_cnt = {}
        self._expr_cnt[cls] = self._expr_cnt.get(cls, -1) + 1          # every variant of a class in turn
        vs = self.EXPR_VARIANTS[cls]
        variant = vs[self._expr_cnt[cls] % len(vs)]
        if variant in ('ramp', 'ramp_free'):       # keep dT/dt * t small: T0 = T - dT/dt * t must not cancel digits of T
            for conf in confs:
                conf['t'] = {'mag': str(rng.randint(1, 20)), 'u': [[rng.choice(['s', 'ms']), 1]]}
        return {'kind': 'ode_expr', 'cls': cls, 'variant': variant, 'reac': reac, 'prod': {'C': 1},
                'subst': subst, 'A_si': str(A_si), 'Ea': str(Ea), 'T': str(T), 'rho_si': str(rho_si), 'D_si': str(D_si), 'confs': confs,
                'dTdt': {'mag': str(rng.randint(1, 3)), 'u': [['K', 1], [rng.choice(['s', 'minute', 'hour']), -1]]}}

    def _roundtrip_case(self, rng, tier):
        c = self._ode_case(rng, tier, named=True)
        c['kind'] = 'roundtrip'
        c['x'] = [_typify(rng, {'mag': _rand_mag(rng), 'u': [[rng.choice(TIME_UNITS), 1]]}, free=True) for _ in range(rng.randint(1, 3))]
        if rng.random() < 0.3:      # the times as ONE Quantity array of integer / float32 dtype
            c['x_array'] = _typed_array(rng, rng.randint(1, 3), [[rng.choice(TIME_UNITS), 1]])
            c['x'] = [{'mag': m, 'u': c['x_array']['u']} for m in c['x_array']['mags']]
        if rng.random() < 0.3:      # the concentrations as ONE Quantity array
            c['y_array'] = _typed_array(rng, len(c['subst']), _conc_units(rng))
            c['A']['c0'] = {x: {'mag': m, 'u': c['y_array']['u']} for x, m in zip(c['subst'], c['y_array']['mags'])}
        r = rng.random()
        c['out_t'] = None if r < 0.4 else ([[rng.choice(TIME_UNITS), 1]] if r < 0.9 else [['m', 1]])
        r = rng.random()
        c['out_c'] = None if r < 0.4 else (_conc_units(rng) if r < 0.9 else [['mol', 1], ['m', -2]])
        return c

    # ------------------------------------------------------------------------------------------------ model cases
    def _rxn_json(self, c):
        idx = {s: i for i, s in enumerate(c['subst'])}
        out = []
        for r in c['rxns']:
            out.append({'reac': [[idx[s], n] for s, n in sorted(r['reac'].items())],
                        'prod': [[idx[s], n] for s, n in sorted(r['prod'].items())],
                        'inact_reac': [[idx[s], n] for s, n in sorted(r.get('inact_reac', {}).items())],
                        'inact_prod': [[idx[s], n] for s, n in sorted(r.get('inact_prod', {}).items())]})
        return out

    def _unique(self, c):
        return [{'cls': 'MassAction', 'nargs': 1, 'idx': 0, 'order': sum(r['reac'].values())} for r in c['rxns']]

    def _model_case(self, c):
        k = c['kind']
        if k == 'accept' and c.get('array_n'):
            return {'op': 'reaction_check_sized', 'size': c['array_n'], 'param': _mj(c['param']), 'order': sum(c['reac'].values()), 'kind': k}
        if k == 'accept' and c.get('flags'):
            fl = c['flags']
            sel = ('consistent_units' in fl['checks']) if fl['checks'] is not None else ('consistent_units' not in (fl['dont_check'] or []))
            return {'op': 'reaction_ctor', 'param': _mj(c['param']), 'order': sum(c['reac'].values()),
                    'checks_given': fl['checks'] is not None, 'dont_check_given': fl['dont_check'] is not None, 'unit_selected': sel, 'kind': k}
        if k in ('accept', 'equilibrium') and ('inact_reac' in c or 'inact_prod' in c):
            vals = lambda key: [n for _, n in sorted(c.get(key, {}).items())]
            return {'op': 'reaction_check_s' if k == 'accept' else 'equilibrium_check_s', 'param': _mj(c['param']),
                    'reac': vals('reac'), 'prod': vals('prod'), 'inact_reac': vals('inact_reac'), 'inact_prod': vals('inact_prod'),
                    'kind': k}
        if k == 'accept':
            return {'op': 'reaction_check', 'param': _mj(c['param']), 'order': sum(c['reac'].values()), 'kind': k}
        if k == 'equilibrium':
            return {'op': 'equilibrium_check', 'param': _mj(c['param']), 'nprod': sum(c['prod'].values()),
                    'nreac': sum(c['reac'].values()), 'kind': k}
        if k == 'args_dims':
            return {'op': 'args_dims', 'cls': c['cls'], 'nargs': c['nargs'], 'order': sum(c['reac'].values()), 'kind': k}
        if k in ('ode', 'ode_named', 'ode_named_wrong'):
            a = c['A']
            m = {'op': 'ode_rhs' if k == 'ode' else 'ode_rhs_named', 'reg': _mj_reg(a['reg']), 'rxns': self._rxn_json(c),
                 'y': [_mj(a['c0'][s]) for s in c['subst']], 'ns': len(c['subst']), 'kind': k}
            m['ks' if k == 'ode' else 'p'] = [_mj(q) for q in a['ks']]
            return m
        if k == 'roundtrip':
            a = c['A']
            out = lambda ul: None if ul is None else _mj({'mag': '1', 'u': ul})
            return {'op': 'roundtrip', 'reg': _mj_reg(a['reg']), 'pk': [], 'include': False, 'unique': self._unique(c),
                    'x': [_mj(q) for q in c['x']], 'y': [_mj(a['c0'][s]) for s in c['subst']], 'p': [_mj(q) for q in a['ks']],
                    'out_t': out(c['out_t']), 'out_c': out(c['out_c']), 'kind': k}
        if k == 'dedim_tcp':
            a = c['A']
            return {'op': 'dedim_tcp', 'reg': _mj_reg(a['reg']), 't': _mj(a['t']), 'c': [_mj(a['c0'][s]) for s in c['subst']],
                    'p': [_mj(q) for q in a['ks']], 'kind': k}
        if k == 'validate':
            return None           # several terms per system: compared in the oracle against per-term model expectations
        if k == 'derived_fallback':
            return {'op': 'derived_fallback', 'reg': _mj_reg(c['reg']), 'key': c['key'], 'kind': k}
        if k == 'dedim_args':
            return {'op': 'dedim_args', 'reg': _mj_reg(c['reg']), 'args': [_mj(q) for q in c['args']], 'kind': k}
        if k == 'no_registry':
            return {'op': 'plain_rhs', 'ks': [rat_json(F(v)) for v in c['ks']], 'rxns': self._rxn_json(c),
                    'y': [rat_json(F(c['c0'][x])) for x in c['subst']], 'ns': len(c['subst']), 'kind': k}
        if k == 'cstr_units':
            return {'op': 'ode_units', 'reg': _mj_reg(c['reg']), 'pk': ['feedratio', 'fc_A', 'fc_B'], 'include': True, 'unique': [], 'kind': k}
        if k == 'ode_expr' and c['variant'] == 'plain' and c['cls'] == 'Arrhenius':
            conf = c['confs'][0]
            return {'op': 'arrhenius_args', 'reg': _mj_reg(conf['reg']), 'A': _mj(conf['A']),
                    'EaR': _mj({'mag': c['Ea'], 'u': [['K', 1]]}), 'T': _mj({'mag': c['T'], 'u': [['K', 1]]}), 'kind': k}
        if k == 'ode_expr' and c['variant'] == 'fk_named':
            order = sum(c['reac'].values())
            return {'op': 'ode_units', 'reg': _mj_reg(c['confs'][0]['reg']), 'pk': ['temperature'], 'include': False,
                    'unique': [{'cls': 'Arrhenius', 'nargs': 2, 'idx': i, 'order': order} for i in (0, 1)], 'kind': k}
        if k == 'ode_units_arrhenius':
            return {'op': 'ode_units', 'reg': _mj_reg(c['reg']), 'pk': ['temperature'], 'include': True, 'unique': [], 'kind': k}
        if k == 'history':
            sy = c['systems'][-1]
            a = sy['conf']
            m = {'op': 'ode_rhs' if sy['include'] else 'ode_rhs_named', 'reg': _mj_reg(a['reg']), 'rxns': self._rxn_json(sy),
                 'y': [_mj(a['c0'][x]) for x in sy['subst']], 'ns': len(sy['subst']), 'kind': k}
            m['ks' if sy['include'] else 'p'] = [_mj(q) for q in a['ks']]
            return m
        if k == 'as_reactions':
            if c['mode'] == 'tuple':
                return None
            opt = lambda q: None if q is None else _mj(q)
            return {'op': 'as_reactions', 'K': _mj(c['K']), 'kf': opt(c['kf']), 'kb': opt(c['kb']),
                    'nf': sum(c['reac'].values()), 'nb': sum(c['prod'].values()), 'units': c['units'], 'kind': k}
        if k == 'validate_term':
            return {'op': 'validate_term', 'k': _mj(c['k']), 'cs': [[_mj(q), n] for q, n in c['cs']], 'kind': k}
        return None

    def classify(self, c):
        k = c.get('kind', '?')
        if k == 'accept' and c.get('flags'):
            return 'accept with checks=%s dont_check=%s' % ('given' if c['flags']['checks'] is not None else 'None',
                                                           'given' if c['flags']['dont_check'] is not None else 'None')
        if k == 'accept' and c.get('array_n'):
            return 'accept array-valued constant of size %d' % c['array_n']
        if k == 'accept' and c.get('wrap_expr'):
            return 'accept Quantity wrapping an Expr'
        if k == 'accept':
            p = c['param']
            tag = 'plain' if 'num' in p else 'unitobj' if 'unitobj' in p else ('right' if not c.get('wrong') else 'wrong-' + c['wrong'])
            return 'accept order=%d %s%s' % (sum(c['reac'].values()), tag, self._tags(c))
        if k in ('ode', 'ode_named'):
            if c.get('spectator'):
                return k + ' with a spectator substance'
            if any('inact_reac' in r or 'inact_prod' in r for r in c['rxns']):
                return k + ' with inactive (parenthesised) species' + (' typed' if c.get('typed') else '')
            if c.get('typed'):
                return k + ' with integer / numpy-scalar / Fraction magnitudes'
            return '%s orders=%s' % (k, ''.join(str(sum(r['reac'].values())) for r in c['rxns']))
        if k == 'equilibrium':
            if _eq_quirk_class(c):
                r = self._impl_case(c)
                return ('equilibrium float-factor quirk: exact model accepts, real code refuses (float64 ==)' if r == 'ValueError'
                        else 'equilibrium float-factor class: exact factor = 1000^delta not written in molar, real code %s' % r)
            e = sum(c['prod'].values()) - sum(c['reac'].values())
            p = c['param']
            if 'u' not in p:
                return 'equilibrium delta=%d plain constant' % e
            f, d = _book_u(p['u'])
            tag = 'right dimension' if d == tuple(e * x for x in CONC) else 'WRONG dimension'
            return 'equilibrium delta=%d %s, unit %s%s' % (e, tag, 'SI-coherent (factor 1)' if f == 1 else 'not coherent', self._tags(c))
        if k == 'as_reactions':
            return 'as_reactions mode=%s units=%s K=%s' % (c['mode'], c['units'], 'plain' if 'num' in c['K'] else 'quantity')
        if k == 'ode_expr':
            return 'ode_expr %s %s' % (c['cls'], c['variant'])
        if k == 'history':
            return 'history of %d systems sharing unique-key names (%s)' % (
                len(c['systems']), '/'.join('incl' if sy['include'] else 'named' for sy in c['systems']))
        return k

    # ------------------------------------------------------------------------------------------------ real code
    def _mk(self, c, **kw):
        """the Reaction / Equilibrium of an accept / equilibrium case: constructor (with inact_reac / inact_prod) or from_string"""
        import chempy
        cls = chempy.Reaction if c['kind'] == 'accept' else chempy.Equilibrium
        if c.get('via') == 'string':
            side = lambda act, inact: ' + '.join(['%d %s' % (n, x) for x, n in sorted(act.items())] +
                                                 ['(%d %s)' % (n, x) for x, n in sorted(inact.items())])
            p = c['param']
            ptxt = '*'.join([repr(float(F(p['mag'])))] + ['%s**%d' % (name, e) for name, e in p['u']])
            txt = '%s %s %s; %s' % (side(c['reac'], c.get('inact_reac', {})), '->' if c['kind'] == 'accept' else '=',
                                    side(c['prod'], c.get('inact_prod', {})), ptxt)
            r = cls.from_string(txt, **kw)
            want = [dict(c['reac']), dict(c['prod']), dict(c.get('inact_reac', {})), dict(c.get('inact_prod', {}))]
            got = [dict(r.reac), dict(r.prod), dict(r.inact_reac), dict(r.inact_prod)]
            if got != want:
                raise AssertionError('from_string(%r) read %r, written %r' % (txt, got, want))
            return r
        param = _real(c['param'])
        if c.get('array_n'):
            import numpy as np
            param = np.array([float(F(c['param']['mag'])) * (i + 1) for i in range(c['array_n'])]) * param.units
        if c.get('wrap_expr'):
            import numpy as np
            from chempy.kinetics.rates import Arrhenius
            cu = _cu()
            param = cu.pq.Quantity(np.array(Arrhenius([float(F(c['param']['mag'])), 5000.0]), dtype=object), param.units)
        if c.get('flags') and 'checks' not in kw:
            for key in ('checks', 'dont_check'):
                if c['flags'][key] is not None:
                    kw[key] = tuple(c['flags'][key]) if key == 'checks' else set(c['flags'][key])
        return cls(dict(c['reac']), dict(c['prod']), param, c.get('inact_reac') or None, c.get('inact_prod') or None, **kw)

    def _tags(self, c):
        t = ''
        if 'inact_reac' in c or 'inact_prod' in c:
            net = sum(c.get('inact_prod', {}).values()) - sum(c.get('inact_reac', {}).values())
            t += ' +inactive(net %+d, %s)' % (net, c.get('via', 'ctor'))
        if c['param'].get('mt'):
            t += ' mag:' + c['param']['mt']
        return t

    def _build_rsys(self, c, conf, named):
        from chempy import Reaction, ReactionSystem
        rx = []
        for i, (r, k) in enumerate(zip(c['rxns'], conf['ks'])):
            if named and c.get('symbol_args'):
                from chempy.kinetics.rates import MassAction
                from chempy.util._expr import Symbol
                par = MassAction(Symbol(unique_keys=('k%d' % i,)))
            else:
                par = ('k%d' % i) if named else _real(k)
            rx.append(_mkrxn(r, par))
        return ReactionSystem(rx, ' '.join(c['subst']))

    def _run_ode(self, c, conf, named):
        """-> (unitless f as list of floats, extra)"""
        from chempy.kinetics.ode import get_odesys
        rsys = self._build_rsys(c, conf, named)
        odesys, extra = get_odesys(rsys, include_params=not named, unit_registry=_real_reg(conf['reg']))
        c0 = {s: _real(conf['c0'][s]) for s in c['subst']}
        p = {('k%d' % i): _real(k) for i, k in enumerate(conf['ks'])} if named else ()
        t = _real(conf['t'])
        before = _snap([t, c0, p])
        x, y, pp = odesys.to_arrays(t, c0, p)
        f = odesys.f_cb(x[-1], y, pp)
        odesys.post_process(x, y, pp)
        _unchanged('get_odesys(...).to_arrays / f_cb / post_process', before, [t, c0, p])
        return [float(v) for v in f.ravel()[:len(c['subst'])]], extra

    def impl(self, mc):
        """the real code on the case this model case came from; canonical text = what the driver prints (parsed in same())"""
        c = mc.get('_case')
        return '!no-case' if c is None else self._impl_case(c)

    def _impl_case(self, c):
        k = c['kind']
        with warnings.catch_warnings():
            warnings.simplefilter('ignore')
            try:
                if k in ('accept', 'equilibrium'):
                    self._mk(c)
                    return 'ok'
                if k == 'history':
                    return json.dumps(self._run_history(c)[-1])
                if k == 'as_reactions':
                    fw, bw = self._as_reactions(c)
                    return json.dumps([list(_read(fw.param)), list(_read(bw.param))])
                if k == 'args_dims':
                    from chempy import Reaction
                    from chempy.kinetics import rates
                    rxn = Reaction(dict(c['reac']), {'D': 1})
                    cls = getattr(rates, c['cls'])
                    dd = cls([1] * c['nargs']).args_dimensionality(reaction=rxn)
                    return json.dumps([[int(d.get(key, 0)) for key in KEYS] for d in dd])
                if k in ('ode', 'ode_named', 'ode_named_wrong'):
                    f, _ = self._run_ode(c, c['A'], named=(k != 'ode'))
                    return json.dumps(f)
                if k == 'roundtrip':
                    return json.dumps(self._run_roundtrip(c))
                if k == 'dedim_tcp':
                    from chempy.kinetics.ode import _mk_dedim
                    a = c['A']
                    ins = [_real(a['t']), {s: _real(a['c0'][s]) for s in c['subst']},
                           {('k%d' % i): _real(q) for i, q in enumerate(a['ks'])}]
                    before = _snap(ins)
                    (t, cc, p), ex = _mk_dedim(_real_reg(a['reg']))['dedim_tcp'](*ins)
                    _unchanged('dedim_tcp', before, ins)
                    return json.dumps({'t': float(t), 'c': [float(cc[s]) for s in c['subst']],
                                       'p': [[list(_read(ex['param_units']['k%d' % i])), float(p['k%d' % i])] for i in range(len(a['ks']))]})
                if k == 'derived_fallback':
                    from chempy.kinetics.ode import _get_derived_unit
                    return json.dumps(list(_read(_get_derived_unit(_real_reg(c['reg']), c['key']))))
                if k == 'no_registry':
                    return json.dumps(self._run_no_registry(c)[0])
                if k == 'cstr_units':
                    _, extra = self._run_cstr_units(c)
                    return json.dumps({'keys': list(extra['param_keys']), 'p_units': [list(_read(x)) for x in extra['p_units']]})
                if k == 'ode_expr' and c['variant'] == 'plain':
                    # the three unitless numbers the unit-aware system evaluates the Arrhenius expression on
                    from chempy.kinetics import rates
                    conf = c['confs'][0]
                    u_ = _cu().default_units
                    odesys, extra, ins, _ = self._build_expr(c, conf)
                    _, inst = rates.MassAction(rates.Arrhenius([_real(conf['A']), float(F(c['Ea'])) * u_.K])).dedimensionalisation(
                        _real_reg(conf['reg']))
                    a_, e_ = inst.args[0].args
                    t_ = odesys.to_arrays_callbacks[2]([ins[2]['temperature']])
                    return json.dumps([float(a_), float(e_), float(t_[0])])
                if k == 'ode_expr':
                    odesys, extra, _, _ = self._build_expr(c, c['confs'][0])
                    return json.dumps({'keys': list(odesys.param_names), 'p_units': [list(_read(x)) for x in extra['p_units']]})
                if k == 'dedim_args':
                    from chempy.kinetics.rates import MassAction, Arrhenius
                    from chempy.util._expr import Expr
                    # nargs given, or left None (then Expr.all_args takes len(self.args))
                    cls = type('E%d' % len(c['args']), (Expr,), {'nargs': len(c['args'])} if len(c['args']) % 2 else {})
                    units, inst = cls([_real(q) for q in c['args']]).dedimensionalisation(_real_reg(c['reg']))
                    return json.dumps([[list(_read(u)), float(v)] for u, v in zip(units, inst.args)])
                if k == 'ode_units_arrhenius':
                    from chempy import Reaction, ReactionSystem
                    from chempy.kinetics.rates import MassAction, Arrhenius
                    from chempy.kinetics.ode import get_odesys
                    reac = {'A': c['order']}
                    A = {'mag': c['A']['mag'], 'u': [['molar', 1 - c['order']], ['s', -1]] if c['order'] != 1 else [['s', -1]]}
                    rxn = Reaction(reac, {'B': 1}, MassAction(Arrhenius([_real(A), _real(c['Ea'])])))
                    _, extra = get_odesys(ReactionSystem([rxn], 'A B'), unit_registry=_real_reg(c['reg']))
                    return json.dumps({'keys': list(extra['param_keys']), 'p_units': [list(_read(u)) for u in extra['p_units']]})
            except Exception as e:
                return exc_name(e)
        return '!unknown-kind'

    def _run_no_registry(self, c):
        from chempy import Reaction, ReactionSystem
        from chempy.kinetics.ode import get_odesys
        rx = [_mkrxn(r, ('k%d' % i) if c['named'] else float(F(k)))
              for i, (r, k) in enumerate(zip(c['rxns'], c['ks']))]
        odesys, extra = get_odesys(ReactionSystem(rx, ' '.join(c['subst'])), include_params=not c['named'])
        p = {('k%d' % i): float(F(k)) for i, k in enumerate(c['ks'])} if c['named'] else ()
        x, y, pp = odesys.to_arrays(float(F(c['t'])), {s_: float(F(c['c0'][s_])) for s_ in c['subst']}, p)
        f = odesys.f_cb(x[-1], y, pp)
        return [float(v) for v in f.ravel()[:len(c['subst'])]], extra

    def _run_cstr_units(self, c):
        from chempy import Reaction, ReactionSystem
        from chempy.kinetics.ode import get_odesys
        k = {'mag': c['k']['mag'], 'u': [['molar', 1 - c['order']], ['s', -1]] if c['order'] != 1 else [['s', -1]]}
        rxn = Reaction({'A': c['order']}, {'B': 1}, _real(k))
        return get_odesys(ReactionSystem([rxn], 'A B'), unit_registry=_real_reg(c['reg']), cstr=True)

    def _build_expr(self, c, conf):
        """the unit-aware system of an ode_expr case in one configuration -> (odesys, extra, (t, c0, p), T at the time asked for)"""
        import types
        from chempy import Reaction, ReactionSystem
        from chempy.kinetics import rates
        from chempy.kinetics.ode import get_odesys
        cu = _cu()
        u = cu.default_units
        Ea, T = float(F(c['Ea'])), float(F(c['T']))
        A_q, Ea_q, T_q = _real(conf['A']), Ea * u.K, T * u.K
        v = c['variant']
        cls = getattr(rates, c['cls'])
        kw, p = {}, {'temperature': T_q}
        if c['cls'] == 'Radiolytic':
            rxn = Reaction(dict(c['reac']), dict(c['prod']), cls([A_q]))
            odesys, extra = get_odesys(ReactionSystem([rxn], ' '.join(c['subst'])), unit_registry=_real_reg(conf['reg']))
            return odesys, extra, [_real(conf['t']), {x: _real(conf['c0'][x]) for x in c['subst']},
                                   {'density': _real(conf['rho']), 'doserate': _real(conf['D'])}], T
        if v == 'as_rateexpr':
            from chempy.kinetics.arrhenius import ArrheniusParamWithUnits
            param = ArrheniusParamWithUnits(A_q, Ea_q * cu.default_constants.molar_gas_constant)
        elif v == 'fk_named':
            param = rates.MassAction(cls.fk('A1', 'Ea1'))
            kw['include_params'] = False
            p = {'temperature': T_q, 'A1': A_q, 'Ea1': Ea_q}
        elif v == 'partial_uk':
            param = rates.MassAction(cls([A_q, Ea_q], unique_keys=('A1',)))
        else:
            param = rates.MassAction(cls([A_q, Ea_q]))
        t = _real(conf['t'])
        if v == 'subst':
            kw['substitutions'], p = {'temperature': T_q}, ()
        elif v == 'constants':
            kw['constants'], p = types.SimpleNamespace(temperature=T_q), ()
        elif v == 'noreg_constants':
            # no registry: numbers are taken as they are; `constants` attributes lose their units (magnitude)
            A_si, cs = float(F(c['A_si'])), {x: float(_si(conf['c0'][x])) for x in c['subst']}
            rxn = Reaction(dict(c['reac']), dict(c['prod']), rates.MassAction(cls([A_si, Ea])))
            odesys, extra = get_odesys(ReactionSystem([rxn], ' '.join(c['subst'])), constants=types.SimpleNamespace(temperature=T_q))
            return odesys, extra, [float(_si(conf['t'])), cs, ()], T
        elif v in ('ramp', 'ramp_free'):
            if v == 'ramp_free':
                kw['include_params'] = False       # the substitution expression goes through _reg_unique as well
            dTdt = _real(c['dTdt'])
            T0 = T - float(_si(c['dTdt'])) * float(_si(conf['t']))
            kw['substitutions'], p = {'temperature': rates.RampedTemp([T0 * u.K, dTdt])}, ()
        elif v == 'bad_subst':
            kw['substitutions'] = {'bogus_key': 3.0}
        rxn = Reaction(dict(c['reac']), dict(c['prod']), param)
        odesys, extra = get_odesys(ReactionSystem([rxn], ' '.join(c['subst'])), unit_registry=_real_reg(conf['reg']), **kw)
        return odesys, extra, [t, {x: _real(conf['c0'][x]) for x in c['subst']}, p], T

    def _run_history(self, c):
        """every system of the history, in order, in this process -> list of unitless right-hand sides"""
        from chempy import Reaction, ReactionSystem
        from chempy.kinetics.ode import get_odesys
        from chempy.kinetics.rates import MassAction
        out = []
        for sy in c['systems']:
            conf = sy['conf']
            vals = [_real(q) for q in conf['ks']]
            rx = [_mkrxn(r, MassAction([v], unique_keys=(key,)))
                  for r, v, key in zip(sy['rxns'], vals, sy['keys'])]
            rsys = ReactionSystem(rx, ' '.join(sy['subst']))
            odesys, extra = get_odesys(rsys, include_params=sy['include'], unit_registry=_real_reg(conf['reg']))
            c0 = {x: _real(conf['c0'][x]) for x in sy['subst']}
            p = () if sy['include'] else {key: _real(q) for key, q in zip(sy['keys'], conf['ks'])}
            t = _real(conf['t'])
            before = _snap([t, c0, p, vals])
            x, y, pp = odesys.to_arrays(t, c0, p)
            f = odesys.f_cb(x[-1], y, pp)
            _unchanged('get_odesys / to_arrays / f_cb (unique-key constants)', before, [t, c0, p, vals])
            if not sy['include']:
                uq = extra['unique']
                if list(uq) != list(sy['keys']):
                    raise InputMutated("extra['unique'] has keys %r, the system's unique keys are %r" % (list(uq), sy['keys']))
                for key, v0 in zip(sy['keys'], vals):
                    if _snap(uq[key]) != _snap(v0):
                        raise InputMutated("extra['unique'][%r] = %r, the system's own constant is %r" % (key, uq[key], v0))
            out.append([float(v) for v in f.ravel()[:len(sy['subst'])]])
        return out

    def _as_reactions(self, c):
        from chempy import Equilibrium
        cu = _cu()
        opt = lambda q: None if q is None else _real(q)
        if c['mode'] == 'tuple':
            eq = Equilibrium(dict(c['reac']), dict(c['prod']), (_real(c['pair'][0]), _real(c['pair'][1])))
        else:
            eq = Equilibrium(dict(c['reac']), dict(c['prod']), _real(c['K']), checks=())   # K's own unit check is another case kind
        return eq.as_reactions(kf=opt(c['kf']), kb=opt(c['kb']), units=cu.default_units if c['units'] else None)

    def _run_roundtrip(self, c):
        from chempy.kinetics.ode import get_odesys
        import numpy as np
        a = c['A']
        rsys = self._build_rsys(c, a, True)
        unit = lambda ul: None if ul is None else _real({'mag': '1', 'u': ul}).units
        odesys, extra = get_odesys(rsys, include_params=False, unit_registry=_real_reg(a['reg']),
                                   output_time_unit=unit(c['out_t']), output_conc_unit=unit(c['out_c']))
        cbs = odesys.to_arrays_callbacks
        ins = [_real_array(c['x_array']) if c.get('x_array') else [_real(q) for q in c['x']],
               _real_array(c['y_array']) if c.get('y_array') else [_real(a['c0'][s]) for s in c['subst']],
               [_real(q) for q in a['ks']]]
        before = _snap(ins)
        x = cbs[0](ins[0])
        y = cbs[1](ins[1])
        p = cbs[2](ins[2])
        t, cc, pp = odesys.post_processors[-1](np.asarray(x), np.asarray(y), np.asarray(p))
        _unchanged('to_arrays callbacks / post_processor', before, ins)
        rd = lambda arr: [[float(getattr(e, 'magnitude', e))] + list(_read(e)) for e in arr]
        return {'x': [float(v) for v in x], 'y': [float(v) for v in y], 'p': [float(v) for v in p],
                'time': rd(t), 'conc': rd(cc), 'params': rd(pp), 'p_units': [list(_read(u)) for u in extra['p_units']]}

    # the framework calls model_case(c) -> mc, sends json.dumps(mc) to the driver and calls impl(mc): carry the case along
    # in a key the driver ignores
    def model_case(self, c):
        mc = self._model_case(c)
        if mc is not None:
            mc['_case'] = c
        return mc

    # ------------------------------------------------------------------------------------------------ comparison
    def same(self, mc, io, mo):
        c = mc.get('_case')
        k = c['kind']
        errs = ('ValueError', 'KeyError', 'TypeError', 'IndexError', 'AttributeError', 'LookupError')
        if k == 'equilibrium':
            # model answer vs real answer; they may differ ONLY inside the explicit float-factor class, and only in the
            # direction "exact model accepts, real code refuses" (counted by classify() in the evidence)
            if io == mo:
                return mo in ('ok', 'ValueError')
            return mo == 'ok' and io == 'ValueError' and _eq_quirk_class(c)
        if k == 'as_reactions':
            if io in errs or mo in errs:
                return io == mo
            try:
                a, b = json.loads(io), json.loads(mo)
                for (si, d), o in zip(a, b):
                    osi, od = _parse_py(o)
                    if tuple(d) != od or not _close(si, osi):
                        return False
                return len(a) == len(b) == 2
            except Exception:
                return False
        if k == 'accept':
            return io == mo
        if io in errs or mo in errs or io.startswith('!') or mo.startswith('!'):
            return io == mo
        try:
            a, b = json.loads(io), json.loads(mo)
            if k == 'args_dims':
                return a == b
            if k == 'no_registry':
                sc = self._plain_scales(c)
                return len(a) == len(b) and all(_close(x, F(yv), s_) for x, yv, s_ in zip(a, b, sc))
            if k == 'ode_expr' and c['variant'] == 'plain':
                return len(a) == len(b) == 3 and all(_close(x, F(yv)) for x, yv in zip(a, b))
            if k in ('ode_expr', 'cstr_units'):
                if k == 'ode_expr' and a['keys'] != ['temperature', 'A1', 'Ea1']:
                    return False
                if len(a['p_units']) != len(b['p_units']):
                    return False
                for (si, d), o in zip(a['p_units'], b['p_units']):
                    osi, od = _parse_py(o)
                    if tuple(d) != od or not _close(si, osi):
                        return False
                return True
            if k == 'history':
                sy = c['systems'][-1]
                sc = self._scales(sy, sy['conf'])
                return len(a) == len(b) and all(_close(x, F(yv), s_) for x, yv, s_ in zip(a, b, sc))
            if k in ('ode', 'ode_named'):
                sc = self._scales(c, c['A'])
                return len(a) == len(b) and all(_close(x, F(yv), s) for x, yv, s in zip(a, b, sc))
            if k == 'roundtrip':
                for key in ('x', 'y', 'p'):
                    if len(a[key]) != len(b[key]) or not all(_close(x, F(yv)) for x, yv in zip(a[key], b[key])):
                        return False
                for key in ('time', 'conc', 'params'):
                    if len(a[key]) != len(b[key]):
                        return False
                    for (mag, si, d), o in zip(a[key], b[key]):
                        osi, od = _parse_py(o)
                        omag = F(o['n']) if 'n' in o else F(o['m'])
                        if tuple(d) != od or not _close(si, osi) or not _close(mag, omag):
                            return False
                return True
            if k == 'dedim_tcp':
                if not _close(a['t'], F(b['t'])) or len(a['c']) != len(b['c']) or len(a['p']) != len(b['p']):
                    return False
                if not all(_close(x, F(yv)) for x, yv in zip(a['c'], b['c'])):
                    return False
                for ((si, d), v), (o, ov) in zip(a['p'], b['p']):
                    osi, od = _parse_py(o)
                    if tuple(d) != od or not _close(si, osi) or not _close(v, F(ov)):
                        return False
                return True
            if k == 'derived_fallback':
                osi, od = _parse_py(b)
                return tuple(a[1]) == od and _close(a[0], osi)
            if k == 'dedim_args':
                if len(a) != len(b):
                    return False
                for ((si, d), v), (o, ov) in zip(a, b):
                    osi, od = _parse_py(o)
                    if tuple(d) != od or not _close(si, osi) or not _close(v, F(ov)):
                        return False
                return True
            if k == 'ode_units_arrhenius':
                if a['keys'] != ['temperature'] or len(a['p_units']) != len(b['p_units']):
                    return False
                for (si, d), o in zip(a['p_units'], b['p_units']):
                    osi, od = _parse_py(o)
                    if tuple(d) != od or not _close(si, osi):
                        return False
                return True
        except Exception:
            return False
        return False

    def _scales(self, c, conf):
        """per substance: sum of |net| * |rate| in the registry's conc/time unit (the size of the terms that may cancel)"""
        unit = _reg_si(conf['reg'], CONC) / _reg_si(conf['reg'], TIME)
        out = []
        rates = self._hand_rates(c, conf)
        for s in c['subst']:
            tot = sum(abs(_net(r, s)) * abs(rt) for r, rt in zip(c['rxns'], rates))
            out.append(float(tot / unit))
        return out

    def _plain_rates(self, c):
        out = []
        for r, k in zip(c['rxns'], c['ks']):
            v = F(k)
            for x, n in r['reac'].items():
                v *= F(c['c0'][x]) ** n
            out.append(v)
        return out

    def _plain_scales(self, c):
        rates = self._plain_rates(c)
        return [float(sum(abs(_net(r, x)) * abs(rt) for r, rt in zip(c['rxns'], rates))) for x in c['subst']]

    def _hand_rates(self, c, conf):
        """rate of every reaction in SI (mol m-3 s-1), from the SI values of constant and concentrations"""
        out = []
        for r, k in zip(c['rxns'], conf['ks']):
            v = _si(k)
            for s, n in r['reac'].items():
                v *= _si(conf['c0'][s]) ** n
            out.append(v)
        return out

    def _hand_rhs(self, c, conf):
        rates = self._hand_rates(c, conf)
        return [sum(_net(r, s) * rt for r, rt in zip(c['rxns'], rates)) for s in c['subst']]

    # ------------------------------------------------------------------------------------------------ oracle
    def oracle(self, c):
        with warnings.catch_warnings():
            warnings.simplefilter('ignore')
            return self._oracle(c)

    def _oracle(self, c):
        k = c['kind']
        if k == 'accept':
            return self._oracle_accept(c)
        if k == 'equilibrium':
            return self._oracle_equilibrium(c)
        if k == 'args_dims':
            return self._oracle_args_dims(c)
        if k in ('ode', 'ode_named'):
            return self._oracle_ode(c, named=(k == 'ode_named'))
        if k == 'ode_named_wrong':
            try:
                f, _ = self._run_ode(c, c['A'], named=True)
            except InputMutated as e:
                return str(e)
            except ValueError:
                return None          # the refusal the model states (named_constant_wrong_dimension_refused: ValueError)
            except Exception as e:
                return 'named rate constant of the wrong dimension: to_arrays raised %s (%s) instead of ValueError' % (exc_name(e), str(e)[:100])
            return 'named rate constant %d has dimension %s (order %d needs %s) but to_arrays accepted it: f=%r' % (
                c['bad'], _book(c['A']['ks'][c['bad']])[2], sum(c['rxns'][c['bad']]['reac'].values()),
                rate_dims(sum(c['rxns'][c['bad']]['reac'].values())), f)
        if k == 'no_registry':
            return self._oracle_no_registry(c)
        if k == 'cstr_units':
            return self._oracle_cstr_units(c)
        if k == 'history':
            return self._oracle_history(c)
        if k == 'as_reactions':
            return self._oracle_as_reactions(c)
        if k == 'ode_expr':
            return self._oracle_expr(c)
        if k == 'roundtrip':
            return self._oracle_roundtrip(c)
        if k == 'dedim_tcp':
            return self._oracle_dedim_tcp(c)
        if k == 'validate':
            return self._oracle_validate(c)
        if k == 'dedim_args':
            r = self._impl_case(c)
            try:
                res = json.loads(r)
            except Exception:
                return 'dedimensionalisation raised %s' % r
            reg = c['reg']
            for q, ((usi, ud), v) in zip(c['args'], res):
                _, _, d = _book(q)
                if tuple(ud) != d:
                    return 'dedimensionalisation: unit of dimension %s for an argument of dimension %s' % (tuple(ud), d)
                if not _close(usi, _reg_si(reg, d)):
                    return 'dedimensionalisation: registry unit has SI value %r, by hand %r' % (usi, float(_reg_si(reg, d)))
                if not _close(v * usi, _si(q)):
                    return 'dedimensionalisation: value x unit = %r, the argument is %r (SI)' % (v * usi, float(_si(q)))
            return None
        if k in ('derived_fallback', 'ode_units_arrhenius'):
            return None          # correspondence-only kinds (their content is claimed through p_units in the ode kinds)
        return 'no oracle claim for case kind %r' % k

    def _oracle_accept(self, c):
        p = c['param']
        order = sum(c['reac'].values())
        if 'num' in p or 'unitobj' in p:
            expect = True
        else:
            expect = _book(p)[2] == rate_dims(order)
        if c.get('array_n', 1) != 1:
            # finding 10 (notes): `self.param.item()` sits outside the try — an array-valued constant of size != 1 is refused with
            # ValueError whatever its dimension, by the constructor and by check_consistent_units(throw=False) alike
            for call in (lambda: self._mk(c), lambda: self._mk(c, checks=()).check_consistent_units()):
                try:
                    call()
                except ValueError:
                    continue
                except Exception as e:
                    return 'array-valued rate constant: %s instead of ValueError' % exc_name(e)
                if expect:
                    continue      # should the code ever accept arrays, a right-dimension one is fine
                return 'array-valued rate constant %s of the wrong dimension for order %d was accepted' % (p, order)
            return None
        fl = c.get('flags')
        if fl:
            both = fl['checks'] is not None and fl['dont_check'] is not None
            sel = ('consistent_units' in fl['checks']) if fl['checks'] is not None else ('consistent_units' not in (fl['dont_check'] or []))
            want = False if both else (expect or not sel)
            try:
                self._mk(c)
                got = True
            except ValueError:
                got = False
            except Exception as e:
                return 'Reaction(checks=%r, dont_check=%r) raised %s' % (fl['checks'], fl['dont_check'], exc_name(e))
            if got != want:
                return 'Reaction(..., %s, checks=%r, dont_check=%r) for order %d: %s, expected %s' % (
                    p, fl['checks'], fl['dont_check'], order, 'accepted' if got else 'refused', 'acceptance' if want else 'refusal')
            return None
        try:
            self._mk(c)
            got = True
        except AssertionError as e:
            return str(e)
        except Exception:
            got = False
        r = self._mk(c, checks=())
        if r.order() != order:
            return 'order() = %r for active reactants %s (inactive %s)' % (r.order(), c['reac'], c.get('inact_reac'))
        try:
            got2 = bool(r.check_consistent_units())
        except Exception as e:
            return 'check_consistent_units(throw=False) raised %s' % exc_name(e)
        try:
            r.check_consistent_units(throw=True)
            got3 = True
        except Exception:
            got3 = False
        if not (got == got2 == got3):
            return 'constructor / check(throw=False) / check(throw=True) disagree: %s %s %s' % (got, got2, got3)
        if got != expect:
            return 'rate constant %s for order %d: dimension %s, required %s, %s' % (
                p, order, _book(p)[2], rate_dims(order), 'accepted' if got else 'refused')
        # Reaction.copy: same stoichiometry and constant, same verdict; a copy given a new constant and asked to check it, checks it
        if 'unitobj' in p:
            return None          # copy.copy(pq.s) yields a broken UnitTime object (no _definition) inside `quantities` (third party)
        try:
            r2 = r.copy()
            if (dict(r2.reac), dict(r2.prod), dict(r2.inact_reac), dict(r2.inact_prod)) != (
                    dict(r.reac), dict(r.prod), dict(r.inact_reac), dict(r.inact_prod)):
                return 'Reaction.copy() changed the stoichiometry'
            if not c.get('wrap_expr') and _snap(r2.param) != _snap(r.param):
                return 'Reaction.copy() changed the rate constant: %r -> %r' % (r.param, r2.param)
            if bool(r2.check_consistent_units()) != got2:
                return 'Reaction.copy() changed the verdict of check_consistent_units()'
            try:
                r.copy(checks=('consistent_units',))
                got4 = True
            except ValueError:
                got4 = False
            if got4 != got:
                return 'Reaction.copy(checks=("consistent_units",)) %s a constant the constructor %s' % (
                    'accepts' if got4 else 'refuses', 'accepts' if got else 'refuses')
        except Exception as e:
            return 'Reaction.copy raised %s: %s' % (exc_name(e), str(e)[:120])
        return None

    def _oracle_equilibrium(self, c):
        from chempy import Equilibrium
        p = c['param']
        e = sum(c['prod'].values()) - sum(c['reac'].values())
        try:
            self._mk(c)
            got = True
        except AssertionError as e_:
            return str(e_)
        except ValueError:
            got = False
        eq = self._mk(c, checks=())
        if bool(eq.check_consistent_units()) != got:
            return 'Equilibrium constructor and check_consistent_units() disagree'
        if 'num' in p:
            return None if got else 'plain equilibrium constant refused'
        want = tuple(e * x for x in CONC)
        if got and _book(p)[2] != want:
            return 'equilibrium constant %s accepted: dimension %s, required %s' % (p, _book(p)[2], want)
        if not got and _book(p)[2] == want and all(n == 'molar' for n, _ in p['u']):
            return 'equilibrium constant written in molar refused: %s' % p
        return None

    def _oracle_args_dims(self, c):
        r = self._impl_case(c)
        try:
            dd = [tuple(x) for x in json.loads(r)]
        except Exception:
            return 'args_dimensionality raised %s' % r
        order = sum(c['reac'].values())
        rd = rate_dims(order)
        temp = _d(TH=1)
        want = {'MassAction': [rd], 'Arrhenius': [rd, temp], 'Eyring': [_dadd(rd, temp, -1), temp, CONC],
                'Radiolytic': [_dadd(_d(N=1), _d(M=1, L=2, T=-2), -1)] * c['nargs']}[c['cls']]
        if dd != want:
            return '%s.args_dimensionality for order %d = %s, physical dimensions %s' % (c['cls'], order, dd, want)
        return None

    def _oracle_ode(self, c, named):
        hand = self._hand_rhs(c, c['A'])
        hand_b = self._hand_rhs(c, c['B'])
        phys = []
        for tag in ('A', 'B'):
            conf = c[tag]
            try:
                f, extra = self._run_ode(c, conf, named)
            except Exception as e:
                if c.get('spectator') and isinstance(e, ValueError) and not isinstance(e, InputMutated):
                    return None      # a substance in no reaction: get_odesys refuses the system (a rejection, not a result)
                return 'unit-aware ODE system (config %s) raised %s: %s' % (tag, exc_name(e), str(e)[:120])
            unit = _reg_si(conf['reg'], CONC) / _reg_si(conf['reg'], TIME)
            sc = [s * float(unit) for s in self._scales(c, conf)]
            ph = [v * float(unit) for v in f]
            phys.append(ph)
            h = hand if tag == 'A' else hand_b
            for s, v, w, scale in zip(c['subst'], ph, h, sc):
                if not _close(v, w, scale):
                    return ('d[%s]/dt from the unit-aware system in registry %s = %r mol m-3 s-1, by hand in SI %r '
                            '(constants %s, concentrations %s)' % (s, conf['reg'], v, float(w), conf['ks'], conf['c0']))
            pu = extra['p_units']
            if not named:
                if list(pu) != []:
                    return 'p_units = %r for a system without free parameters' % (pu,)
            else:
                if len(pu) != len(c['rxns']):
                    return 'p_units has %d entries for %d named constants' % (len(pu), len(c['rxns']))
                for r, u, kq in zip(c['rxns'], pu, conf['ks']):
                    order = sum(r['reac'].values())
                    usi, ud = _read(u)
                    if ud != rate_dims(order):
                        return 'reported parameter unit %r for order %d has dimension %s, required %s' % (u, order, ud, rate_dims(order))
                    if not _close(usi, _reg_si(conf['reg'], rate_dims(order))):
                        return 'reported parameter unit %r has SI value %r, registry %s gives %r' % (
                            u, usi, conf['reg'], float(_reg_si(conf['reg'], rate_dims(order))))
        sc = [s * float(_reg_si(c['A']['reg'], CONC) / _reg_si(c['A']['reg'], TIME)) for s in self._scales(c, c['A'])]
        for s, v, w, scale in zip(c['subst'], phys[0], phys[1], sc):
            if not _close(v, w, scale, rtol=2 * RTOL):
                return 'd[%s]/dt differs between two registries / unit choices: %r vs %r mol m-3 s-1' % (s, v, w)
        return None

    def _oracle_as_reactions(self, c):
        """reactions obtained from Equilibrium.as_reactions: the hand-computed pair decides acceptance; what comes back must
        carry the hand-computed constants, pass its own unit check, and give registry-independent rates"""
        nf, nb = sum(c['reac'].values()), sum(c['prod'].values())
        d = nb - nf
        zero = (0,) * 7
        isq = lambda q: q is not None and 'u' in q
        # --- by hand: (SI value, dims, is-quantity) of kf and kb, or a refusal
        expect = None
        if c['mode'] == 'tuple':
            hand = [(_si(q), _book(q)[2], isq(q)) for q in c['pair']]
        elif c['mode'] in ('none', 'both'):
            expect = 'refused'
        elif not c['units'] and (isq(c['kf']) or isq(c['kb'])):
            expect = 'refused'
        else:
            c0_si, c0_d, c0_q = (F(1000), CONC, True) if c['units'] else (F(1), zero, False)
            K_si, K_d, K_q = _si(c['K']), _book(c['K'])[2], isq(c['K'])
            fac_si, fac_d = K_si * c0_si ** d, _dadd(K_d, tuple(d * x for x in c0_d))
            if c['mode'] == 'kb':
                b = c['kb']
                hand = [(_si(b) * fac_si, _dadd(_book(b)[2], fac_d), isq(b) or K_q or c0_q), (_si(b), _book(b)[2], isq(b))]
            else:
                f = c['kf']
                hand = [(_si(f), _book(f)[2], isq(f)), (_si(f) / fac_si, _dadd(_book(f)[2], fac_d, -1), isq(f) or K_q or c0_q)]
        if expect is None:
            ok = all((not q) or dm == rate_dims(o) for (_, dm, q), o in zip(hand, (nf, nb)))
            expect = 'accepted' if ok else 'refused'
        try:
            fw, bw = self._as_reactions(c)
            got = 'accepted'
        except (ValueError, TypeError) as e:
            got = 'refused'
        if got != expect:
            return ('Equilibrium.as_reactions(%s): %s, but by hand the pair is %s (orders %d / %d require %s / %s)' % (
                {k2: c.get(k2) for k2 in ('K', 'kf', 'kb', 'pair', 'units', 'mode')}, got,
                'refusal' if expect == 'refused' and c['mode'] in ('none', 'both') else
                [(float(v), dm) for v, dm, _ in hand] if 'hand' in dir() else expect, nf, nb, rate_dims(nf), rate_dims(nb)))
        if got == 'refused':
            return None
        for r, (v, dm, q), o, nm, stoich in zip((fw, bw), hand, (nf, nb), ('forward', 'backward'), (c['reac'], c['prod'])):
            si, dd = _read(r.param)
            if dd != dm or not _close(si, v):
                return '%s constant from as_reactions = %r %s, by hand %r %s' % (nm, si, dd, float(v), dm)
            if dict(r.reac) != dict(stoich):
                return '%s reaction from as_reactions has reactants %s, expected %s' % (nm, dict(r.reac), stoich)
            if q and dd != rate_dims(o):
                return '%s reaction from as_reactions carries a constant of dimension %s, order %d requires %s' % (nm, dd, o, rate_dims(o))
            try:
                chk = bool(r.check_consistent_units())
            except Exception as e:
                return '%s reaction from as_reactions: check_consistent_units raised %s' % (nm, exc_name(e))
            if not chk:
                return '%s reaction returned by as_reactions fails its own check_consistent_units()' % nm
        if not all(q for _, _, q in hand):
            return None          # plain numbers are taken as registry units by construction: nothing unit-aware to compare
        # --- registry independence of the pair
        from chempy import ReactionSystem
        from chempy.kinetics.ode import get_odesys
        phys = []
        for conf in c['confs']:
            cs = {x: _si(conf['c0'][x]) for x in c['subst']}
            rf, rb = hand[0][0], hand[1][0]
            for x, n in c['reac'].items():
                rf *= cs[x] ** n
            for x, n in c['prod'].items():
                rb *= cs[x] ** n
            want = [(c['prod'].get(x, 0) - c['reac'].get(x, 0)) * (rf - rb) for x in c['subst']]
            scale = float(abs(rf) + abs(rb)) * max(max(c['reac'].values()), max(c['prod'].values()))
            try:
                odesys, extra = get_odesys(ReactionSystem([fw, bw], ' '.join(c['subst'])), unit_registry=_real_reg(conf['reg']))
                x_, y_, p_ = odesys.to_arrays(_real(conf['t']), {x: _real(conf['c0'][x]) for x in c['subst']}, ())
                f = [float(v) for v in odesys.f_cb(x_[-1], y_, p_).ravel()[:len(c['subst'])]]
            except Exception as e:
                return 'unit-aware system of the as_reactions pair raised %s: %s' % (exc_name(e), str(e)[:120])
            unit = float(_reg_si(conf['reg'], CONC) / _reg_si(conf['reg'], TIME))
            ph = [v * unit for v in f]
            phys.append(ph)
            for x, v, w in zip(c['subst'], ph, want):
                if not _close(v, w, scale):
                    return ('as_reactions pair in registry %s: d[%s]/dt = %r mol m-3 s-1, by hand %r' % (conf['reg'], x, v, float(w)))
        return None

    def _oracle_history(self, c):
        """each system of the history gives ITS OWN hand-computed rates (nothing leaks from the systems built before it), and the
        `variables` dicts handed to rate expressions come back unchanged"""
        try:
            fs = self._run_history(c)
        except Exception as e:
            return 'history of unit-aware systems raised %s: %s' % (exc_name(e), str(e)[:200])
        for i, (sy, f) in enumerate(zip(c['systems'], fs)):
            conf = sy['conf']
            unit = float(_reg_si(conf['reg'], CONC) / _reg_si(conf['reg'], TIME))
            hand = self._hand_rhs(sy, conf)
            sc = [x * unit for x in self._scales(sy, conf)]
            for x, v, w, scale in zip(sy['subst'], f, hand, sc):
                if not _close(v * unit, w, scale):
                    return ('system %d of a history (unique keys %s, include_params=%s, registry %s): d[%s]/dt = %r mol m-3 s-1, by hand '
                            'from ITS OWN constants %s: %r; earlier systems used %s' % (
                                i, sy['keys'], sy['include'], conf['reg'], x, v * unit, conf['ks'], float(w),
                                [(s0['keys'], s0['conf']['ks']) for s0 in c['systems'][:i]]))
        # the dicts handed to rate expressions
        from chempy import Reaction, ReactionSystem
        from chempy.kinetics.rates import MassAction
        sy = c['systems'][-1]
        conf = sy['conf']
        rx = [_mkrxn(r, MassAction([_real(q)], unique_keys=(key,)))
              for r, q, key in zip(sy['rxns'], conf['ks'], sy['keys'])]
        rsys = ReactionSystem(rx, ' '.join(sy['subst']))
        variables = {x: _real(conf['c0'][x]) for x in sy['subst']}
        variables['not_a_key'] = 1.0
        before = _snap(variables)
        try:
            rates = rsys.rates(variables)
            for r in rx:
                r.rate(variables)
                r.rate_expr()(variables, reaction=r)
        except Exception as e:
            return 'evaluating the rate expressions on a variables dict raised %s: %s' % (exc_name(e), str(e)[:160])
        v2 = dict(variables)
        b2 = _snap(v2)
        try:
            for r in rx:
                r.rate_expr().dedimensionalisation(_real_reg(conf['reg']), v2)
        except Exception as e:
            return 'dedimensionalisation with a variables dict raised %s: %s' % (exc_name(e), str(e)[:160])
        if _snap(variables) != before:
            return 'rate evaluation modified the caller\'s variables dict: before %r, after %r' % (before, _snap(variables))
        if _snap(v2) != b2:
            return 'dedimensionalisation modified the caller\'s variables dict: before %r, after %r' % (b2, _snap(v2))
        hand = self._hand_rhs(sy, conf)
        sc = self._scales(sy, conf)
        unit = float(_reg_si(conf['reg'], CONC) / _reg_si(conf['reg'], TIME))
        for x, w, scale in zip(sy['subst'], hand, sc):
            v, d = _read(rates[x])
            # quantities of float32 dtype are multiplied in float32 by numpy (24-bit mantissa): not a conversion error
            f32 = any(q.get('mt') == 'float32' for q in list(conf['ks']) + list(conf['c0'].values()))
            if d != _dadd(CONC, TIME, -1) or not _close(v, w, scale * unit, rtol=1e-5 if f32 else RTOL):
                return 'ReactionSystem.rates with quantities: rate of %s = %r %s, by hand %r mol m-3 s-1' % (x, v, d, float(w))
        return None

    def _oracle_expr(self, c):
        """Arrhenius / Eyring rate constants (no theorem: clauses_without_theorem): two registries / unit choices vs the hand formula,
        for every way of supplying the expression and the temperature"""
        u = _cu().default_units
        order = sum(c['reac'].values())
        A, Ea, T = float(F(c['A_si'])), float(F(c['Ea'])), float(F(c['T']))
        k = A * math.exp(-Ea / T) if c['cls'] == 'Arrhenius' else A * T * math.exp(-Ea / T) * 1000.0 ** (1 - order)
        v = c['variant']
        for conf in c['confs']:
            cs = {x: float(_si(conf['c0'][x])) for x in c['subst']}
            rate = k
            for x, n in c['reac'].items():
                rate *= cs[x] ** n
            if c['cls'] == 'Radiolytic':       # yield x density x dose rate, no dependence on concentrations
                rate = A * float(F(c['rho_si'])) * float(F(c['D_si']))
            want = [(c['prod'].get(x, 0) - c['reac'].get(x, 0)) * rate for x in c['subst']]
            try:
                odesys, extra, ins, _ = self._build_expr(c, conf)
                if v == 'bad_subst':
                    return 'a substitution for a key that occurs in no rate expression was accepted'
                before = _snap(ins)
                x_, y_, p_ = odesys.to_arrays(*ins)
                f = [float(w) for w in odesys.f_cb(x_[-1], y_, p_).ravel()[:len(c['subst'])]]
                _unchanged('get_odesys(...).to_arrays / f_cb', before, ins)
            except Exception as e:
                if v == 'bad_subst' and isinstance(e, ValueError) and not isinstance(e, InputMutated):
                    continue
                return '%s system (%s) raised %s: %s' % (c['cls'], v, exc_name(e), str(e)[:160])
            if c['cls'] == 'Radiolytic':
                dens, dose = _d(M=1, L=-3), _d(L=2, T=-3)
                if sorted(odesys.param_names) != ['density', 'doserate'] or len(extra['p_units']) != 2:
                    return 'Radiolytic system: parameters %r, p_units %r' % (list(odesys.param_names), extra['p_units'])
                for key, pu in zip(extra['param_keys'], extra['p_units']):
                    usi, ud = _read(pu)
                    wd = dens if key == 'density' else dose
                    if ud != wd or not _close(usi, _reg_si(conf['reg'], wd)):
                        return 'Radiolytic system: reported unit of %s = %r, registry %s' % (key, pu, conf['reg'])
                unit = float(_reg_si(conf['reg'], CONC) / _reg_si(conf['reg'], TIME))
                for x, w_, w in zip(c['subst'], f, want):
                    if not _close(w_ * unit, w, abs(rate), rtol=1e-9):
                        return ('Radiolytic yield %s, density %s, dose rate %s, registry %s: d[%s]/dt = %r mol m-3 s-1, by hand %r' % (
                            conf['A'], conf['rho'], conf['D'], conf['reg'], x, w_ * unit, w))
                continue
            want_keys = {'fk_named': ['temperature', 'A1', 'Ea1'], 'subst': [], 'constants': [], 'ramp': [], 'ramp_free': [],
                         'noreg_constants': []}.get(v, ['temperature'])
            if v == 'noreg_constants':
                if extra['p_units'] is not None:
                    return 'p_units = %r without a unit registry' % (extra['p_units'],)
                for x, w_, w in zip(c['subst'], f, want):
                    if not _close(w_, w, abs(rate), rtol=1e-9):
                        return 'Arrhenius without registry (SI numbers, temperature from `constants`): d[%s]/dt = %r, by hand %r' % (x, w_, w)
                continue
            if list(odesys.param_names) != want_keys:
                return '%s system (%s): parameters %r, expected %r' % (c['cls'], v, list(odesys.param_names), want_keys)
            want_dims = {'temperature': _d(TH=1), 'A1': rate_dims(order), 'Ea1': _d(TH=1)}
            if len(extra['p_units']) != len(want_keys):
                return '%s system (%s): p_units %r for parameters %r' % (c['cls'], v, extra['p_units'], want_keys)
            for key, pu in zip(want_keys, extra['p_units']):
                usi, ud = _read(pu)
                if ud != want_dims[key] or not _close(usi, _reg_si(conf['reg'], want_dims[key])):
                    return '%s system (%s): reported unit of %s = %r, registry %s' % (c['cls'], v, key, pu, conf['reg'])
            unit = float(_reg_si(conf['reg'], CONC) / _reg_si(conf['reg'], TIME))
            for x, w_, w in zip(c['subst'], f, want):
                if not _close(w_ * unit, w, abs(rate), rtol=1e-9):
                    return ('%s rate constant (%s), order %d, registry %s: d[%s]/dt = %r mol m-3 s-1, by hand %r (A = %s)' % (
                        c['cls'], v, order, conf['reg'], x, w_ * unit, w, conf['A']))
        return self._oracle_expr_args(c) if c['cls'] == 'Arrhenius' else None

    def _oracle_expr_args(self, c):
        """`Expr.arg`: an argument comes back as supplied (value and unit) whether it is addressed by index or by name, given
        as a value or as the name of a variable; a unique key without value and without default raises KeyError"""
        from chempy.kinetics.rates import Arrhenius
        u = _cu().default_units
        A_q, Ea_q = _real(c['confs'][0]['A']), float(F(c['Ea'])) * u.K
        try:
            e1 = Arrhenius([A_q, Ea_q])
            if _snap(e1.arg({}, 'Ea_over_R')) != _snap(Ea_q) or _snap(e1.arg({}, 'A')) != _snap(A_q):
                return 'Expr.arg by argument name does not return the argument'
            e3 = Arrhenius(['A_var', Ea_q])
            if _snap(e3.arg({'A_var': A_q}, 0)) != _snap(A_q):
                return 'Expr.arg: an argument given as the name of a variable is not looked up'
            e4 = Arrhenius([A_q, Ea_q], unique_keys=('A1',))
            if _snap(e4.arg({}, 1)) != _snap(Ea_q) or _snap(e4.arg({'A1': 2 * A_q}, 0)) != _snap(2 * A_q) or _snap(e4.arg({}, 0)) != _snap(A_q):
                return 'Expr.arg: unique-key override / positional argument beyond the unique keys wrong'
        except Exception as e:
            return 'Expr.arg raised %s: %s' % (exc_name(e), str(e)[:120])
        try:
            from chempy.kinetics.rates import Eyring
            d_si, d_dim = _read(Eyring.fk('c0_key', 'dH_key').arg({}, 2))
            if d_dim != CONC or not _close(d_si, 1000):
                return 'Eyring: default standard concentration = %r %s, expected 1 molar' % (d_si, d_dim)
        except Exception as e:
            return 'Expr.arg for a defaulted argument raised %s' % exc_name(e)
        try:
            Arrhenius.fk('A1', 'Ea1').arg({'Ea1': Ea_q}, 0)
        except KeyError:
            return None
        except Exception as e:
            return 'Expr.arg with a missing unique key raised %s instead of KeyError' % exc_name(e)
        return 'Expr.arg with a missing unique key returned a value'

    def _oracle_no_registry(self, c):
        spect = any(all(x not in r['reac'] and x not in r['prod'] for r in c['rxns']) for x in c['subst'])
        try:
            f, extra = self._run_no_registry(c)
        except ValueError as e:
            return None if spect else 'get_odesys without registry raised ValueError: %s' % str(e)[:120]
        except Exception as e:
            return 'get_odesys without registry raised %s: %s' % (exc_name(e), str(e)[:120])
        if extra['p_units'] is not None or extra['unit_registry'] is not None:
            return 'p_units = %r without a unit registry' % (extra['p_units'],)
        if c['named']:       # the key 'time' is reserved for the independent variable: a substance of that name is refused
            from chempy import Reaction, ReactionSystem
            from chempy.kinetics.ode import get_odesys
            try:
                get_odesys(ReactionSystem([Reaction({'time': 1}, {'B': 1}, 3.0)], 'time B'))
                return "a substance named 'time' was accepted by get_odesys"
            except ValueError:
                pass
        rates = self._plain_rates(c)
        for x, v, sc in zip(c['subst'], f, self._plain_scales(c)):
            w = sum(_net(r, x) * rt for r, rt in zip(c['rxns'], rates))
            if not _close(v, w, sc):
                return 'without registry: d[%s]/dt = %r, plain computation on the same numbers %r' % (x, v, float(w))
        return None

    def _oracle_cstr_units(self, c):
        """finding 8 (notes): cstr=True together with a unit registry raises KeyError('fc') — a refusal; should it ever be
        accepted, the reported units must be 1/time for the feed ratio and a concentration for every feed concentration"""
        try:
            odesys, extra = self._run_cstr_units(c)
        except KeyError:
            return None
        except Exception as e:
            return 'get_odesys(cstr=True, unit_registry=...) raised %s: %s' % (exc_name(e), str(e)[:120])
        for key, pu in zip(extra['param_keys'], extra['p_units']):
            want = _dadd((0,) * 7, TIME, -1) if key == 'feedratio' else CONC
            usi, ud = _read(pu)
            if ud != want or not _close(usi, _reg_si(c['reg'], want)):
                return 'CSTR parameter %s has reported unit %r' % (key, pu)
        return None

    def _oracle_roundtrip(self, c):
        a = c['A']
        try:
            r = self._run_roundtrip(c)
        except Exception as e:
            bad = (c['out_t'] is not None and _book_u(c['out_t'])[1] != TIME) or (c['out_c'] is not None and _book_u(c['out_c'])[1] != CONC)
            return None if bad else 'to_arrays / post-processing raised %s: %s' % (exc_name(e), str(e)[:120])
        if (c['out_t'] is not None and _book_u(c['out_t'])[1] != TIME) or (c['out_c'] is not None and _book_u(c['out_c'])[1] != CONC):
            return 'an output unit of the wrong dimension was accepted: %s %s' % (c['out_t'], c['out_c'])
        ins = {'time': c['x'], 'conc': [a['c0'][s] for s in c['subst']], 'params': a['ks']}
        outs = {'time': c['out_t'], 'conc': c['out_c'], 'params': None}
        for key in ('time', 'conc', 'params'):
            if len(r[key]) != len(ins[key]):
                return 'post-processor returned %d %s values for %d' % (len(r[key]), key, len(ins[key]))
            for q, (mag, si, d) in zip(ins[key], r[key]):
                if tuple(d) != _book(q)[2]:
                    return 'post-processed %s has dimension %s, input %s' % (key, tuple(d), _book(q)[2])
                if not _close(si, _si(q)):
                    return 'post-processed %s = %r (SI), the input was %r (SI): %s in registry %s' % (key, si, float(_si(q)), q, a['reg'])
                if outs[key] is not None and not _close(mag, _si(q) / _book_u(outs[key])[0]):
                    return 'output %s rescaled to %s has magnitude %r, expected %r' % (key, outs[key], mag, float(_si(q) / _book_u(outs[key])[0]))
        return None

    def _oracle_dedim_tcp(self, c):
        a = c['A']
        r = self._impl_case(c)
        try:
            res = json.loads(r)
        except Exception:
            return 'dedim_tcp raised %s' % r
        reg = a['reg']
        if not _close(res['t'] * float(_reg_si(reg, TIME)), _si(a['t'])):
            return 'dedim_tcp: t x unit_time = %r s, input %r s' % (res['t'] * float(_reg_si(reg, TIME)), float(_si(a['t'])))
        for s, v in zip(c['subst'], res['c']):
            if not _close(v * float(_reg_si(reg, CONC)), _si(a['c0'][s])):
                return 'dedim_tcp: [%s] x unit_conc = %r, input %r (SI)' % (s, v * float(_reg_si(reg, CONC)), float(_si(a['c0'][s])))
        for q, ((usi, ud), v) in zip(a['ks'], res['p']):
            if tuple(ud) != _book(q)[2] or not _close(v * usi, _si(q)):
                return 'dedim_tcp: parameter x reported unit = %r %s, input %r %s' % (v * usi, tuple(ud), float(_si(q)), _book(q)[2])
        return None

    def _oracle_validate(self, c):
        from chempy.kinetics.ode import _create_odesys
        a = c['A']
        rsys = self._build_rsys(c, a, True)
        try:
            odesys_, extra = _create_odesys(rsys, unit_registry=_real_reg(a['reg']))
        except Exception as e:
            return None          # construction problems of the symbolic system are third party
        cond = {s: _real(a['c0'][s]) for s in c['subst']}
        cond.update({('k%d' % i): _real(q) for i, q in enumerate(a['ks'])})
        expect = all(_book(q)[2] == rate_dims(sum(r['reac'].values())) for r, q in zip(c['rxns'], a['ks']))
        before = _snap(cond)
        try:
            res = extra['validate'](cond)
            got = True
        except ValueError:
            got = False
        if got != expect:
            return 'validate %s a system whose constants have dimensions %s for orders %s' % (
                'accepted' if got else 'refused', [_book(q)[2] for q in a['ks']], [sum(r['reac'].values()) for r in c['rxns']])
        if _snap(cond) != before:
            return 'validate modified the caller\'s conditions: before %r, after %r' % (before, _snap(cond))
        # the private function called directly (its own default backend) gives the same verdict
        from chempy.kinetics.ode import _validate
        try:
            res_d = _validate(cond, rsys=rsys, symbols=extra['symbols'], odesys=odesys_)
            got_d = True
        except ValueError:
            got_d = False
        if got_d != got:
            return '_validate called directly %s what extra["validate"] %s' % ('accepts' if got_d else 'refuses', 'accepts' if got else 'refuses')
        if got:
            try:
                extra['validate'](dict(cond, not_a_parameter=1.0), check_conditions_no_extra=True)
                return 'validate(check_conditions_no_extra=True) accepted a condition that is neither substance nor parameter'
            except KeyError:
                pass
            try:
                extra['validate'](cond, check_conditions_no_extra=True)
            except Exception as e:
                return 'validate(check_conditions_no_extra=True) raised %s on the exact set of conditions' % exc_name(e)
        if got:
            hand = self._hand_rhs(c, a)
            unit_sc = self._scales(c, a)
            conv = float(_reg_si(a['reg'], CONC) / _reg_si(a['reg'], TIME))
            for s, w, sc in zip(c['subst'], hand, unit_sc):
                if s in res['rates']:
                    v, d = _read(res['rates'][s])
                    # float32 quantities are multiplied in float32 by numpy (24-bit mantissa): not a conversion error
                    f32 = any(q.get('mt') == 'float32' for q in list(a['ks']) + list(a['c0'].values()))
                    if d != _dadd(CONC, TIME, -1) or not _close(v, w, sc * conv, rtol=1e-5 if f32 else RTOL):
                        return 'validate: rate of %s = %r %s, by hand %r mol m-3 s-1' % (s, v, d, float(w))
            return self._oracle_unit_aware_solve(c, a, extra, hand, [sc * conv for sc in unit_sc])
        return None

    def _oracle_unit_aware_solve(self, c, a, extra, hand, scales):
        """`unit_aware_solve` over a time so short that y(t) - y(0) = rhs * t to first order: the caller's objects must be
        unchanged afterwards and the change of every concentration must be the hand-computed rate times t (5 %: the
        integrator is third party; a wrong constant shows as a factor)"""
        from collections import defaultdict
        cu = _cu()
        u = cu.default_units
        c_si = [float(_si(a['c0'][s])) for s in c['subst']]
        tau = min((cs / sc for cs, sc in zip(c_si, scales) if sc > 0 and cs > 0), default=1.0)
        t_si = 1e-6 * tau
        t = t_si * u.s
        c0 = defaultdict(lambda: 0 * u.molar, {s: _real(a['c0'][s]) for s in c['subst']})
        p = {('k%d' % i): _real(q) for i, q in enumerate(a['ks'])}
        before = _snap([t, dict(c0), p])
        try:
            atol = 1e-6 * min(sc for sc in scales if sc > 0) * t_si / float(_reg_si(a['reg'], CONC))
            result, _ = extra['unit_aware_solve'](t, c0, p, integrator='scipy', atol=atol, rtol=1e-12)
        except Exception as e:
            result = None        # the integrator is third party
        if _snap([t, dict(c0), p]) != before:
            return 'unit_aware_solve modified the caller\'s arguments: before %r, after %r' % (before, _snap([t, dict(c0), p]))
        if result is None or not getattr(result, 'info', {}).get('success', False):
            return None
        try:
            yend = [float(v) for v in result.yout[-1].simplified.magnitude]
        except Exception as e:
            return 'unit_aware_solve result is not a concentration array: %s' % exc_name(e)
        for s, y1, y0, w, sc in zip(c['subst'], yend, c_si, hand, scales):
            if abs((y1 - y0) - float(w) * t_si) > 0.05 * sc * t_si + 1e-9 * abs(y0):
                return ('unit_aware_solve over %r s: [%s] changed by %r mol m-3, hand-computed rate x t = %r'
                        % (t_si, s, y1 - y0, float(w) * t_si))
        return None

    def nontrivial(self, c):
        return True

    def shrink(self, case, still_fails):
        return case


PROPERTY = C10()
