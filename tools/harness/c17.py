"""C17 — closed-form integrated rate laws solve their rate equations from the given start.

Correspondence: every function of chempy/kinetics/integrated.py against the Float instantiation of the generated
Lean model (Gen/FnIntegrated.lean) under the numpy, math and sympy backends; dimerization_irrev additionally exactly
(Fractions vs Rat).
Oracle (real code only, independent of the Lean model): the sympy-backend expression is differentiated with
sympy.diff and the residual of the documented rate equation is evaluated with 100 digits (mpmath via lambdify) at the (exact rational value
of the) generated point; the value at t = 0 must be the stated initial concentration; the three backends must all be
callable and agree; every calling convention of the documented signature (optional arguments by position, by keyword, omitted)
must denote the same call.
"""
import math, struct
from fractions import Fraction
from lib.framework import Property
from .util import *

KNOWN_NAN = 'binary_irrev_cstr:nan-above-steady-state'
BACKENDS = ('numpy', 'math', 'sympy')          # correspondence: backend='numpy', backend='math' (strings), sympy module with symbols
# the oracle calls every function under EVERY advertised way of choosing the backend (see C17._call for the spelling)
ALL_FORMS = ('numpy', 'math', 'sympy', 'mod:numpy', 'mod:math', 'str:sympy', 'mod:sympy', 'None', 'default')

# name -> (parameter names after t, number of results)
FUNCS = {
    'dimerization_irrev': (['kf', 'initial_C', 't0'], 1),
    'pseudo_irrev': (['kf', 'prod', 'major', 'minor'], 1),
    'pseudo_rev': (['kf', 'kb', 'prod', 'major', 'minor'], 1),
    'binary_irrev': (['kf', 'prod', 'major', 'minor'], 1),
    'binary_rev': (['kf', 'kb', 'prod', 'major', 'minor'], 1),
    'unary_irrev_cstr': (['k', 'r', 'p', 'fr', 'fp', 'fv'], 2),
    'binary_irrev_cstr': (['k', 'r', 'p', 'fr', 'fp', 'fv', 'n'], 2),
}


# The DOCUMENTED public signatures (parameter order, names and defaults) -- part of the specification, pinned here and NOT read
# from the source: a caller may pass every argument by position, by keyword, or leave the optional ones out.
REQUIRED = object()
SIGNATURES = {
    'dimerization_irrev': [('t', REQUIRED), ('kf', REQUIRED), ('initial_C', REQUIRED), ('P0', 1), ('t0', 0)],
    'pseudo_irrev': [('t', REQUIRED), ('kf', REQUIRED), ('prod', REQUIRED), ('major', REQUIRED), ('minor', REQUIRED), ('backend', None)],
    'pseudo_rev': [('t', REQUIRED), ('kf', REQUIRED), ('kb', REQUIRED), ('prod', REQUIRED), ('major', REQUIRED), ('minor', REQUIRED),
                   ('backend', None)],
    'binary_irrev': [('t', REQUIRED), ('kf', REQUIRED), ('prod', REQUIRED), ('major', REQUIRED), ('minor', REQUIRED), ('backend', None)],
    'binary_rev': [('t', REQUIRED), ('kf', REQUIRED), ('kb', REQUIRED), ('prod', REQUIRED), ('major', REQUIRED), ('minor', REQUIRED),
                   ('backend', None)],
    'unary_irrev_cstr': [('t', REQUIRED), ('k', REQUIRED), ('r', REQUIRED), ('p', REQUIRED), ('fr', REQUIRED), ('fp', REQUIRED),
                         ('fv', REQUIRED), ('backend', None)],
    'binary_irrev_cstr': [('t', REQUIRED), ('k', REQUIRED), ('r', REQUIRED), ('p', REQUIRED), ('fr', REQUIRED), ('fp', REQUIRED),
                          ('fv', REQUIRED), ('n', 1), ('backend', None)],
}


def rate_equations(fn, y, a):
    """(right-hand sides of the documented rate equations at the current values y, initial values, time of start).
    Written from the docstrings / mechanisms, NOT from the closed forms:
      dimerization_irrev   2 A -> P                 C' = -2 kf C^2                                C(t0) = initial_C
      pseudo_irrev         A + B -> P, B in excess  P' = kf major (minor - (P - prod))            P(0) = prod
      pseudo_rev           A + B <-> P              P' = kf major (minor - (P - prod)) - kb P     P(0) = prod
      binary_irrev         A + B -> P               P' = kf (major - (P-prod)) (minor - (P-prod)) P(0) = prod
      binary_rev           A + B <-> P              P' = kf (major - (P-prod)) (minor - (P-prod)) - kb P
      unary_irrev_cstr     A -> B in a CSTR         A' = -k A + fv (fr - A);  B' = k A + fv (fp - B);   A(0)=r, B(0)=p
      binary_irrev_cstr    2 A -> n B in a CSTR     A' = fv fr - fv A - 2 k A^2;  B' = fv fp + n k A^2 - fv B
    `a` maps parameter names to numbers; every term is returned separately so that the caller can scale the tolerance."""
    if fn == 'dimerization_irrev':
        return [[-2 * a['kf'] * y[0] ** 2]], [a['initial_C']], a['t0']
    if fn == 'pseudo_irrev':
        return [[a['kf'] * a['major'] * a['minor'], -a['kf'] * a['major'] * (y[0] - a['prod'])]], [a['prod']], 0
    if fn == 'pseudo_rev':
        return [[a['kf'] * a['major'] * a['minor'], -a['kf'] * a['major'] * (y[0] - a['prod']), -a['kb'] * y[0]]], [a['prod']], 0
    if fn == 'binary_irrev':
        e = y[0] - a['prod']
        return [[a['kf'] * (a['major'] - e) * (a['minor'] - e)]], [a['prod']], 0
    if fn == 'binary_rev':
        e = y[0] - a['prod']
        return [[a['kf'] * (a['major'] - e) * (a['minor'] - e), -a['kb'] * y[0]]], [a['prod']], 0
    if fn == 'unary_irrev_cstr':
        return [[-a['k'] * y[0], a['fv'] * a['fr'], -a['fv'] * y[0]],
                [a['k'] * y[0], a['fv'] * a['fp'], -a['fv'] * y[1]]], [a['r'], a['p']], 0
    if fn == 'binary_irrev_cstr':
        return [[a['fv'] * a['fr'], -a['fv'] * y[0], -2 * a['k'] * y[0] ** 2],
                [a['fv'] * a['fp'], a['n'] * a['k'] * y[0] ** 2, -a['fv'] * y[1]]], [a['r'], a['p']], 0
    raise KeyError(fn)


def above_steady_state(a, margin=0.0):
    """binary_irrev_cstr: artanh argument -(fv + 4 k r)/sqrt(fv (fv + 8 k fr)) is <= -1, i.e. the initial
    concentration r is at or above the steady state (positive root of 2 k A^2 + fv A - fv fr)."""
    k, r, fr, fv = (Fraction(a[x]) for x in ('k', 'r', 'fr', 'fv'))
    return 2 * k * r * r + fv * r >= fv * fr * (1 - Fraction(margin))


def f2b(x):
    return struct.unpack('<Q', struct.pack('<d', float(x)))[0]


def b2f(s):
    return struct.unpack('<d', struct.pack('<Q', int(s)))[0]


class C17(Property):
    pid = 'C17'
    title = ('every closed form of chempy.kinetics.integrated satisfies the rate equation of its mechanism identically in t and the '
             'parameters, equals the stated initial concentration at t = 0, and evaluates to the same value under numpy, math and sympy')
    props_module = 'ChemModel.Props.C17'
    build_modules = ('ChemModel.Gen.FnIntegrated', 'ChemModel.Basic.Proto')
    driver = 'ChemModel/Driver/C17.lean'
    n_quick, n_thorough = 1400, 30000
    float_tol = 1e-9
    rule = ('per function: rate constants log-uniform in [0.05, 20], concentrations log-uniform in [0.01, 10] (initial product 0 in 20 % of '
            'the cases, otherwise positive), t = 0 in 15 % of the cases else log-uniform in [1e-3, 5]; major/minor at least 5 % apart for '
            'binary_irrev; exponents bounded by 60 (no overflow); binary_irrev_cstr: 25 % of the cases start above the steady state '
            '(known nan region). For every case the oracle re-evaluates with t and two other parameters as numpy scalar / 0-d / 1-d / '
            'int64 array / Python int / broadcasting column-vs-row, and all parameters as Fractions (math backend). 22 % of the cases are in the LATE/FAST regime: rate*t log-uniform in [50, 1e5], concentrations rescaled by '
            'u in [1e-8, 10] and second-order constants by 1/u. Each case is evaluated under one of numpy/math/sympy (cycled). A case is non-trivial when it is a '
            'distinct JSON value.')
    assumptions = ('Float instantiation of the generated model vs the Python float evaluation: relative tolerance 1e-9 of '
                   'max(|value|, largest concentration argument) (cancellation in 1-exp(-x) and in the quadratic-root forms)',
                   'the translator pyfn2lean.py and its reading of the Python subset',
                   'sympy (diff, N with 30 digits) for the oracle; Mathlib Real.exp/sqrt/tanh/artanh as the meaning of the backend functions',
                   'documented domain of binary_irrev: `major` is the MORE abundant reactant (minor <= major; major != minor is required by the '
                   'code, 0/0 otherwise). With major < minor the formula is still proved (binary_irrev_ode_minor_excess) and exercised for '
                   'moderate kf*(minor-major)*t, but its growing exponential overflows for kf*(minor-major)*t > 709 - outside the documented '
                   'domain, not a finding (coordinator triage); kb + kf*major != 0; positive parameters',
                   'binary_irrev_cstr is only claimed below the steady state (r < r_ss): above it the real code returns nan (known finding)')
    clauses_without_theorem = (
        'argument TYPES and input immutability: the Lean functions are pure functions of numbers; that a parameter may be a numpy '
        'array (0-d, 1-d, broadcasting), a numpy scalar, an integer or a Fraction, that the result is then element-wise the scalar '
        'result, that the caller\'s arrays are left unchanged and that a second call gives the same result is decided by the oracle '
        'only (t and two further parameters per case, every form). `x op= e` and `x = x op e` have the same pure translation; in-place '
        'updates of parameters / aliased names are flagged by the translator (`…InPlace`, @skipped of the *_sig_guard theorems).',
        '"can be evaluated with each numeric or symbolic backend they advertise and give the same values": outside the Lean model by '
        'construction - the translator maps be.f / math.f / np.f / get_backend(x).f to the same class method, so no theorem can '
        'distinguish backends. Decided by the oracle only: every function is called at every generated point with backend="numpy", '
        '"math", "sympy" (strings), the modules numpy, math, sympy, backend=None and with the argument omitted; all must return and '
        'agree to 1e-9. How the source obtains and uses the backend is pinned textually by the *_sig_guard theorems (@backend entry).',
        'get_backend fallback: with numpy not importable, backend=None / omitted must use the math module and give the math value '
        '(oracle, by hiding numpy in sys.modules for the call); no theorem (configuration of the interpreter)',
        'defaults n=1 (binary_irrev_cstr), t0=0 and the unused P0=1 (dimerization_irrev): passed explicitly in the theorems; their '
        'default values are pinned by the *_sig_guard theorems and exercised by the oracle only',
        'binary_irrev_cstr above the steady state (2*k*r**2 + fv*r >= fv*fr): nothing positive can be proved about the CODE there (known '
        'finding: nan / ValueError; Lean\'s artanh is total). The SPECIFICATION of the missing branch is now a theorem family '
        '(binary_irrev_cstr_above_ode_reactant/_product/_init over the hand-written coth form binaryIrrevCstrAbove); that the sympy backend '
        'evaluates this branch is checked numerically by the oracle only',
        'binary_irrev with major == minor: excluded (0/0 in the source for every t); the limit major -> minor is not stated',
        'uniqueness (the closed form is THE solution): now theorems for all seven closed forms on their documented domain (global for the '
        'linear ones, on every interval [start, T] for the quadratic ones; both components for the two stirred tanks); NOT stated for '
        'binary_irrev with major < minor and not for the coth specification above the steady state',
        'finiteness of the FLOAT evaluation (overflow of a growing exponential, inf/inf, inf*0): invisible to the theorems, which are about '
        'real numbers - an algebraically identical rewrite with exp(+kf*t*(major-minor)) keeps every theorem provable but returns nan / '
        'raises OverflowError for kf*(major-minor)*t > 709. The exponent SIGNS are now theorems (`*_exp_args_nonpos`); the float behaviour itself is decided by the oracle only (late/fast regime: rate*t up to 1e5, every backend '
        'must return a finite value equal to the 100-digit reference; binary_irrev_cstr up to fv*t ~ 1e4 must sit on the steady '
        'state). binary_irrev is exercised there with major >= minor only (documented domain: `major` is the more abundant reactant)',
        'Float evaluation vs the real-number closed form (rounding): correspondence with tolerance only; the rate equation and the '
        'initial value are checked on the sympy-backend expression (100 digits) and numpy / math are tied to it with 1e-9*max(|value|, '
        'concentration scale): a defect of a NUMERIC backend confined to a transient smaller than that (late regime) is invisible',
        'no growing exponential (float overflow): now a theorem family `*_exp_args_nonpos` on the documented domain; that exp of a '
        'non-positive double does not overflow is IEEE/libm, outside',
    )
    anchors = (('chempy/kinetics/integrated.py', None), ('chempy/_util.py', 'get_backend'))

    def __init__(self):
        self._sym = {}

    # ---- generation --------------------------------------------------------------------------------
    def generate(self, rng, n, tier):
        cases = []
        fns = list(FUNCS)

        def lu(lo, hi):
            return float('%.6g' % math.exp(rng.uniform(math.log(lo), math.log(hi))))

        i = 0
        while len(cases) < n:
            fn = fns[i % len(fns)]
            be = BACKENDS[(i // len(fns)) % 3]
            i += 1
            t = 0.0 if rng.random() < 0.15 else lu(1e-3, 5)
            prod = 0.0 if rng.random() < 0.2 else lu(0.01, 10)
            a = {}
            if fn == 'dimerization_irrev':
                t0 = 0.0 if rng.random() < 0.5 else lu(0.01, 2)
                a = {'kf': lu(0.05, 20), 'initial_C': lu(0.01, 10), 't0': t0, 'P0': lu(0.1, 5)}    # P0: documented, unused
                t = t0 + t
                if rng.random() < 0.3:
                    # exact variant, driven with Fractions
                    q = {k: Fraction(rng.randint(1, 400), rng.randint(1, 60)) for k in a if k != 'P0'}
                    q['t0'] = Fraction(rng.randint(0, 50), rng.randint(1, 20))
                    tq = q['t0'] + Fraction(rng.randint(0, 300), rng.randint(1, 40))
                    cases.append({'fn': fn, 'exact': True, 'backend': 'fractions', 't': rat_json(tq),
                                  'args': {k: rat_json(v) for k, v in q.items()}})
                    continue
            elif fn in ('pseudo_irrev', 'binary_irrev'):
                major, minor = lu(0.01, 10), lu(0.01, 10)
                if rng.random() < 0.7:          # 30 %: the reactant called `minor` is the more abundant one (formula still valid)
                    major, minor = max(major, minor), min(major, minor)
                if fn == 'binary_irrev' and abs(major - minor) < 0.05 * max(major, minor):
                    major = float('%.6g' % (major * 1.3))
                a = {'kf': lu(0.05, 20), 'prod': prod, 'major': major, 'minor': minor}
                if fn == 'binary_irrev' and a['kf'] * abs(major - minor) * t > 60:
                    t = float('%.6g' % (60 / (a['kf'] * abs(major - minor))))
            elif fn in ('pseudo_rev', 'binary_rev'):
                major, minor = lu(0.01, 10), lu(0.01, 10)
                if rng.random() < 0.7:
                    major, minor = max(major, minor), min(major, minor)
                a = {'kf': lu(0.05, 20), 'kb': lu(0.05, 20), 'prod': prod, 'major': major, 'minor': minor}
            elif fn == 'unary_irrev_cstr':
                a = {'k': lu(0.05, 20), 'r': lu(0.01, 10), 'p': prod, 'fr': lu(0.01, 10), 'fp': lu(0.01, 10), 'fv': lu(0.05, 10)}
            elif fn == 'binary_irrev_cstr':
                a = {'k': lu(0.05, 20), 'r': 0.0, 'p': prod, 'fr': lu(0.01, 10), 'fp': lu(0.01, 10), 'fv': lu(0.05, 10),
                     'n': float(rng.choice([1, 1, 2, 3]))}
                rss = (-a['fv'] + math.sqrt(a['fv'] ** 2 + 8 * a['k'] * a['fv'] * a['fr'])) / (4 * a['k'])
                if rng.random() < 0.25:
                    a['r'] = float('%.6g' % (rss * rng.uniform(1.01, 5)))
                else:
                    a['r'] = float('%.6g' % (rss * rng.uniform(0.0, 0.98)))
            case = {'fn': fn, 'backend': be, 't': t, 'args': a}
            if rng.random() < 0.22:
                self._make_late(rng, case)
            cases.append(case)
        return cases

    CONC = ('prod', 'major', 'minor', 'initial_C', 'r', 'p', 'fr', 'fp')

    def _make_late(self, rng, case):
        """LATE / FAST regime: the dimensionless time theta = (characteristic rate) * t is log-uniform in [50, 1e5] (long after
        completion), and concentrations are rescaled by u in [1e-8, 10] with the second-order constants divided by u (so that
        e.g. kf = 1e10, concentrations 1e-7 occur).  The closed forms must stay finite under every backend there.
        binary_irrev keeps major >= minor there: the docstring defines `major` as the MORE abundant reactant (documented domain;
        with major < minor the exponential grows and overflows).  binary_irrev_cstr is covered up to fv*t ~ 1e4 and beyond since
        the repair b386ccb (the product no longer forms exp(fv*t))."""
        fn, a = case['fn'], case['args']
        g6 = lambda x: float('%.6g' % x)
        u = 10 ** rng.uniform(-8, 1)
        for k_ in self.CONC:
            if k_ in a:
                a[k_] = g6(a[k_] * u)
        second = 'k' if fn == 'binary_irrev_cstr' else 'kf'
        if second in a:
            a[second] = g6(a[second] / u)
        if fn == 'binary_irrev' and a['major'] < a['minor']:
            a['major'], a['minor'] = a['minor'], a['major']
        theta = math.exp(rng.uniform(math.log(50), math.log(1e5)))
        rate = {
            'dimerization_irrev': lambda: a['kf'] * a['initial_C'],
            'pseudo_irrev': lambda: a['kf'] * a['major'],
            'pseudo_rev': lambda: a['kb'] + a['kf'] * a['major'],
            'binary_irrev': lambda: a['kf'] * (a['major'] - a['minor']),
            'binary_rev': lambda: a['kb'] + a['kf'] * (a['major'] + a['minor']),
            'unary_irrev_cstr': lambda: a['fv'] + a['k'],
            'binary_irrev_cstr': lambda: math.sqrt(a['fv'] * (a['fv'] + 8 * a['k'] * a['fr'])) / 2,
        }[fn]()
        t = theta / rate
        if fn == 'binary_irrev_cstr' and rng.random() < 0.5:
            t = max(t, rng.uniform(50, 1e4) / a['fv'])       # fv*t up to 1e4 (exp(fv*t) would overflow beyond 709)
        case['t'] = g6(a.get('t0', 0.0) + t)
        case['late'] = True

    # ---- model side ----------------------------------------------------------------------------------
    def model_case(self, c):
        fn = c['fn']
        names, _ = FUNCS[fn]
        if c.get('exact'):
            return {'op': fn + '_rat', 'a': [c['t']] + [c['args'][k] for k in names], 'fn': fn, 'backend': 'fractions'}
        return {'op': fn, 'a': [f2b(c['t'])] + [f2b(c['args'][k]) for k in names], 'fn': fn, 'backend': c['backend'],
                't': c['t'], 'args': c['args']}

    # ---- real code -------------------------------------------------------------------------------------
    def _call(self, fn, backend, t, a):
        """evaluate the real function; returns a list of floats (nan for a value outside the reals)"""
        from chempy.kinetics import integrated as I
        import numpy as np
        f = getattr(I, fn)
        names, nres = FUNCS[fn]
        vals = [a[k] for k in names]
        if backend == 'sympy':
            import mpmath
            _, _, _, F = self._symbolic(fn)
            with mpmath.workdps(40):
                res = F(*[mpmath.mpf(x) for x in [t] + vals])[:nres]
                out = []
                for v in res:
                    v = mpmath.mpmathify(v)
                    if not mpmath.isfinite(v):
                        out.append(float('nan'))
                    elif abs(mpmath.im(v)) <= mpmath.mpf('1e-30') * max(1, abs(mpmath.re(v))):
                        out.append(float(mpmath.re(v)))
                    else:
                        out.append(float('nan'))
            return out
        # forms of the `backend` argument: 'numpy' / 'math' / 'str:sympy' = the STRING (get_backend imports it),
        # 'mod:numpy' / 'mod:math' / 'mod:sympy' = the module object, 'None' = backend=None (numpy), 'default' = argument omitted
        if backend in ('numpy', 'math'):
            bk = backend
        elif backend.startswith('str:'):
            bk = backend[4:]
        elif backend.startswith('mod:'):
            bk = __import__(backend[4:])
        elif backend == 'None':
            bk = None
        elif backend == 'default':
            bk = 'default'
        else:
            raise ValueError('unknown backend form %r' % backend)
        kw = {} if (fn == 'dimerization_irrev' or bk == 'default') else {'backend': bk}
        if fn == 'dimerization_irrev':
            r = f(t, a['kf'], a['initial_C'], t0=a['t0'])
        else:
            try:
                with np.errstate(all='ignore'):
                    r = f(t, *vals, **kw)
            except ValueError as e:
                if 'math domain error' in str(e):       # math.atanh / math.sqrt outside their domain: numpy gives nan
                    return [float('nan')] * nres
                raise
        r = list(r) if nres > 1 else [r]
        out = []
        for x in r:
            try:
                out.append(float(x))
            except TypeError:              # sympy number with an imaginary part (atanh outside (-1, 1))
                out.append(float('nan'))
        return out

    def _symbolic(self, fn):
        """(expressions, d/dt expressions, symbols, F) of the sympy backend with all parameters symbolic; cached.
        F(t, *params) evaluates [expressions..., derivatives...] with mpmath at the working precision."""
        if fn not in self._sym:
            import sympy
            from chempy.kinetics import integrated as I
            names, nres = FUNCS[fn]
            syms = sympy.symbols(['t'] + names, positive=True)
            if fn == 'dimerization_irrev':
                e = I.dimerization_irrev(syms[0], syms[1], syms[2], t0=syms[3])
            else:
                e = getattr(I, fn)(*syms, backend=sympy)
            e = list(e) if nres > 1 else [e]
            d = [x.diff(syms[0]) for x in e]
            self._sym[fn] = (e, d, syms, sympy.lambdify(syms, e + d, modules='mpmath'))
        return self._sym[fn]

    def impl(self, mc):
        fn = mc['fn']
        try:
            if mc['backend'] == 'fractions':
                from chempy.kinetics import integrated as I
                q = [Fraction(*v) if isinstance(v, list) else Fraction(v) for v in mc['a']]
                try:
                    return show_rat(I.dimerization_irrev(q[0], q[1], q[2], t0=q[3]))
                except ZeroDivisionError:
                    return 'ZeroDivisionError'
            return self._call(fn, mc['backend'], mc['t'], mc['args'])
        except Exception as e:
            return exc_name(e)

    def _scale(self, a):
        return max([abs(float(v)) for k, v in a.items() if k in ('prod', 'major', 'minor', 'initial_C', 'r', 'p', 'fr', 'fp')] + [0.0])

    def same(self, mc, io, mo):
        if mc['backend'] == 'fractions':
            return io == mo
        if not isinstance(io, list):
            return False
        try:
            m = [b2f(x) for x in mo.split()]
        except Exception:
            return False
        if len(m) != len(io):
            return False
        if (mc['fn'] == 'binary_irrev_cstr' and all(math.isnan(x) for x in m) and above_steady_state(mc['args'], 1e-9)
                and mc['backend'] == 'sympy'):
            # known nan region: real artanh (the model, numpy, math) is undefined; sympy evaluates the complex
            # continuation, which the model does not describe (recorded as part of the known finding, see oracle)
            return True
        at = self.float_tol * self._scale(mc['args'])
        return all(close(x, y, self.float_tol, at) for x, y in zip(io, m))

    # ---- the property on the real code ---------------------------------------------------------------------
    def oracle(self, c):
        fn = c['fn']
        names, nres = FUNCS[fn]
        if c.get('exact'):
            return self._oracle_exact(c)
        t, a = c['t'], c['args']
        scale = self._scale(a)
        # (1) every advertised backend can be called and gives the same value
        vals = {}
        forms = BACKENDS if fn == 'dimerization_irrev' else ALL_FORMS
        for be in forms:
            try:
                vals[be] = self._call(fn, be, t, a)
            except Exception as e:
                return '%s(t=%r, %r, backend=%s) raised %s: %s' % (fn, t, a, be, exc_name(e), str(e)[:80])
        if fn == 'binary_irrev_cstr' and above_steady_state(a, 1e-9) and not all(math.isfinite(x) for v in vals.values() for x in v):
            # KNOWN region (initial concentration above the steady state).  The known defect is exactly: every NUMERIC backend
            # form yields nan (numpy) / ValueError "math domain error" (math, mapped to nan by _call).  Anything else there
            # (inf, a finite value under one numeric backend only, another exception) is NOT the known finding.
            numeric = [be for be in forms if 'sympy' not in be]
            if not all(math.isnan(x) for be in numeric for x in vals[be]):
                return ('binary_irrev_cstr(t=%r, %r) above the steady state: numeric backends give %r; the recorded defect is nan / '
                        'ValueError under every numeric backend' % (t, a, {be: vals[be] for be in numeric}))
            # the symbolic backend evaluates the analytic continuation (the coth branch): it must be real and must still be the
            # solution (rate equations + initial values) -- checked instead of stopping at numpy's nan
            if not all(math.isfinite(x) for x in vals['sympy']):
                return 'binary_irrev_cstr(t=%r, %r, backend=sympy) above the steady state is not a real number: %r' % (t, a, vals['sympy'])
            f = self._ode_init(fn, t, a, scale, names, nres, numeric=False, what=' [sympy backend, above the steady state]')
            if f is not None:
                return f
            return '%s(t=%r, %r, backend=numpy) is not a finite real number: %r' % (fn, t, a, vals['numpy'])
        for be in forms:
            if any(math.isnan(x) or math.isinf(x) for x in vals[be]):
                return '%s(t=%r, %r, backend=%s) is not a finite real number: %r' % (fn, t, a, be, vals[be])
        for be in forms[1:]:
            for x, y in zip(vals['numpy'], vals[be]):
                if not close(x, y, 1e-9, 1e-9 * scale):
                    return '%s(t=%r, %r): backend numpy gives %r, backend %s gives %r' % (fn, t, a, vals['numpy'], be, vals[be])
        # (1c) late regime of the stirred tank: the transient has died out, the closed form must sit on the steady state
        #      A_ss = positive root of 2 k A^2 + fv A - fv fr,  B_ss = fp + n k A_ss^2 / fv   (computed here with 60 digits)
        if fn == 'binary_irrev_cstr' and c.get('late') and not above_steady_state(a, 1e-9):
            import mpmath
            with mpmath.workdps(60):
                k_, r_, fr_, fp_, fv_, n_ = (mpmath.mpf(a[x]) for x in ('k', 'r', 'fr', 'fp', 'fv', 'n'))
                half = mpmath.sqrt(fv_ * (fv_ + 8 * k_ * fr_)) / 2
                ass = (-fv_ + 2 * half) / (4 * k_)
                x7 = mpmath.atanh(-(fv_ + 4 * k_ * r_) / (2 * half))
                if fv_ * t > 60 and half * t - abs(x7) > 60:
                    want = [float(ass), float(fp_ + n_ * k_ * ass ** 2 / fv_)]
                    for be in forms:
                        if not all(close(x, y, 1e-9, 1e-9 * scale) for x, y in zip(vals[be], want)):
                            return ('binary_irrev_cstr(t=%r, %r, backend=%s) = %r long after the transient (fv*t = %.3g), steady state is %r'
                                    % (t, a, be, vals[be], float(fv_ * t), want))
        # (1e) configuration without numpy: `backend=None` / omitted then falls back to the math module (get_backend, ImportError
        #      branch) and must give the value of backend='math'
        if fn != 'dimerization_irrev':
            f = self._without_numpy(fn, t, a, vals['math'], scale)
            if f is not None:
                return f
        # (1d) argument TYPES and input immutability (numpy arrays of every shape, numpy scalars, int dtype, Fractions)
        f = self._argument_types(fn, c, t, a, scale)
        if f is not None:
            return f
        # (1a) calling conventions: optional arguments by position / by keyword / omitted, in the DOCUMENTED order
        f = self._conventions(fn, c, t, a, scale)
        if f is not None:
            return f
        # (1b) the defaults of the signature: n=1 (binary_irrev_cstr), t0=0 (dimerization_irrev) mean what the theorems pass explicitly
        from chempy.kinetics import integrated as I
        import numpy as np
        with np.errstate(all='ignore'):
            if fn == 'binary_irrev_cstr' and a['n'] == 1.0:
                d = [float(x) for x in I.binary_irrev_cstr(t, *[a[k] for k in names[:-1]])]
                if not all(close(x, y, 1e-12, 1e-12 * scale) for x, y in zip(d, vals['numpy'])):
                    return 'binary_irrev_cstr(t=%r, %r) with n omitted gives %r, with n=1 %r' % (t, a, d, vals['numpy'])
            if fn == 'dimerization_irrev' and a['t0'] == 0.0:
                d = float(I.dimerization_irrev(t, a['kf'], a['initial_C']))
                if not close(d, vals['numpy'][0], 1e-12, 1e-12 * scale):
                    return 'dimerization_irrev(t=%r, %r) with t0 omitted gives %r, with t0=0 %r' % (t, a, d, vals['numpy'][0])
        return self._ode_init(fn, t, a, scale, names, nres)

    def _ode_init(self, fn, t, a, scale, names, nres, numeric=True, what=''):
        # (2) value at the start = stated initial concentration   (3) rate equation: the sympy-backend expression is
        # differentiated symbolically (sympy.diff) and both sides are evaluated with 100 digits at the generated point
        # (tolerance 1e-30 relative to the sum of the magnitudes of the terms + 1e-80 absolute: factors such as
        # `minor - y` cancel to 1e-20 and less for large t)
        import mpmath
        F = self._symbolic(fn)[3]
        with mpmath.workdps(100):
            am = {k: mpmath.mpf(v) for k, v in a.items()}
            _, init, tstart = rate_equations(fn, [mpmath.mpf(0)] * nres, am)
            v0 = F(tstart, *[am[k] for k in names])[:nres]
            for i in range(nres):
                if not (abs(v0[i] - init[i]) <= mpmath.mpf('1e-60') * max(scale, 1e-30)):
                    return '%s at the start (t=%s, %r)%s is %s, stated initial concentration is %s' % (
                        fn, tstart, a, what, mpmath.nstr(v0[i], 17), float(init[i]))
                f0 = self._call(fn, 'numpy', float(tstart), a)[i] if numeric else float(init[i])
                if not close(f0, float(init[i]), 1e-12, 1e-12 * scale):
                    return '%s at the start (t=%s, %r, numpy) is %r, stated initial concentration is %r' % (fn, tstart, a, f0, float(init[i]))
            r = F(mpmath.mpf(t), *[am[k] for k in names])
            y, dy = r[:nres], r[nres:]
            rhs, _, _ = rate_equations(fn, y, am)
            for i in range(nres):
                tot = sum(rhs[i])
                mag = sum(abs(x) for x in rhs[i]) + abs(dy[i])
                if not (abs(dy[i] - tot) <= mpmath.mpf('1e-30') * mag + mpmath.mpf('1e-80')):
                    return ('%s(t=%r, %r)%s: component %d has d/dt = %s but the rate equation gives %s'
                            % (fn, t, a, what, i, mpmath.nstr(dy[i], 15), mpmath.nstr(tot, 15)))
        return None

    def _conventions(self, fn, c, t, a, scale):
        """every way of passing the arguments that the documented signature allows must mean the same call.
        Reference: ALL arguments by keyword with the documented names.  Compared with: all arguments by position in the
        documented order; required by position + optional by keyword; and, for every k, the first k optional arguments by
        position with the rest omitted (expected: the keyword call with the DOCUMENTED defaults for the omitted ones)."""
        from chempy.kinetics import integrated as I
        import numpy as np
        func = getattr(I, fn)
        sig = SIGNATURES[fn]
        given = dict(a)
        given['t'] = t
        if 'backend' in dict(sig):
            given['backend'] = c['backend'] if c.get('backend') in ('numpy', 'math') else None
        if fn == 'dimerization_irrev':
            given.setdefault('P0', 1.0)
        req = [n_ for n_, d in sig if d is REQUIRED]
        opt = [(n_, d) for n_, d in sig if d is not REQUIRED]
        nres = FUNCS[fn][1]

        def run(args, kwargs):
            with np.errstate(all='ignore'):
                r = func(*args, **kwargs)
            r = list(r) if nres > 1 else [r]
            return [float(x) for x in r]

        def show(args, kwargs):
            return '%s(%s)' % (fn, ', '.join([repr(x) for x in args] + ['%s=%r' % kv for kv in kwargs.items()]))

        def same(x, y):
            return len(x) == len(y) and all(close(u, v, 1e-12, 1e-12 * scale) for u, v in zip(x, y))
        forms = []      # (args, kwargs, expected-kwargs)
        allkw = {n_: given[n_] for n_, _ in sig}
        forms.append(([given[n_] for n_, _ in sig], {}, allkw))
        forms.append(([given[n_] for n_ in req], {n_: given[n_] for n_, _ in opt}, allkw))
        for k in range(len(opt) + 1):
            exp = {n_: given[n_] for n_ in req}
            exp.update({n_: given[n_] for n_, _ in opt[:k]})
            exp.update({n_: d for n_, d in opt[k:]})          # documented defaults
            forms.append(([given[n_] for n_ in req] + [given[n_] for n_, _ in opt[:k]], {}, exp))
        for args, kwargs, exp in forms:
            try:
                want = run([], exp)
            except ValueError as e:
                if 'math domain error' in str(e):
                    continue
                return '%s raised %s: %s' % (show([], exp), exc_name(e), str(e)[:80])
            except Exception as e:
                return '%s raised %s: %s' % (show([], exp), exc_name(e), str(e)[:80])
            try:
                got = run(args, kwargs)
            except Exception as e:
                return '%s raised %s: %s (the keyword form returns %r)' % (show(args, kwargs), exc_name(e), str(e)[:80], want)
            if any(math.isnan(x) for x in want) and any(math.isnan(x) for x in got):
                continue
            if not same(got, want):
                return ('%s = %r differs from %s = %r: the documented signature is %s(%s)'
                        % (show(args, kwargs), got, show([], exp), want, fn,
                           ', '.join(n_ if d is REQUIRED else '%s=%r' % (n_, d) for n_, d in sig)))
        return None

    def _without_numpy(self, fn, t, a, want, scale):
        import sys
        import math as _math
        from chempy import _util
        from chempy.kinetics import integrated as I
        names, nres = FUNCS[fn]
        vals = [a[k] for k in names]
        saved = sys.modules.get('numpy', _util)          # _util used as "absent" marker
        sys.modules['numpy'] = None                        # `import numpy` now raises ImportError
        try:
            be = _util.get_backend(None)
            if be is not _math:
                return 'get_backend(None) without an importable numpy returns %r, documented fallback is the math module' % (be,)
            out = []
            for kw in ({'backend': None}, {}):
                try:
                    r = getattr(I, fn)(t, *vals, **kw)
                except Exception as e:
                    return '%s(t=%r, %r%s) without an importable numpy raised %s: %s' % (
                        fn, t, a, ', backend=None' if kw else '', exc_name(e), str(e)[:80])
                r = list(r) if nres > 1 else [r]
                out.append([float(x) for x in r])
        finally:
            if saved is _util:
                del sys.modules['numpy']
            else:
                sys.modules['numpy'] = saved
        for r in out:
            if not all(close(x, y, 1e-12, 1e-12 * scale) for x, y in zip(r, want)):
                return '%s(t=%r, %r) without an importable numpy (math fallback) gives %r, backend="math" gives %r' % (fn, t, a, r, want)
        return None

    def _argument_types(self, fn, c, t, a, scale):
        """Every parameter (not only t) may be a numpy array (0-d, 1-d, broadcasting 2-d), a numpy scalar, an integer (dtype) or a
        Fraction: the result must be, element by element, the result of the call with plain Python floats; the caller's arrays must
        be unchanged bit for bit afterwards and a second call on the same arrays must give the same result.
        Per case: t and two further parameters (chosen from the case content), all forms."""
        import json, random
        import numpy as np
        from chempy.kinetics import integrated as I
        func = getattr(I, fn)
        nres = FUNCS[fn][1]
        names = [n_ for n_, _ in SIGNATURES[fn] if n_ != 'backend']
        base = {n_: float(a.get(n_, 1.0)) for n_ in names if n_ != 't'}
        base['t'] = float(t)
        rnd = random.Random(json.dumps([fn, t, sorted(a.items())], default=str))
        others = [n_ for n_ in names if n_ != 't']
        chosen = ['t'] + rnd.sample(others, min(2, len(others)))

        def call(kw):
            with np.errstate(all='ignore'):
                r = func(**kw)
            return list(r) if nres > 1 else [r]

        def scalar(**over):
            kw = dict(base)
            kw.update({k_: float(v) for k_, v in over.items()})
            try:
                return [float(x) for x in call(kw)]
            except ZeroDivisionError:
                return None

        def show(kw):
            return '%s(%s)' % (fn, ', '.join('%s=%r' % (k_, (v.tolist() if isinstance(v, np.ndarray) else v)) for k_, v in kw.items()))

        def run(kw, expect, what):
            """expect: function index-tuple -> scalar reference (list over results) or None"""
            arrays = {k_: v for k_, v in kw.items() if isinstance(v, np.ndarray)}
            before = {k_: (v.dtype, v.shape, v.tobytes()) for k_, v in arrays.items()}
            try:
                r1 = call(kw)
            except Exception as e:
                return '%s [%s] raised %s: %s' % (show(kw), what, exc_name(e), str(e)[:100])
            for k_, v in arrays.items():
                if (v.dtype, v.shape, v.tobytes()) != before[k_]:
                    return '%s [%s] MODIFIED the caller\'s array %s: now %r' % (show({**kw, k_: np.frombuffer(before[k_][2], dtype=before[k_][0]).reshape(before[k_][1])}), what, k_, v.tolist())
            try:
                r2 = call(kw)
            except Exception as e:
                return '%s [%s] second call raised %s' % (show(kw), what, exc_name(e))
            for x1, x2 in zip(r1, r2):
                if np.asarray(x1, dtype=float).tobytes() != np.asarray(x2, dtype=float).tobytes():
                    return '%s [%s]: second call on the same arguments gives %r, first gave %r' % (show(kw), what, np.asarray(x2).tolist(), np.asarray(x1).tolist())
            shape = np.broadcast(*[np.asarray(v) for v in kw.values()]).shape
            for i, x in enumerate(r1):
                x = np.asarray(x, dtype=float)
                if x.shape != shape:
                    if x.shape == () and shape == ():
                        pass
                    else:
                        try:
                            x = np.broadcast_to(x, shape)
                        except ValueError:
                            return '%s [%s]: result %d has shape %r, arguments broadcast to %r' % (show(kw), what, i, x.shape, shape)
                for idx in np.ndindex(*shape):
                    ref = expect(idx)
                    if ref is None:
                        continue
                    got = float(x[idx])
                    # same tolerance as the correspondence (the array and the scalar code paths of numpy differ in the last bit,
                    # e.g. `x ** 2`; the quadratic-root forms amplify that); the scale includes substituted values (ints 1, 2, 3)
                    sc = max([scale] + [float(np.max(np.abs(np.asarray(v, dtype=float)))) for k_, v in kw.items()
                                        if k_ in self.CONC and not isinstance(v, float)])
                    if not close(got, ref[i], 1e-9, 1e-9 * sc):
                        return ('%s [%s]: element %r of result %d is %r, the call with plain floats gives %r'
                                % (show(kw), what, idx, i, got, ref[i]))
            return None

        for q in chosen:
            v = base[q]
            vec = [v, v * 0.5, v * 0.75]
            refs = [scalar(**{q: x}) for x in vec]
            for form, val, exp in (
                ('numpy scalar', np.float64(v), lambda idx: refs[0]),
                ('0-d array', np.array(v), lambda idx: refs[0]),
                ('1-d array', np.array(vec), lambda idx: refs[idx[0]]),
            ):
                kw = dict(base)
                kw[q] = val
                f = run(kw, exp, '%s as %s' % (q, form))
                if f is not None:
                    return f
            ints = [1, 2, 3]
            irefs = [scalar(**{q: x}) for x in ints]
            kw = dict(base)
            kw[q] = np.array(ints)
            f = run(kw, lambda idx: irefs[idx[0]], '%s as int64 array' % q)
            if f is not None:
                return f
            kw = dict(base)
            kw[q] = 2
            f = run(kw, lambda idx: irefs[1], '%s as Python int' % q)
            if f is not None:
                return f
            # broadcasting: a column of times against a row of parameter values (or, for q = t, against another parameter)
            p2 = q if q != 't' else chosen[1]
            v2 = base[p2]
            row = [v2, v2 * 0.5]
            col = [base['t'], base['t'] * 0.5, base['t'] * 1.5]
            grid = {(i, j): scalar(**{'t': col[i], p2: row[j]}) for i in range(3) for j in range(2)}
            kw = dict(base)
            kw['t'] = np.array(col)[:, None]
            kw[p2] = np.array(row)
            f = run(kw, lambda idx: grid[idx], 't as column (3,1) against %s as row (2,)' % p2)
            if f is not None:
                return f
        # Fractions: exact rationals are accepted by the math backend (and by dimerization_irrev, which has no backend)
        from fractions import Fraction as Fr
        kw = {k_: Fr(v) for k_, v in base.items()}
        if fn != 'dimerization_irrev':
            kw['backend'] = 'math'
        ref = scalar()
        try:
            r = [float(x) for x in call(kw)]
        except ZeroDivisionError:
            r = None
        except ValueError as e:
            r = None if 'math domain error' in str(e) else 'raised ValueError: %s' % e
        except OverflowError:
            r = None
        except Exception as e:
            r = 'raised %s: %s' % (exc_name(e), str(e)[:80])
        if isinstance(r, str):
            return '%s with Fraction arguments (backend math) %s' % (fn, r)
        if r is not None and ref is not None and not all(close(x, y, 1e-9, 1e-9 * scale) for x, y in zip(r, ref)):
            return '%s with Fraction arguments %r gives %r, with floats %r' % (fn, {k_: str(v) for k_, v in kw.items()}, r, ref)
        return None

    def _oracle_exact(self, c):
        from chempy.kinetics import integrated as I
        q = {k: Fraction(*v) if isinstance(v, list) else Fraction(v) for k, v in c['args'].items()}
        t = Fraction(*c['t']) if isinstance(c['t'], list) else Fraction(c['t'])
        f = lambda tt: I.dimerization_irrev(tt, q['kf'], q['initial_C'], t0=q['t0'])
        if f(q['t0']) != q['initial_C']:
            return 'dimerization_irrev(t0) = %s, initial concentration %s' % (f(q['t0']), q['initial_C'])
        # C' = -2 kf C^2  <=>  d(1/C)/dt = 2 kf : 1/C is affine in t with slope 2 kf (exact with Fractions)
        h = Fraction(1, 7)
        if 1 / f(t + h) - 1 / f(t) != 2 * q['kf'] * h:
            return 'dimerization_irrev: 1/C is not affine in t with slope 2 kf at t=%s' % t
        return None

    def known_key(self, c, failure):
        if (c.get('fn') == 'binary_irrev_cstr' and not c.get('exact') and isinstance(failure, str)
                and ('not a finite real number' in failure) and above_steady_state(c['args'], 1e-9)):
            return KNOWN_NAN
        return None

    def classify(self, c):
        s = '%s:%s' % (c['fn'], c['backend'])
        if c['fn'] == 'binary_irrev_cstr' and not c.get('exact'):
            s += ':above-ss' if above_steady_state(c['args']) else ':below-ss'
        if not c.get('exact'):
            if c.get('late'):
                s += ':late'
            if c['t'] == (c['args'].get('t0', 0.0)):
                s += ':t=start'
            if c['args'].get('prod', c['args'].get('p', 1)) == 0:
                s += ':prod=0'
        return s


PROPERTY = C17()
