"""C14 — molar mass is the composition-weighted sum of standard atomic weights"""
from fractions import Fraction
import random
import warnings
from lib.framework import Property
from . import formula_gen as fg
from .util import *


def _rand_case(rng, s):
    return ''.join(c.upper() if rng.random() < 0.5 else c.lower() for c in s)


# names on which Python's str.capitalize()/str.lower() leave ASCII ('ſ'.capitalize() == 'S', 'ﬂ'.capitalize() == 'Fl',
# 'ı'.capitalize() == 'I'): the real atomic_number answers 16 / 114 / 53 for them, the model is ASCII-only.
NON_ASCII_NAMES = ['ſ', 'ﬂ', 'ı', 'ﬁ', 'ß', 'İ', 'K', 'Ｈ', 'ǆ', 'ſe', 'oſ', 'hydrogén', 'Ｈe', 'µ', 'ſulfur', 'ﬂerovium']

DEFAULT_PHASES = ['(s)', '(l)', '(g)']
PHASE_SETS = [DEFAULT_PHASES, DEFAULT_PHASES, DEFAULT_PHASES, ['(aq)'], ['(g)'], [], ['(s)', '(aq)'], ['(l)', '(g)', '(s)']]
MUT_ALPHABET = "()[]{}+-./@*'0123456789abcdeglqrsuXYZHOCN·"


def _el(z, cnt=None):
    return {'t': 'el', 'z': z, 'cnt': cnt, 'state': '', 'marks': ''}


def _single(terms, suffix='', charge=None):
    return {'prefixes': [], 'sep': '..', 'parts': [{'n': None, 'terms': terms}], 'charge': charge, 'suffix': suffix}


def _mutate(rng, s):
    r = rng.random()
    i = rng.randrange(len(s)) if s else 0
    if r < 0.3 and s:
        return s[:i] + s[i + 1:]
    if r < 0.5 and s:
        return s[:i] + s[i] + s[i:]
    if r < 0.65 and len(s) > 1:
        i = rng.randrange(len(s) - 1)
        return s[:i] + s[i + 1] + s[i] + s[i + 2:]
    return s[:i] + rng.choice(MUT_ALPHABET) + s[i:]


class C14(Property):
    pid = 'C14'
    title = ('mass = sum(count * standard atomic weight) - charge * electron mass; table = IUPAC; '
             'case-insensitive symbol/name lookup inverse to the table; mass fractions positive, proportional, sum to one')
    props_module = 'ChemModel.Props.C14'
    build_modules = ('ChemModel.Model.Periodic', 'ChemModel.Model.Formula', 'ChemModel.Driver.FormulaJson', 'ChemModel.Basic.Proto')
    driver = 'ChemModel/Driver/C14.lean'
    n_quick, n_thorough = 2000, 30000
    float_tol = 1e-12
    rule = ('formula ASTs from tools/harness/formula_gen.py (all 118 elements, nested groups, hydrates, decimals, charges, prefixes, phase '
            'suffixes) rendered and passed as TEXT to Substance.from_formula / Species.from_formula (several `phases`) / Solute.from_formula '
            'and to the model parser; every symbol x every phase suffix (the class of formulas whose last symbol ends in a letter of the suffix) '
            'through all three constructors; a malformed-formula stream; raw composition dicts incl. keys past the table; every symbol and name '
            'in random letter case plus near-miss strings; non-ASCII names (oracle skips them explicitly); mixtures for mass_fractions incl. the '
            'empty mixture and zero totals. A case is non-trivial when it is a distinct JSON value.')
    assumptions = ('reference table embedded in Props/C14.lean and tools/harness/ref_iupac.json is the specification: IUPAC standard atomic '
                   'weights (abridged/conventional values) for the 84 elements that have one, a pin of chempy\'s mass numbers for the other 34 '
                   '(not an IUPAC claim); transcribed offline, identical to the repository table today (see notes/C14.md)',
                   'float rounding of the Python sum is not modelled: exact model vs float within 1e-12 relative',
                   'ASCII names only: str.capitalize / str.lower on non-ASCII input (atomic_number("ſ") == 16 in the real code) is '
                   'outside the model; such names are generated but skipped by model and oracle',
                   'the formula parser model and its round-trip theorem are those of C01 (pyparsing semantics assumed there)',
                   'negative composition keys (Python wraps around the table) are outside the model')
    anchors = (('chempy/util/periodic.py', 'atomic_number'),
               ('chempy/util/periodic.py', 'mass_from_composition'),
               ('chempy/util/periodic.py', '_get_relative_atomic_masses'),
               ('chempy/chemistry.py', 'Substance.mass'),
               ('chempy/chemistry.py', 'Substance.from_formula'),
               ('chempy/chemistry.py', 'Species.from_formula'),
               ('chempy/chemistry.py', 'Solute.from_formula'),
               ('chempy/chemistry.py', 'mass_fractions'),
               ('chempy/util/parsing.py', 'formula_to_composition'))
    clauses_without_theorem = (
        '"agree with the IUPAC table" for the 34 elements without a standard atomic weight: theorem mass_numbers_pinned only pins the '
        'mass numbers chempy uses (IUPAC editions differ: Tc 97/98, Lr 262/266, Rg 281/282, Mc 289/290, Ts 293/294); for the other 84 the '
        'reference rows were transcribed offline and are identical to the repository table, so standard_weights_are_iupac guards against '
        'future corruption rather than confirming the values independently',
        'the link real code <-> model (Substance/Species/Solute.from_formula(...).mass, mass_from_composition, atomic_number, mass_fractions) '
        'is correspondence only; float summation error of the real code is bounded by the 1e-12 tolerance, not proved',
        'mass_fractions: mixture_fractions_spec states positivity / proportionality / sum = 1 for mixtures of FORMULAS under PositiveMass '
        '(well-formed, every written count > 0, charge <= 1000 x number of atoms); outside that hypothesis the clause "positive" is false of '
        'the code as of the model (charge_bound_needed_witness: H+2000 has mass -0.0898; positive_counts_needed_witness: [Fe]0 has mass 0) - '
        'physically meaningless inputs, recorded as a limitation of the property text, not generated as mixtures; the optional `substances` '
        'registry and set input are oracle/correspondence only',
        'Species.from_formula with `phases` given as a DICT (species_mass_spec covers every plain list of phases within the suffix vocabulary of '
        'the C01 parser model, solute_mass_spec covers Solute.from_formula): correspondence + oracle only',
        'additivity "over groups" inside arbitrary contexts is contained in formula_mass_spec (product of enclosing multipliers); the explicit '
        'corollaries are group_scales (top-level group), hydrate_additive (last part) and hydrate_additive_all (all parts, under the hypothesis '
        'that each part is well formed when written alone)',
        'non-ASCII names (str.capitalize/lower beyond ASCII): no theorem, no oracle claim (explicit skip); the period/group tables have '
        'groups_reference (theorem) and an independent textbook oracle',
    )

    # ------------------------------------------------------------------ generation
    def generate(self, rng, n, tier):
        cases = [{'op': 'table'}, {'op': 'mass_fractions', 'masses': [], 'coeffs': []},
                 {'op': 'mass_fractions_formulas', 'formulas': [], 'asts': [], 'coeffs': []}]
        for z in range(1, 119):                     # every element, symbol and name, random case
            for nm in (fg.SYMBOLS[z - 1], fg.NAMES[z - 1]):
                cases.append({'op': 'atomic_number', 'name': _rand_case(rng, nm), 'expect': z})
        for nm in NON_ASCII_NAMES:
            cases.append({'op': 'atomic_number', 'name': nm})
        for g in list(range(0, 20)):
            cases.append({'op': 'group', 'g': g})
        for z in range(1, 119):                     # every element's weight through the real formula path
            cases.append(self._formula_case(fg.adjacency_formula(z, rng.randint(1, 118)), 'Substance'))
        # every symbol x every phase suffix through the phase-aware constructors: the suffix letters s, l, g, a, q are also the
        # last letters of many symbols (Hg(g), Cs(s), Na(aq), Al(l), Mg(g), Os(s), ...)
        for z in range(1, 119):
            for sfx in fg.SUFFIXES:
                cnt = None if rng.random() < 0.7 else ['int', rng.randint(2, 9)]
                f = _single([_el(z, cnt)], sfx)
                cases.append(self._formula_case(f, 'Species', DEFAULT_PHASES))
                cls = rng.choice(['Solute', 'Substance', 'Species'])
                f2 = _single([_el(rng.randint(1, 118)), _el(z)], sfx, rng.choice([None, None, [1, None], [-1, 2]]))
                cases.append(self._formula_case(f2, cls, rng.choice(PHASE_SETS)))
        k = max(0, n - len(cases))
        for i in range(k):
            r = rng.random()
            if r < 0.38:
                cases.append(self._formula_case(fg.gen_formula(rng, max_depth=3 if tier == 'quick' else 5), 'Substance'))
            elif r < 0.47:
                cases.append({'op': 'ast_mass', 'ast': fg.gen_formula(rng, max_depth=3 if tier == 'quick' else 5)})
            elif r < 0.58:
                f = fg.gen_formula(rng, max_depth=2 if tier == 'quick' else 4)
                if rng.random() < 0.7:
                    f['suffix'] = rng.choice(fg.SUFFIXES)
                cases.append(self._formula_case(f, rng.choice(['Species', 'Species', 'Solute']), rng.choice(PHASE_SETS)))
            elif r < 0.64:
                s = _mutate(rng, fg.render(fg.gen_formula(rng, max_depth=2)))
                if rng.random() < 0.3:
                    s = _mutate(rng, s)
                cases.append({'op': 'formula_text', 's': s})
            elif r < 0.70:
                cases.append(self._comp_case(rng))
            elif r < 0.82:
                s = rng.choice(fg.SYMBOLS + fg.NAMES)
                mut = rng.random()
                if mut < 0.3:
                    s = s + rng.choice('aeiouxyz')
                elif mut < 0.5 and len(s) > 1:
                    s = s[:-1]
                elif mut < 0.6:
                    s = s[::-1]
                elif mut < 0.7:
                    j = rng.randrange(len(s) + 1)
                    s = s[:j] + rng.choice('ſıﬂéµ') + s[j:]
                cases.append({'op': 'atomic_number', 'name': _rand_case(rng, s)})
            elif r < 0.92:
                m = rng.randint(1, 5)
                fs, asts = [], []
                while len(fs) < m:
                    a = fg.gen_formula(rng, max_depth=2, plain=True, decimals=False)
                    f = fg.render(a)
                    if f not in fs:
                        fs.append(f)
                        asts.append(a)
                cases.append({'op': 'mass_fractions_formulas', 'formulas': fs, 'asts': asts,
                              'coeffs': [rng.randint(1, 9) for _ in fs], 'as_set': rng.random() < 0.15})
            else:
                m = rng.randint(0, 4)
                if rng.random() < 0.3 and m >= 2:        # exactly cancelling total (small integers: exact in floats too)
                    ms = [rng.randint(1, 9) for _ in range(m)]
                    vs = [rng.randint(1, 5) for _ in range(m - 1)]
                    ms[-1] = 1
                    vs.append(-sum(a * b for a, b in zip(ms, vs)))
                else:
                    ms = [rat_json(Fraction(rng.randint(1, 400000), 1000)) for _ in range(m)]
                    vs = [rng.choice([1, 2, 3, 5, -1, 0, 7]) for _ in range(m)]
                cases.append({'op': 'mass_fractions', 'masses': ms, 'coeffs': vs})
        return cases

    PFORMS = ('tuple', 'tuple', 'list', 'dict', 'iter', 'phase_idx', 'default_none')

    def _formula_case(self, f, cls, phases=None):
        c = {'op': 'formula_mass', 'formula': fg.render(f), 'ast': f, 'cls': cls}
        if cls == 'Species':
            c['phases'] = list(phases if phases is not None else DEFAULT_PHASES)
            # how `phases` / the phase index reach Species.from_formula (mass and composition must not depend on it); chosen
            # from the case content so that the case stays reproducible from its JSON alone
            c['pform'] = self.PFORMS[sum(map(ord, c['formula'])) % len(self.PFORMS)]
        return c

    def _comp_case(self, rng):
        keys = rng.sample(range(0, 119), rng.randint(0, 6))
        if rng.random() < 0.15:
            keys.append(rng.randint(119, 140))
        rng.shuffle(keys)
        comp = []
        for k in keys:
            v = Fraction(rng.randint(-6, 12)) if rng.random() < 0.7 else Fraction(rng.randint(1, 9999), rng.choice([10, 100, 1000]))
            comp.append([k, rat_json(v)])
        return {'op': 'mass', 'comp': comp}

    # ------------------------------------------------------------------ model / implementation
    def model_case(self, c):
        op = c['op']
        if op == 'formula_mass':
            if c['cls'] == 'Species':
                return {'op': 'species_mass', 's': c['formula'], 'phases': c['phases'], 'cls': 'Species', 'pform': c.get('pform', 'tuple')}
            return {'op': 'formula_mass', 's': c['formula'], 'cls': c['cls']}
        if op == 'formula_text':
            return {'op': 'formula_mass', 's': c['s'], 'cls': 'Substance'}
        if op == 'mass_fractions_formulas':
            from chempy import Substance
            ms = [Fraction(Substance.from_formula(f).mass) for f in c['formulas']]
            return {'op': 'mass_fractions', 'masses': [rat_json(m) for m in ms], 'coeffs': c['coeffs']}
        if op == 'atomic_number' and not c['name'].isascii():
            return None          # outside the ASCII-only model (documented in notes/C14.md)
        if op == 'table':
            return None
        return c

    def _make(self, cls, s, phases=None, pform='tuple'):
        from chempy import Substance, Species
        if cls == 'Species':
            if pform == 'list':
                return Species.from_formula(s, phases=list(phases))
            if pform == 'dict':
                return Species.from_formula(s, phases={k: i + 1 for i, k in enumerate(phases)})
            if pform == 'iter':
                return Species.from_formula(s, phases=iter(list(phases)))
            if pform == 'phase_idx':
                return Species.from_formula(s, phases=tuple(phases), phase_idx=3)
            if pform == 'default_none':
                try:
                    return Species.from_formula(s, phases=tuple(phases), default_phase_idx=None)
                except ValueError as e:
                    if 'Could not determine phase_idx' not in str(e):
                        raise
                    return Species.from_formula(s, phases=tuple(phases))     # no declared suffix: documented refusal
            return Species.from_formula(s, phases=tuple(phases))
        if cls == 'Solute':
            from chempy.chemistry import Solute
            with warnings.catch_warnings():
                warnings.simplefilter('ignore')
                return Solute.from_formula(s)
        return Substance.from_formula(s)

    def impl(self, c):
        from chempy.chemistry import mass_fractions
        from chempy.util import periodic
        op = c['op']
        try:
            if op == 'mass':
                return repr(periodic.mass_from_composition({int(k): (Fraction(*v) if isinstance(v, list) else v) for k, v in c['comp']}))
            if op in ('formula_mass', 'species_mass'):
                return repr(self._make(c.get('cls', 'Substance'), c['s'], c.get('phases'), c.get('pform', 'tuple')).mass)
            if op == 'ast_mass':
                # the Lean specification value `occurrenceMass` against the harness' own exact denotation, and
                # (instance of theorem formula_mass_spec) the model's parser+loop result on the rendered text
                want = show_rat(fg.ref_mass(fg.composition(c['ast'])))
                return '%s\t%s\t%s\ttrue' % (fg.render(c['ast']), want, want)
            if op == 'atomic_number':
                return str(periodic.atomic_number(c['name']))
            if op == 'group':
                return show_int_list(periodic.groups.get(c['g'], ()))
            if op == 'mass_fractions':
                # the optional `substances` registry is deliberately a superset in another order than the mixture
                mk = lambda m: type('S', (), {'mass': float(Fraction(*m) if isinstance(m, list) else m)})()
                subst = {'extra': mk(7)}
                for i, m in reversed(list(enumerate(c['masses']))):
                    subst[str(i)] = mk(m)
                r = mass_fractions({str(i): v for i, v in enumerate(c['coeffs'])}, substances=subst)
                return repr([r[str(i)] for i in range(len(c['coeffs']))])
        except Exception as e:
            return exc_name(e)
        return '!unknown-op'

    PARSE_EXC = ('ValueError', 'ParseException')
    EXC = ('IndexError', 'ValueError', 'ZeroDivisionError', 'ParseException')

    def same(self, c, io, mo):
        op = c['op']
        if op in ('atomic_number', 'group', 'ast_mass'):
            return io == mo
        if op in ('formula_mass', 'species_mass') and io in self.PARSE_EXC and mo in self.PARSE_EXC:
            # both refuse the text. Which of the two classes is raised depends on whether formula_to_latex (evaluated first by
            # from_formula) or formula_to_composition trips first; the exact exception of the parser is C01's business.
            return True
        if io in self.EXC or mo in self.EXC:
            return io == mo
        try:
            if op in ('mass', 'formula_mass', 'species_mass'):
                return close(float(io), parse_rat(mo), self.float_tol, 1e-300)
            if op == 'mass_fractions':
                a, b = eval(io), parse_rat_list(mo)
                return len(a) == len(b) and all(close(x, y, self.float_tol, 1e-300) for x, y in zip(a, b))
        except Exception:
            return False
        return False

    # ------------------------------------------------------------------ the property on the real code
    def oracle(self, c):
        """the property on the real code, against the reference table (independent of the repo's table and of the Lean model)"""
        from chempy import Substance
        from chempy.chemistry import mass_fractions
        from chempy.util import periodic
        import chempy
        op = c['op']
        if op == 'table':
            if tuple(periodic.symbols) != tuple(fg.SYMBOLS):
                return 'symbols differ from the reference table'
            if tuple(periodic.names) != tuple(fg.NAMES):
                return 'names differ from the reference table'
            if tuple(periodic.lower_names) != tuple(x.lower() for x in fg.NAMES):
                return 'lower_names are not the lower-cased reference names'
            ram = tuple(periodic.relative_atomic_masses)
            if len(ram) != 118:
                return 'relative_atomic_masses has %d entries' % len(ram)
            for i, w in enumerate(fg.WEIGHTS):
                if ram[i] != float(w):
                    return 'relative_atomic_masses[%d] (%s) = %r, reference %r' % (i, fg.SYMBOLS[i], ram[i], float(w))
            if chempy.atomic_number is not periodic.atomic_number and chempy.atomic_number('He') != 2:
                return 'chempy.atomic_number is not the periodic lookup'
            if mass_fractions({'H2O2'}) != {'H2O2': 1.0}:
                return 'mass_fractions({"H2O2"}) = %r' % (mass_fractions({'H2O2'}),)
            if mass_fractions({}) != {}:
                return 'mass_fractions({}) = %r' % (mass_fractions({}),)
        elif op == 'formula_mass':
            comp = fg.composition(c['ast'])
            want = fg.ref_mass(comp)
            try:
                s = self._make(c['cls'], c['formula'], c.get('phases'), c.get('pform', 'tuple'))
            except Exception as e:
                if c['cls'] == 'Species' and c['ast']['suffix'] and c['ast']['suffix'] not in list(c['phases']) + ['(aq)']:
                    # a suffix the caller did not declare is not stripped; it is then read as a state token (or lands in the
                    # charge token): the text is not a rendering of the AST under that Species' grammar, refusing it is legitimate
                    return None
                return '%s.from_formula(%r%s) raised %s' % (c['cls'], c['formula'], self._ph(c), exc_name(e))
            got = dict(s.composition)
            if set(got) != set(comp) or any(not close(got[k], comp[k], 1e-12) for k in comp):
                return ('%s.from_formula(%r%s).composition = %r, written composition is %r'
                        % (c['cls'], c['formula'], self._ph(c), dict(s.composition), {k: float(v) for k, v in comp.items()}))
            if not close(s.mass, want, 1e-9, 1e-12):
                return ('%s.from_formula(%r%s).mass = %r, composition-weighted reference sum is %r'
                        % (c['cls'], c['formula'], self._ph(c), s.mass, float(want)))
            if s.charge != comp.get(0, 0):
                return 'charge of %s is %r' % (c['formula'], s.charge)
            if c['cls'] == 'Species':
                # the phase index is what the declared suffix selects (position + 1, or the dict value), an explicit phase_idx
                # wins, "(aq)" / no suffix give the default 0; it never influences mass or composition (checked above)
                sfx, ph, pf = c['ast']['suffix'], list(c['phases']), c.get('pform', 'tuple')
                want_idx = 3 if pf == 'phase_idx' else next((i + 1 for i, k in enumerate(ph) if c['formula'].endswith(k)), 0)
                if s.phase_idx != want_idx:
                    return 'Species.from_formula(%r%s, %s).phase_idx = %r, the text ends in %r' % (
                        c['formula'], self._ph(c), pf, s.phase_idx, sfx)
            # an explicit data["mass"] wins over the computed one (documented special case of Substance.mass)
            if c['cls'] == 'Substance' and len(c['formula']) % 7 == 0:
                if Substance.from_formula(c['formula'], data={'mass': 1.25}).mass != 1.25:
                    return 'data["mass"] is not returned by Substance.mass'
        elif op == 'mass':
            comp = {int(k): (Fraction(*v) if isinstance(v, list) else Fraction(v)) for k, v in c['comp']}
            try:
                got = periodic.mass_from_composition(comp)
            except IndexError:
                got = None
            want = fg.ref_mass(comp) if all(k <= 118 for k in comp) else None
            if (got is None) != (want is None):
                return 'mass_from_composition(%r): %s' % (c['comp'], 'raised IndexError' if got is None else 'no IndexError for a key past the table')
            if want is not None and not close(got, want, 1e-9, 1e-9):
                return 'mass_from_composition(%r) = %r, reference sum %r' % (c['comp'], got, float(want))
        elif op == 'atomic_number' and not c['name'].isascii():
            # EXPLICIT SKIP: Python's str.capitalize()/str.lower() map some non-ASCII letters to ASCII ('ſ' -> 'S', 'ﬂ' -> 'Fl',
            # 'ı' -> 'I'), so the real atomic_number('ſ') is 16. The property text speaks of case-insensitivity of symbols/names;
            # what happens to non-ASCII look-alikes is outside the ASCII-only model and is NOT judged here (see notes/C14.md).
            return None
        elif op == 'group':
            # independent reference: the textbook members of the main groups (not computed from the period lengths)
            ref = {1: (1, 3, 11, 19, 37, 55, 87), 2: (4, 12, 20, 38, 56, 88), 13: (5, 13, 31, 49, 81, 113),
                   14: (6, 14, 32, 50, 82, 114), 15: (7, 15, 33, 51, 83, 115), 16: (8, 16, 34, 52, 84, 116),
                   17: (9, 17, 35, 53, 85, 117), 18: (2, 10, 18, 36, 54, 86, 118)}
            got = periodic.groups.get(c['g'])
            if (None if got is None else tuple(got)) != ref.get(c['g']):
                return 'periodic.groups[%d] = %r, textbook members %r' % (c['g'], got, ref.get(c['g']))
            if tuple(periodic.period_lengths) != (2, 8, 8, 18, 18, 32, 32) or sum(periodic.period_lengths) != 118:
                return 'period_lengths = %r' % (periodic.period_lengths,)
            for g, zs in ref.items():
                # symbols of the first and last member as a second, table-independent anchor
                if fg.SYMBOLS[zs[0] - 1] != {1: 'H', 2: 'Be', 13: 'B', 14: 'C', 15: 'N', 16: 'O', 17: 'F', 18: 'He'}[g]:
                    return 'first member of group %d is %s' % (g, fg.SYMBOLS[zs[0] - 1])
        elif op == 'atomic_number' and 'expect' in c:
            try:
                z = periodic.atomic_number(c['name'])
            except Exception as e:
                return 'atomic_number(%r) raised %s' % (c['name'], exc_name(e))
            if z != c['expect']:
                return 'atomic_number(%r) = %r, expected %d' % (c['name'], z, c['expect'])
        elif op == 'atomic_number':
            low = c['name'].lower()
            want = None
            for i in range(118):
                if low == fg.SYMBOLS[i].lower() or low == fg.NAMES[i].lower():
                    want = i + 1
            try:
                z = periodic.atomic_number(c['name'])
            except ValueError:
                z = None
            if z != want:
                return 'atomic_number(%r) = %r, expected %r' % (c['name'], z, want)
        elif op == 'mass_fractions_formulas':
            st = dict(zip(c['formulas'], c['coeffs']))
            if c.get('as_set'):
                st = {f: 1 for f in st}
            ms = {f: fg.ref_mass(fg.composition(a)) for f, a in zip(c['formulas'], c['asts'])}
            tot = sum(ms[f] * v for f, v in st.items())
            try:
                r = mass_fractions(set(st)) if c.get('as_set') else mass_fractions(st)
            except ZeroDivisionError:
                # legitimate exactly for a non-empty mixture of total mass zero (e.g. the formula '[Fe]0')
                return None if (st and tot == 0) else 'mass_fractions(%r) raised ZeroDivisionError' % (st,)
            if st and tot == 0:
                return 'mass_fractions(%r) returned %r for a mixture of total mass zero' % (st, r)
            if set(r) != set(st):
                return 'mass_fractions(%r) has keys %r' % (st, sorted(r))
            # same mixture with an explicit registry (superset, different order): must give the same fractions
            reg = {'H2O': Substance.from_formula('H2O')}
            for f in reversed(c['formulas']):
                reg[f] = Substance.from_formula(f)
            r2 = mass_fractions(st, substances=reg)
            for f in st:
                if not close(r2[f], r[f], 1e-12):
                    return 'mass_fractions(%r, substances=<registry in another order>)[%r] = %r but %r without registry' % (st, f, r2[f], r[f])
            if st and tot != 0:
                if not close(sum(r.values()), 1.0, 1e-9):
                    return 'mass fractions of %r sum to %r' % (st, sum(r.values()))
                for f, v in st.items():
                    if not close(r[f], ms[f] * v / tot, 1e-9, 1e-12):
                        return 'mass fraction of %s in %r is %r, expected %r' % (f, st, r[f], float(ms[f] * v / tot))
                    if ms[f] * v > 0 and not r[f] > 0:
                        return 'mass fraction of %s in %r is %r, not positive' % (f, st, r[f])
        elif op == 'mass_fractions':
            ms = [Fraction(*m) if isinstance(m, list) else Fraction(m) for m in c['masses']]
            out = self.impl(c)
            tot = sum(m * v for m, v in zip(ms, c['coeffs']))
            if not ms:
                if out != '[]':
                    return 'mass_fractions of the empty mixture gave %s' % out
            elif tot == 0:
                if out != 'ZeroDivisionError':
                    return 'mass_fractions with zero total mass gave %s' % out
            else:
                try:
                    r = eval(out)
                except Exception:
                    return 'mass_fractions(masses=%r, coeffs=%r) gave %s' % (c['masses'], c['coeffs'], out)
                if not close(sum(r), 1.0, 1e-9, 1e-12):
                    return 'mass fractions (masses=%r, coeffs=%r) sum to %r' % (c['masses'], c['coeffs'], sum(r))
                for x, m, v in zip(r, ms, c['coeffs']):
                    if not close(x, m * v / tot, 1e-9, 1e-12):
                        return 'mass fraction %r, expected %r (masses=%r, coeffs=%r)' % (x, float(m * v / tot), c['masses'], c['coeffs'])
        return None

    @staticmethod
    def _ph(c):
        return ', phases=%r' % (tuple(c['phases']),) if c.get('phases') is not None and c['cls'] == 'Species' else ''

    def classify(self, c):
        if c['op'] == 'formula_mass':
            return 'formula_mass:%s:depth%d%s%s%s' % (c['cls'], fg.depth(c['ast']), ':dec' if fg.has_decimal(c['ast']) else '',
                                                      ':chg' if c['ast']['charge'] else '', ':sfx' if c['ast']['suffix'] else '')
        if c['op'] == 'atomic_number':
            if not c['name'].isascii():
                return 'atomic_number:non-ascii(skipped)'
            return 'atomic_number:' + ('listed' if 'expect' in c else 'mutated')
        return c['op']


PROPERTY = C14()
