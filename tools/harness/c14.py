"""C14 — molar mass is the composition-weighted sum of standard atomic weights"""
from fractions import Fraction
import random
from lib.framework import Property
from . import formula_gen as fg
from .util import *


def _rand_case(rng, s):
    return ''.join(c.upper() if rng.random() < 0.5 else c.lower() for c in s)


class C14(Property):
    pid = 'C14'
    title = ('mass = sum(count * standard atomic weight) - charge * electron mass; table = IUPAC; '
             'case-insensitive symbol/name lookup inverse to the table; mass fractions positive, proportional, sum to one')
    props_module = 'ChemModel.Props.C14'
    build_modules = ('ChemModel.Model.Periodic', 'ChemModel.Basic.Proto')
    driver = 'ChemModel/Driver/C14.lean'
    n_quick, n_thorough = 1500, 30000
    float_tol = 1e-12
    rule = ('formula ASTs from tools/harness/formula_gen.py (all 118 elements, nested groups, hydrates, decimals, charges) '
            'rendered and passed to Substance.from_formula; every symbol and name in random letter case plus near-miss strings; '
            'random mixtures for mass_fractions. A case is non-trivial when it is a distinct JSON value and not an empty composition.')
    assumptions = ('reference IUPAC table embedded in Props/C14.lean and tools/harness/ref_iupac.json is the specification',
                   'float rounding of the Python sum is not modelled: exact model vs float within 1e-12 relative',
                   'ASCII names only (str.capitalize / str.lower on non-ASCII input is outside the model)')

    def generate(self, rng, n, tier):
        cases = []
        for z in range(1, 119):                     # every element, symbol and name, random case
            for nm in (fg.SYMBOLS[z - 1], fg.NAMES[z - 1]):
                cases.append({'op': 'atomic_number', 'name': _rand_case(rng, nm), 'expect': z})
        for g in list(range(0, 20)):
            cases.append({'op': 'group', 'g': g})
        for z in range(1, 119):                     # every element's weight through the real formula path
            f = fg.adjacency_formula(z, rng.randint(1, 118))
            cases.append(self._formula_case(f))
        k = max(0, n - len(cases))
        for i in range(k):
            r = rng.random()
            if r < 0.6:
                cases.append(self._formula_case(fg.gen_formula(rng, max_depth=3 if tier == 'quick' else 5)))
            elif r < 0.75:
                s = rng.choice(fg.SYMBOLS + fg.NAMES)
                mut = rng.random()
                if mut < 0.3:
                    s = s + rng.choice('aeiouxyz')
                elif mut < 0.5 and len(s) > 1:
                    s = s[:-1]
                elif mut < 0.6:
                    s = s[::-1]
                cases.append({'op': 'atomic_number', 'name': _rand_case(rng, s)})
            else:
                m = rng.randint(1, 5)
                fs, asts = [], []
                while len(fs) < m:
                    a = fg.gen_formula(rng, max_depth=2, plain=True, decimals=False)
                    f = fg.render(a)
                    if f not in fs:
                        fs.append(f)
                        asts.append(a)
                cases.append({'op': 'mass_fractions_formulas', 'formulas': fs, 'asts': asts,
                              'coeffs': [rng.randint(1, 9) for _ in fs]})
        return cases

    def _formula_case(self, f):
        return {'op': 'formula_mass', 'formula': fg.render(f), 'ast': f}

    # the model is driven with the composition obtained from the real parser (C01 covers the parser)
    def model_case(self, c):
        from chempy import Substance
        if c['op'] == 'formula_mass':
            comp = Substance.from_formula(c['formula']).composition
            return {'op': 'mass', 'comp': [[int(k), rat_json(Fraction(v))] for k, v in comp.items()]}
        if c['op'] == 'mass_fractions_formulas':
            ms = [Fraction(Substance.from_formula(f).mass) for f in c['formulas']]
            return {'op': 'mass_fractions', 'masses': [rat_json(m) for m in ms], 'coeffs': c['coeffs']}
        return c

    def impl(self, c):
        from chempy import Substance
        from chempy.chemistry import mass_fractions
        from chempy.util import periodic
        op = c['op']
        try:
            if op == 'mass':
                return repr(periodic.mass_from_composition({int(k): (Fraction(*v) if isinstance(v, list) else v) for k, v in c['comp']}))
            if op == 'atomic_number':
                return str(periodic.atomic_number(c['name']))
            if op == 'group':
                return show_int_list(periodic.groups.get(c['g'], ()))
            if op == 'mass_fractions':
                # the optional `substances` registry is deliberately a superset in another order than the mixture
                mk = lambda m: type('S', (), {'mass': float(Fraction(*m) if isinstance(m, list) else m)})()
                subst = {'extra': mk(7)}
                for i, m in reversed(list(enumerate(c['masses']))):
                    subst[str(i)] = mk(m)
                r = mass_fractions({str(i): v for i, v in enumerate(c['coeffs'])}, substances=subst)
                return repr([r[str(i)] for i in range(len(c['coeffs']))])
        except Exception as e:
            return exc_name(e)
        return '!unknown-op'

    def same(self, c, io, mo):
        op = c['op']
        if op in ('atomic_number', 'group'):
            return io == mo
        if io in ('IndexError', 'ValueError', 'ZeroDivisionError') or mo in ('IndexError', 'ValueError', 'ZeroDivisionError'):
            return io == mo
        try:
            if op == 'mass':
                return close(float(io), parse_rat(mo), self.float_tol, 1e-300)
            if op == 'mass_fractions':
                a, b = eval(io), parse_rat_list(mo)
                return len(a) == len(b) and all(close(x, y, self.float_tol) for x, y in zip(a, b))
        except Exception:
            return False
        return False

    def oracle(self, c):
        """the property on the real code, against the reference table (independent of the repo's table)"""
        from chempy import Substance
        from chempy.chemistry import mass_fractions
        from chempy.util import periodic
        op = c['op']
        if op == 'formula_mass':
            s = Substance.from_formula(c['formula'])
            want = fg.ref_mass(fg.composition(c['ast']))
            if not close(s.mass, want, 1e-9, 1e-12):
                return 'mass of %s is %r, composition-weighted IUPAC sum is %r' % (c['formula'], s.mass, float(want))
        elif op == 'atomic_number' and 'expect' in c:
            try:
                z = periodic.atomic_number(c['name'])
            except Exception as e:
                return 'atomic_number(%r) raised %s' % (c['name'], exc_name(e))
            if z != c['expect']:
                return 'atomic_number(%r) = %r, expected %d' % (c['name'], z, c['expect'])
        elif op == 'atomic_number':
            low = c['name'].lower()
            want = None
            for i in range(118):
                if low == fg.SYMBOLS[i].lower() or low == fg.NAMES[i].lower():
                    want = i + 1
            try:
                z = periodic.atomic_number(c['name'])
            except ValueError:
                z = None
            if z != want:
                return 'atomic_number(%r) = %r, expected %r' % (c['name'], z, want)
        elif op == 'mass_fractions_formulas':
            st = dict(zip(c['formulas'], c['coeffs']))
            r = mass_fractions(st)
            # same mixture with an explicit registry (superset, different order): must give the same fractions
            reg = {'H2O': Substance.from_formula('H2O')}
            for f in reversed(c['formulas']):
                reg[f] = Substance.from_formula(f)
            r2 = mass_fractions(st, substances=reg)
            for f in st:
                if not close(r2[f], r[f], 1e-12):
                    return 'mass_fractions(%r, substances=<registry in another order>)[%r] = %r but %r without registry' % (st, f, r2[f], r[f])
            ms = {f: fg.ref_mass(fg.composition(a)) for f, a in zip(c['formulas'], c['asts'])}
            tot = sum(ms[f] * v for f, v in st.items())
            if tot != 0:
                if not close(sum(r.values()), 1.0, 1e-9):
                    return 'mass fractions sum to %r' % sum(r.values())
                for f, v in st.items():
                    if not close(r[f], ms[f] * v / tot, 1e-9, 1e-12):
                        return 'mass fraction of %s is %r, expected %r' % (f, r[f], float(ms[f] * v / tot))
        return None

    def classify(self, c):
        if c['op'] == 'formula_mass':
            return 'formula_mass:depth%d%s%s' % (fg.depth(c['ast']), ':dec' if fg.has_decimal(c['ast']) else '',
                                                  ':chg' if c['ast']['charge'] else '')
        if c['op'] == 'atomic_number':
            return 'atomic_number:' + ('listed' if 'expect' in c else 'mutated')
        return c['op']


PROPERTY = C14()
