"""C15 — structural queries on a reaction system match its reaction graph.

Cases are generated directly in the JSON format of the Lean driver (Driver/C15.lean):
  stoich = [["A",1],...]   rxn = [reac, prod, inact_reac, inact_prod, param|None, name|None, paramB|None, isEq]
                             (paramB = kb when the parameter is the pair (param, paramB); isEq: an Equilibrium instance)
  subst  = [name, comp|None]  comp = [[k, v],...]   system = {"rxns": [...], "subs": [[key, subst],...]}
The oracle works on these plain lists with its own graph code (union-find, BFS, exact Fractions); it never
looks at the Lean model's answers.
"""
from collections import OrderedDict
from fractions import Fraction
import json

from lib.framework import Property
from .util import *

POOL = ['A', 'B', 'C', 'D', 'E', 'F', 'G', 'H2O', 'H+', 'OH-', 'e-', 'a', 'Na+', 'Cl-', 'AB', 'Ab', 'O2', 'H2', 'Z', 'b2']
ELEMS = [1, 6, 7, 8, 11, 17]
CHECKS = ['substance_keys', 'duplicate', 'duplicate_names']


def dumps(x):
    return json.dumps(x, separators=(',', ':'), ensure_ascii=False)


# ------------------------------------------------------------------ spec-level helpers (oracle side)
def s_keys(rx):
    out = []
    for part in rx[:4]:
        for k, _ in part:
            if k not in out:
                out.append(k)
    return out


def s_get(part, k):
    for kk, v in part:
        if kk == k:
            return v
    return 0


def s_all_reac(rx, k):
    return s_get(rx[0], k) + s_get(rx[2], k)


def s_all_prod(rx, k):
    return s_get(rx[1], k) + s_get(rx[3], k)


def s_net(rx, k):
    return s_all_prod(rx, k) - s_all_reac(rx, k)


def s_rxn_eq(a, b):
    """Reaction.__eq__: reac, prod, param, inact_reac, inact_prod as ORDERED dicts; name and class ignored"""
    return a[0] == b[0] and a[1] == b[1] and a[2] == b[2] and a[3] == b[3] and a[4] == b[4] and a[6] == b[6]


def s_expand(rxns):
    """what categorize_substances works on, by the DEFINITION of an equilibrium: a plain reaction is kept, an equilibrium
    contributes its forward reaction and the backward one = every reactant (active or inactive) becomes a product and
    vice versa. Returns None when the real code has to raise (no (kf, kb) pair / no net effect)."""
    out = []
    for rx in rxns:
        if not rx[7]:
            out.append(rx)
            continue
        if rx[4] is None or rx[6] is None or not any(s_net(rx, k) != 0 for k in s_keys(rx)):
            return None
        out.append([rx[0], rx[1], rx[2], rx[3], rx[4], rx[5], None, False])
        out.append([rx[1], rx[0], rx[3], rx[2], rx[6], None, None, False])
    return out


def components(keysets):
    """connected components of reactions (own union-find); reactions sharing a species are joined"""
    n = len(keysets)
    parent = list(range(n))

    def find(x):
        while parent[x] != x:
            parent[x] = parent[parent[x]]
            x = parent[x]
        return x
    owner = {}
    for i, ks in enumerate(keysets):
        for k in ks:
            if k in owner:
                a, b = find(owner[k]), find(i)
                if a != b:
                    parent[a] = b
            else:
                owner[k] = i
    comp = {}
    for i in range(n):
        comp.setdefault(find(i), set()).add(i)
    return set(frozenset(v) for v in comp.values())


def connected(idx, keysets):
    idx = list(idx)
    if not idx:
        return True
    seen = {idx[0]}
    todo = [idx[0]]
    while todo:
        a = todo.pop()
        for b in idx:
            if b not in seen and set(keysets[a]) & set(keysets[b]):
                seen.add(b)
                todo.append(b)
    return len(seen) == len(idx)


def eval_pred(p, rx):
    if p[0] == 'has_key':
        return p[1] in s_keys(rx)
    if p[0] == 'order_le':
        return sum(v for _, v in rx[0]) <= p[1]
    if p[0] == 'named':
        return rx[5] is not None
    if p[0] == 'param_even':
        return rx[4] is not None and rx[4] % 2 == 0
    if p[0] == 'not':
        return not eval_pred(p[1], rx)
    raise ValueError(p)


def failing_checks(rxns, keys):
    bad = set()
    if any(k not in keys for rx in rxns for k in s_keys(rx)):
        bad.add('substance_keys')
    if any(s_rxn_eq(rxns[i], rxns[j]) for i in range(len(rxns)) for j in range(i + 1, len(rxns))):
        bad.add('duplicate')
    names = [rx[5] for rx in rxns if rx[5] is not None]
    if len(names) != len(set(names)):
        bad.add('duplicate_names')
    return bad


def sp_merge(subs_a, subs_b):
    """substances of a sum: a's keys in order, then b's new ones; on a common key b's object wins"""
    want, order = {}, []
    for k, v in list(subs_a) + list(subs_b):
        if k not in want:
            order.append(k)
        want[k] = v
    return [[k, want[k]] for k in order]


def sp_used(subs, rxns):
    """the substances (in their order) that occur in one of the reactions"""
    return [[k, v] for k, v in subs if any(k in s_keys(r) for r in rxns)]


def sp_concat(specs):
    """[rxns, subs] of the sum and of the duplicates, by the definition of `concatenate`, for specs = [[rxns, subs], ...]"""
    acc_r, acc_s = list(specs[0][0]), list(specs[0][1])
    dup_r, dup_s = [], []
    for rx, subs in specs[1:]:
        cur = list(acc_r)
        yes = [r for r in rx if not any(r[:4] == o[:4] for o in cur)]
        no = [r for r in rx if any(r[:4] == o[:4] for o in cur)]
        acc_r, acc_s = acc_r + yes, sp_merge(acc_s, sp_used(subs, yes))
        dup_r, dup_s = dup_r + no, sp_merge(dup_s, sp_used(subs, no))
    return [acc_r, acc_s], [dup_r, dup_s]


def nullspace(rows, n):
    """basis of {x : rows x = 0} over Fractions"""
    m = [list(map(Fraction, r)) for r in rows]
    piv = []
    r = 0
    for c in range(n):
        p = next((i for i in range(r, len(m)) if m[i][c] != 0), None)
        if p is None:
            continue
        m[r], m[p] = m[p], m[r]
        pv = m[r][c]
        m[r] = [x / pv for x in m[r]]
        for i in range(len(m)):
            if i != r and m[i][c] != 0:
                f = m[i][c]
                m[i] = [x - f * y for x, y in zip(m[i], m[r])]
        piv.append(c)
        r += 1
    free = [c for c in range(n) if c not in piv]
    basis = []
    for f in free:
        v = [Fraction(0)] * n
        v[f] = Fraction(1)
        for i, c in enumerate(piv):
            v[c] = -m[i][f]
        basis.append(v)
    return basis


# ------------------------------------------------------------------ real objects from specs
def mk_rxn(rx):
    from chempy import Reaction, Equilibrium
    cls = Equilibrium if rx[7] else Reaction
    param = rx[4] if rx[6] is None else (rx[4], rx[6])
    return cls(stoich_arg(rx[0]), stoich_arg(rx[1]), param, stoich_arg(rx[2]), stoich_arg(rx[3]),
               name=rx[5], checks=())


def stoich_arg(part):
    """how a stoichiometry dict is handed to Reaction: as an OrderedDict (order kept), or — when the keys are strictly
    ascending, where `_init_stoich` must yield the same OrderedDict — as a plain dict (sorted by the constructor) or, if all
    coefficients are 1, as a set ({k: 1 for k in set}). The choice is a deterministic function of the data."""
    keys = [k for k, _ in part]
    if part and keys == sorted(set(keys)) and len(set(keys)) == len(keys):
        h = sum(len(k) for k in keys) + len(keys)
        if all(v == 1 for _, v in part) and h % 3 == 0:
            return set(keys)
        if h % 3 == 1:
            return dict(part)
    return OrderedDict(part)


def mk_subst(s):
    from chempy import Substance
    return Substance(s[0], composition=None if s[1] is None else OrderedDict((int(k), v) for k, v in s[1]))


def mk_sys(spec):
    from chempy import ReactionSystem
    rxns = [mk_rxn(r) for r in spec['rxns']]
    subs = OrderedDict((k, mk_subst(s)) for k, s in spec['subs'])
    return ReactionSystem(rxns, subs, checks=()), rxns


def show_rxn(r):
    return [[[k, int(v)] for k, v in r.reac.items()], [[k, int(v)] for k, v in r.prod.items()],
            [[k, int(v)] for k, v in r.inact_reac.items()], [[k, int(v)] for k, v in r.inact_prod.items()],
            r.param[0] if isinstance(r.param, tuple) else r.param, r.name,
            r.param[1] if isinstance(r.param, tuple) else None, isinstance(r, _equilibrium_class())]


def _equilibrium_class():
    from chempy import Equilibrium
    return Equilibrium


def show_rxn_struct(r):
    return show_rxn(type('R', (), dict(reac=r.reac, prod=r.prod, inact_reac=r.inact_reac, inact_prod=r.inact_prod, param=None,
                                       name=None))())[:4]


def show_subst(s):
    return [s.name, None if s.composition is None else [[int(k), int(v)] for k, v in s.composition.items()]]


def show_sys(rs):
    return [[show_rxn(r) for r in rs.rxns], [[k, show_subst(s)] for k, s in rs.substances.items()]]


def mk_pred(p, ret='bool'):
    """ret: what the predicate returns for True/False — subset only looks at truthiness"""
    if ret == 'int':
        return lambda r: 1 if eval_pred(p, show_rxn(r)) else 0
    if ret == 'obj':
        return lambda r: [r] if eval_pred(p, show_rxn(r)) else None
    return lambda r: eval_pred(p, show_rxn(r))


def stateful_pred(kind, data):
    """a predicate whose answer depends on the calls made so far; returns (callable on a reaction SPEC, call log)"""
    log = []
    if kind == 'first_occurrence':                     # the seen-set idiom: True for the first reaction with a given stoichiometry
        seen = set()

        def f(rx):
            log.append(rx)
            key = dumps(rx[:4])
            if key in seen:
                return False
            seen.add(key)
            return True
    elif kind == 'counter':                            # every other reaction
        def f(rx):
            log.append(rx)
            return len(log) % 2 == 1
    else:                                              # an iterator of booleans
        it = iter(data)

        def f(rx):
            log.append(rx)
            return next(it)
    return f, log


CONTAINERS = ['list', 'tuple', 'gen', 'filter', 'map', 'iter', 'reversed', 'dictvalues', 'ndarray', 'chain', 'deque']
ONE_SHOT = ('gen', 'filter', 'map', 'iter', 'reversed', 'chain')


def wrap(seq, kind):
    """the same items in another container type / as a one-shot iterator"""
    seq = list(seq)
    if kind in (None, 'list'):
        return seq
    if kind == 'tuple':
        return tuple(seq)
    if kind == 'gen':
        return (x for x in seq)
    if kind == 'filter':
        return filter(lambda x: True, seq)
    if kind == 'map':
        return map(lambda x: x, seq)
    if kind == 'iter':
        return iter(seq)
    if kind == 'reversed':
        return reversed(seq[::-1])
    if kind == 'dictvalues':
        return OrderedDict(enumerate(seq)).values()
    if kind == 'ndarray':
        import numpy as np
        a = np.empty(len(seq), dtype=object)
        for i, x in enumerate(seq):
            a[i] = x
        return a
    if kind == 'chain':
        import itertools
        return itertools.chain(seq[:1], seq[1:])
    if kind == 'deque':
        import collections
        return collections.deque(seq)
    raise ValueError(kind)


def gen_container(rng):
    return rng.choice(CONTAINERS + ['list', 'list', 'gen', 'iter'])


BAD_ITEMS = {'str': 'A -> B', 'none': None, 'int': 3, 'tuple': ('A', 'B')}


def check_err(e):
    m = str(e)
    if m.startswith('Unknown key'):
        return 'ValueError:substance_keys'
    if m.startswith('Duplicate reactions'):
        return 'ValueError:duplicate'
    if m.startswith('Duplicate names'):
        return 'ValueError:duplicate_names'
    if m.startswith('Exactly one rate needs to be provided'):
        return 'ValueError:rate'
    if m.startswith('The net stoichiometry change of all species are zero'):
        return 'ValueError:no_effect'
    return type(e).__name__ + ':' + m[:60]


def frac(v):
    return Fraction(*v) if isinstance(v, list) else Fraction(v)


# ------------------------------------------------------------------ generators
def gen_stoich(rng, pool, n, zero_p=0.03):
    ks = rng.sample(pool, min(n, len(pool)))
    return [[k, 0 if rng.random() < zero_p else rng.randint(1, 3)] for k in ks]


def gen_rxn(rng, pool, named_p=0.3):
    if not pool or rng.random() < 0.02:
        reac, prod = [], []
    else:
        reac = gen_stoich(rng, pool, rng.choice([0, 1, 1, 1, 2, 2, 3]))
        prod = gen_stoich(rng, pool, rng.choice([0, 1, 1, 1, 2, 2, 3]))
        if reac and rng.random() < 0.25:                   # catalyst: same species on both sides
            k, v = rng.choice(reac)
            if all(k != kk for kk, _ in prod):
                prod.insert(rng.randint(0, len(prod)), [k, v if rng.random() < 0.7 else rng.randint(1, 3)])
    ir = gen_stoich(rng, pool, 1) if pool and rng.random() < 0.12 else []
    ip = gen_stoich(rng, pool, 1) if pool and rng.random() < 0.12 else []
    param = rng.choice([None, None, 0, 1, 2, 3, 4, 5])
    name = ('r%d' % rng.randint(0, 30)) if rng.random() < named_p else None
    return [reac, prod, ir, ip, param, name, None, False]


def gen_equilibrium(rng, pool, named_p=0.2):
    """an Equilibrium member: mostly with a (kf, kb) pair and a net effect, usually with inactive species (solvent-like)"""
    rx = gen_rxn(rng, pool, named_p)
    if pool and rng.random() < 0.7:
        side = rng.choice([2, 3, 2, 3, 23])
        if side in (2, 23) and not rx[2]:
            rx[2] = gen_stoich(rng, pool, 1, zero_p=0)
        if side in (3, 23) and not rx[3]:
            rx[3] = gen_stoich(rng, pool, 1, zero_p=0)
    r = rng.random()
    if r < 0.85:
        rx[4], rx[6] = rng.randint(1, 9), rng.randint(1, 9)
    elif r < 0.93:
        rx[4], rx[6] = rng.choice([None, 3]), None          # scalar K / None: as_reactions() needs a rate -> ValueError
    else:
        rx[4], rx[6] = 2, 3
        rx[1], rx[3] = [list(p) for p in rx[0]], [list(p) for p in rx[2]]   # no net effect -> ValueError (any_effect)
    rx[7] = True
    return rx


def reverse_of(rng, rx, extra_pool=()):
    reac, prod, ir, ip = [list(map(list, p)) for p in rx[:4]]
    nr, np_, nir, nip = prod, reac, ip, ir
    used = set(s_keys(rx))
    fresh = [k for k in extra_pool if k not in used]
    if fresh and rng.random() < 0.3:                       # "reverse plus spectator": NOT a reverse
        k = rng.choice(fresh)
        m = rng.random()
        if m < 0.5:                                        # catalysed back reaction
            nr = nr + [[k, 1]]
            np_ = np_ + [[k, 1]]
        elif m < 0.75:
            nr = nr + [[k, rng.randint(1, 2)]]
        else:
            np_ = np_ + [[k, rng.randint(1, 2)]]
    if nr and rng.random() < 0.3:                          # move one unit between active and inactive
        k, v = nr[0]
        if v >= 2 and all(k != kk for kk, _ in nir):
            nr[0] = [k, v - 1]
            nir = nir + [[k, 1]]
    return [nr, np_, nir, nip, rng.choice([None, 1, 7]), None, None, False]


def gen_comp(rng, degenerate=True):
    r = rng.random()
    if degenerate and r < 0.04:
        return []
    if degenerate and r < 0.08:
        return [[0, rng.choice([-2, -1, 1, 2])]]
    els = rng.sample(ELEMS, rng.randint(1, 3))
    comp = [[e, rng.randint(1, 4)] for e in els]
    if degenerate and rng.random() < 0.04:
        comp[rng.randrange(len(comp))][1] = 0
    if rng.random() < 0.3:
        comp.insert(rng.randint(0, len(comp)), [0, rng.choice([-2, -1, 1, 2])])
    return comp


def gen_sys(rng, max_s=12, max_r=12, comps=None, unknown_p=0.05, dup_p=0.06, rev_p=0.1, named_p=0.3, pool=None, eq_p=0.08):
    ns = rng.choice([0, 1, 2, 3] + list(range(2, max_s + 1)) * 2)
    keys = rng.sample(pool or POOL, min(ns, len(pool or POOL)))
    nclu = rng.randint(1, 4)
    clusters = [[] for _ in range(nclu)]
    isolated = []
    for k in keys:
        if rng.random() < 0.12:
            isolated.append(k)
        else:
            rng.choice(clusters).append(k)
    clusters = [c for c in clusters if c]
    nr = rng.choice([0, 1, 2] + list(range(1, max_r + 1)) * 2)
    rxns = []
    for _ in range(nr):
        r = rng.random()
        if rxns and r < dup_p:
            src = rng.choice(rxns)
            rx = [list(map(list, p)) for p in src[:4]] + [src[4] if rng.random() < 0.6 else 9, rng.choice([None, src[5]]), src[6], src[7]]
        elif rxns and r < dup_p + rev_p:
            rx = reverse_of(rng, rng.choice(rxns), keys)
        else:
            pool_ = rng.choice(clusters) if clusters and rng.random() < 0.88 else [k for c in clusters for k in c]
            if rng.random() < unknown_p:
                pool_ = pool_ + ['X?']
            rx = gen_equilibrium(rng, pool_, named_p) if rng.random() < eq_p else gen_rxn(rng, pool_, named_p)
        rxns.append(rx)
    rng.shuffle(rxns)
    order = keys[:]
    rng.shuffle(order)
    with_comp = rng.random() < 0.5 if comps is None else comps
    subs = [[k, [k, gen_comp(rng) if with_comp else None]] for k in order]
    return {'rxns': rxns, 'subs': subs}


def gen_bridged_sys(rng):
    """several provisional groups (seed reactions on disjoint key pairs, listed first) that later reactions bridge:
    the bridges join EARLIER groups in the greedy pass, so the fusion loop has to merge transitively (a group that
    was already compared with a smaller version of group i must be compared again after i absorbed another one)"""
    m = rng.randint(3, 6)
    keys = rng.sample(POOL, 2 * m)
    seeds = [[[[keys[2 * i], 1]], [[keys[2 * i + 1], rng.randint(1, 2)]], [], [], None, None, None, False] for i in range(m)]
    bridges = []
    for _ in range(rng.randint(2, m + 1)):
        a, b = rng.sample(range(m), 2)
        bridges.append([[[keys[2 * a + rng.randint(0, 1)], 1]], [[keys[2 * b + rng.randint(0, 1)], 1]], [], [], rng.choice([None, 2]), None, None, False])
    rng.shuffle(seeds)
    rng.shuffle(bridges)
    rxns = seeds + bridges
    r = rng.random()
    if r < 0.2:
        rng.shuffle(rxns)
    elif r < 0.3:
        rxns.reverse()
    order = keys + rng.sample([k for k in POOL if k not in keys], rng.randint(0, 2))
    rng.shuffle(order)
    return {'rxns': rxns, 'subs': [[k, [k, None]] for k in order]}


def gen_pred(rng, spec):
    keys = [k for k, _ in spec['subs']] or ['A']
    r = rng.random()
    if r < 0.5:
        p = ['has_key', rng.choice(keys + ['nope'])]
    elif r < 0.7:
        p = ['order_le', rng.randint(0, 4)]
    elif r < 0.85:
        p = ['named']
    else:
        p = ['param_even']
    if rng.random() < 0.25:
        p = ['not', p]
    return p


def gen_checks(rng):
    r = rng.random()
    if r < 0.4:
        return []
    if r < 0.6:
        c = CHECKS[:]
        rng.shuffle(c)
        return c
    return rng.sample(CHECKS, rng.randint(1, 2))


def dyadic(rng):
    r = rng.random()
    if r < 0.15:
        return 0
    if r < 0.7:
        return rng.randint(0, 40)
    q = Fraction(rng.randint(0, 400), 2 ** rng.randint(1, 4))
    return rat_json(q)


def trace_conc(rng):
    """concentrations spread over 1e-30 … 1e3 (and exact zeros): trace species that may carry a whole element"""
    r = rng.random()
    if r < 0.15:
        return 0
    q = Fraction(rng.randint(1, 999), 10 ** rng.randint(0, 30)) if r < 0.8 else Fraction(rng.randint(1, 999))
    return rat_json(q)


class C15(Property):
    pid = 'C15'
    title = ('split() = connected components (partition of reactions, disjoint substance sets, connected groups); '
             'categories per net stoichiometry; equilibria/participation/subset/sum contain exactly the reactions '
             'their definitions say; array<->dict in substance order; upper bound = min(total/atoms) and valid')
    props_module = 'ChemModel.Props.C15'
    build_modules = ('ChemModel.Model.RSysGraph', 'ChemModel.Basic.Proto')
    driver = 'ChemModel/Driver/C15.lean'
    n_quick, n_thorough = 1200, 24000
    clauses_without_theorem = (
        '"sequences of add/subset/split" (histories) and "concatenate / + / subset / split leave their operands as built": statements about '
        'Python object identity and mutation, not expressible in the pure model (Proofs.runOp_prefix is true by construction); decided by the '
        'history oracle, which replays every history on plain specs by the definitions and compares EVERY system of the store after every '
        'operation, and by the shared-OrderedDict oracle cases',
        'container type of operands / arguments (list, tuple, deque, ndarray, dict values, generator, filter, map, iter, reversed, chain as right '
        'operand of + / +=, as reaction collection of the constructor, as system collection of concatenate, as value collection of '
        'as_per_substance_dict; dict / OrderedDict / defaultdict and list / tuple / deque / ndarray for as_per_substance_array; predicate '
        'results of subset that are merely truthy): a Python-level notion, the model sees a list (addItems: materialise once, validate, use). '
        'Decided by the oracle: same result, or same ValueError refusal for a non-Reaction item, as for a list of the same items',
        'a QUERY leaves its receiver as it was (categorize_substances with constructor keywords such as missing_substances_from_keys / '
        'sort_substances; reactions, substances, their order, the dict the system was built on): object state, oracle only — standalone op '
        'categorize_kw and the `query` operation inside histories (every system of the store is compared with its spec after every operation)',
        'upper_conc_bounds over concentrations spanning 1e-30 … 1e3 (trace species carrying a whole element): exact Fraction reference, the real '
        'double sums are compared to 1e-12 relative (same-sign terms); for dyadic inputs the comparison is exact',
        'subset with an ARBITRARY (stateful) predicate: the pure model takes the list of answers (subsetAnswers); that the predicate is '
        'consulted exactly once per reaction, in order, is a statement about calls: oracle only (call log)',
        'per_substance_varied: varied_spec covers success, varied keys, number of rows and the content of every row; the ORDER of the rows '
        '(C order, first varied substance slowest) is the definition of variedRows and is decided by the exact correspondence with numpy',
        'upper_conc_bounds with the default float64 dtype: driven by the correspondence only for compositions without a zero atom count '
        '(there the model = exact arithmetic = dtype=object path raises ZeroDivisionError while float64 returns inf/nan with a RuntimeWarning: '
        'outside the model); theorems are stated for the exact (Rat) computation; float rounding of sums is not modelled (inputs are dyadic)',
        '__eq__ of systems / reactions: definitional (Proofs: RSys.pyEq_spec, Rxn.pyEq_iff, listPyEq_refl), tied by correspondence + oracle',
        'non-default skip_keys of upper_conc_bounds, zero stoichiometric coefficients, a bare string as substances: outside the quantifier; the '
        'model mirrors the code and witness theorems document the behaviour',
        'constructor with the DEFAULT checks: modelled as "some requested check raised" (the set is hash-ordered, so WHICH one is not defined); '
        'check_balance is outside the model and always in dont_check. missing_substances_from_keys appends in set (hash) order: modelled and '
        'generated only where the order cannot be observed (sorting applies afterwards, or at most one key is missing)',
        'Equilibrium.as_reactions(kf=.. | kb=.. | units=..): oracle only (structure of the forward/backward pair, names, kf = kb*K*c0**(nb-nf) '
        'numerically); the model and as_reactions_spec cover the argument-less call that categorize_substances uses; rate arithmetic is C11',
        'as_per_substance_array(..., unit=u) (to_unitless plumbing): oracle only (values in substance order in that unit); units are C09/C10',
        'Reaction == non-Reaction object (NotImplemented -> False): oracle only',
        'negative stoichiometric coefficients: only the refusal of categorize_substances is modelled (categorizeSigned, plain reactions, '
        'checks=()); negative coefficients whose totals are all non-negative, or together with equilibria / requested checks, are not generated',
        'decompose_yields (anchor chempy/util/stoich.py): not modelled (least squares is external)',
    )
    rule = ('random reaction graphs with 0..12 substances / 0..12 reactions drawn from 1..4 planted clusters (plus cross-cluster '
            'reactions, isolated species, catalysts, inactive reactants/products, zero coefficients, empty reactions, duplicated and '
            'reversed reactions, unknown keys), permuted reaction orders, predicate subsets, sums, concatenations and histories of '
            'add/iadd/subset/split/concatenate; compositions over 6 elements incl. charge-only / empty / zero-count ones with integer '
            'and dyadic concentrations. A case is non-trivial when it is a distinct JSON value with at least one reaction or substance.')
    assumptions = (
        'members are Reaction or Equilibrium objects without units; an equilibrium parameter is None, an int or a pair of ints',
        'Python sets are modelled as lists up to membership; OrderedDicts as association lists with unique keys',
        'check_balance (C05) and missing_substances_from_keys are outside the model; constructor checks are passed as explicit tuples '
        '(the default is a Python set whose iteration order is hash-randomised)',
        'upper_conc_bounds is driven with dtype=object and integer/dyadic concentrations so that float arithmetic is exact; '
        'the final division is compared as correctly rounded double of the exact rational',
        'substance attrs other than name/composition are None/{}',
    )
    anchors = [('chempy/reactionsystem.py', 'ReactionSystem.__init__'), ('chempy/reactionsystem.py', 'ReactionSystem.split'),
               ('chempy/reactionsystem.py', 'ReactionSystem.categorize_substances'),
               ('chempy/reactionsystem.py', 'ReactionSystem._stoichs'),
               ('chempy/reactionsystem.py', 'ReactionSystem.sort_substances_inplace'),
               ('chempy/reactionsystem.py', 'ReactionSystem.check_duplicate'),
               ('chempy/reactionsystem.py', 'ReactionSystem.check_duplicate_names'),
               ('chempy/reactionsystem.py', 'ReactionSystem.check_substance_keys'),
               ('chempy/reactionsystem.py', 'ReactionSystem.subset'), ('chempy/reactionsystem.py', 'ReactionSystem.concatenate'),
               ('chempy/reactionsystem.py', 'ReactionSystem.__iadd__'), ('chempy/reactionsystem.py', 'ReactionSystem.__add__'),
               ('chempy/reactionsystem.py', 'ReactionSystem.__eq__'),
               ('chempy/reactionsystem.py', 'ReactionSystem.substance_participation'),
               ('chempy/reactionsystem.py', 'ReactionSystem.as_per_substance_array'),
               ('chempy/reactionsystem.py', 'ReactionSystem.as_per_substance_dict'),
               ('chempy/reactionsystem.py', 'ReactionSystem.as_substance_index'),
               ('chempy/reactionsystem.py', 'ReactionSystem.per_substance_varied'),
               ('chempy/reactionsystem.py', 'ReactionSystem.per_reaction_effect_on_substance'),
               ('chempy/reactionsystem.py', 'ReactionSystem.upper_conc_bounds'),
               ('chempy/reactionsystem.py', 'ReactionSystem.identify_equilibria'),
               ('chempy/chemistry.py', 'Reaction.__eq__'), ('chempy/chemistry.py', 'Reaction.keys'),
               ('chempy/chemistry.py', 'Reaction.net_stoich'), ('chempy/chemistry.py', 'Reaction.all_reac_stoich'),
               ('chempy/chemistry.py', 'Reaction.all_prod_stoich'), ('chempy/chemistry.py', 'Reaction._init_stoich'),
               ('chempy/chemistry.py', 'Substance.__eq__'), ('chempy/chemistry.py', 'Equilibrium.as_reactions'),
               ('chempy/chemistry.py', 'Reaction.check_any_effect')]

    # ---------------------------------------------------------------- generation
    def generate(self, rng, n, tier):
        cases = []
        kinds = (['split'] * 24 + ['categorize'] * 12 + ['identify_equilibria'] * 8 + ['participation'] * 5 + ['effect'] * 5
                 + ['subset'] * 8 + ['add'] * 4 + ['add_rxns'] * 1 + ['iadd'] * 3 + ['iadd_rxns'] * 1 + ['eq'] * 3 + ['concatenate'] * 3
                 + ['make'] * 12 + ['as_reactions'] * 4 + ['check'] * 3 + ['any_effect'] * 2 + ['rxn_eq'] * 3
                 + ['categorize_signed'] * 3 + ['categorize_kw'] * 5 + ['subset_stateful'] * 5 + ['array_units'] * 1 + ['as_reactions_args'] * 2 + ['array_from_dict'] * 3 + ['array_from_list'] * 2 + ['dict_from_array'] * 2
                 + ['substance_index'] * 2 + ['varied'] * 2 + ['upper_bounds'] * 10 + ['history'] * 7)
        for _ in range(n):
            cases.append(self.gen_case(rng, rng.choice(kinds)))
        for _ in range(max(2, n // 60)):                     # oracle-only: systems SHARING one substances OrderedDict
            pool = rng.sample(POOL, 7)
            a = gen_sys(rng, 6, 4, pool=pool, unknown_p=0, comps=False)
            a2 = gen_sys(rng, 6, 4, pool=pool, unknown_p=0, comps=False)
            have = [k for k, _ in a['subs']]
            for k, v in a2['subs']:
                if k not in have:
                    a['subs'].append([k, v])
                    have.append(k)
            others = [gen_sys(rng, 6, 4, pool=rng.sample(POOL, 7), unknown_p=0, comps=False) for _ in range(rng.randint(1, 2))]
            cases.append({'oracle_only': 'concat_shared', 'subs': a['subs'], 'rxns_a': a['rxns'], 'rxns_a2': a2['rxns'],
                          'others': others, 'pred': gen_pred(rng, a)})
        return cases

    def gen_case(self, rng, kind):
        if kind == 'split':
            spec = gen_bridged_sys(rng) if rng.random() < 0.35 else gen_sys(rng)
            perm = list(range(len(spec['rxns'])))
            rng.shuffle(perm)
            return {'op': 'split', 'sys': spec, 'checks': gen_checks(rng) if rng.random() < 0.3 else [], 'perm': perm}
        if kind == 'categorize':
            return {'op': 'categorize', 'sys': gen_sys(rng, eq_p=rng.choice([0, 0.1, 0.3, 0.6])),
                    'checks': gen_checks(rng) if rng.random() < 0.3 else []}
        if kind == 'check':
            spec = gen_sys(rng, unknown_p=0.2, dup_p=0.15, named_p=0.5)
            return {'op': 'check', 'sys': spec, 'check': rng.choice(CHECKS)}
        if kind == 'any_effect':
            pool = rng.sample(POOL, rng.randint(1, 4))
            rx = gen_rxn(rng, pool)
            if rng.random() < 0.4:
                rx[1], rx[3] = [list(p) for p in rx[0]], [list(p) for p in rx[2]]
                if rx[1] and rng.random() < 0.5:                   # same totals, differently split between active and inactive
                    k, v = rx[1][0]
                    if v >= 2 and all(k != kk for kk, _ in rx[3]):
                        rx[1][0] = [k, v - 1]
                        rx[3] = rx[3] + [[k, 1]]
            return {'op': 'any_effect', 'rxn': rx}
        if kind == 'rxn_eq':
            pool = rng.sample(POOL, rng.randint(1, 4))
            a = gen_equilibrium(rng, pool) if rng.random() < 0.2 else gen_rxn(rng, pool)
            r = rng.random()
            if r < 0.2:
                return {'op': 'rxn_eq', 'a': a, 'b': a, 'other': 'same'}
            if r < 0.35:
                return {'op': 'rxn_eq', 'a': a, 'b': a, 'other': 'nonrxn:' + rng.choice(sorted(BAD_ITEMS))}
            b = json.loads(json.dumps(a))
            m = rng.random()
            if m < 0.2:
                b[5] = 'other-name'
            elif m < 0.35:
                b[7] = not b[7]                                    # the class is not compared
            elif m < 0.5:
                b[4] = 8
            elif m < 0.6 and len(b[0]) > 1:
                b[0].reverse()
            elif m < 0.7 and b[6] is not None:
                b[6] = b[6] + 1
            elif m < 0.85:
                b = gen_rxn(rng, pool)
            return {'op': 'rxn_eq', 'a': a, 'b': b, 'other': 'rxn'}
        if kind == 'categorize_signed':
            spec = gen_sys(rng, 8, 6, unknown_p=0, dup_p=0, eq_p=0, named_p=0)
            keys = [k for k, _ in spec['subs']]
            if spec['rxns'] and keys and rng.random() < 0.8:
                rx = rng.choice(spec['rxns'])
                side = rng.choice([0, 1, 2, 3])
                have = [k for k, _ in rx[side]]
                free = [k for k in keys if k not in have and all(k != kk for kk, _ in rx[(side + 2) % 4])]
                if free:
                    # a negative coefficient whose total over (active + inactive) of that side is negative too
                    rx[side].append([rng.choice(free), -rng.randint(1, 3)])
            return {'op': 'categorize_signed', 'rxns': spec['rxns'], 'subs': spec['subs'], 'checks': []}
        if kind == 'as_reactions_args':
            pool = rng.sample(POOL, rng.randint(2, 5))
            rx = gen_equilibrium(rng, pool, 0.5)
            rx[4], rx[6] = rng.randint(1, 9), None               # a scalar equilibrium constant K
            if not any(s_net(rx, k) != 0 for k in s_keys(rx)):
                rx[1] = rx[1] + [[pool[0], 1]] if all(k != pool[0] for k, _ in rx[1]) else rx[1]
            return {'oracle_only': 'as_reactions_args', 'rxn': rx, 'mode': rng.choice(['kf', 'kb', 'both', 'kf_units', 'kf_units_missing']),
                    'k': rng.randint(1, 12), 'new_name': rng.choice([None, 'back'])}
        if kind == 'array_units':
            spec = gen_sys(rng, max_r=2, comps=False)
            return {'oracle_only': 'array_units', 'sys': spec, 'vals': [rng.randint(0, 40) for _ in spec['subs']],
                    'as_dict': rng.random() < 0.5}
        if kind == 'categorize_kw':
            spec = gen_sys(rng, 8, 6, unknown_p=0.3, eq_p=rng.choice([0, 0.2]))
            used = [k for k, _ in spec['subs'] if any(k in s_keys(rx) for rx in spec['rxns'])]
            for k in rng.sample(used, min(len(used), rng.randint(0, 3))):       # substances the reactions need but the system lacks
                spec['subs'] = [e for e in spec['subs'] if e[0] != k]
            return {'op': 'categorize_kw', 'sys': spec, 'checks': gen_checks(rng) if rng.random() < 0.4 else [],
                    'missing': rng.random() < 0.7, 'sort': rng.choice([None, True, False])}
        if kind == 'subset_stateful':
            spec = gen_sys(rng, dup_p=0.3)
            k = rng.choice(['first_occurrence', 'counter', 'iterator'])
            return {'op': 'subset_answers', 'sys': spec, 'checks': [], 'pred_state': k,
                    'data': [rng.random() < 0.5 for _ in spec['rxns']]}
        if kind == 'as_reactions':
            pool = rng.sample(POOL, rng.randint(1, 5))
            rx = gen_equilibrium(rng, pool, 0.4)
            return {'op': 'as_reactions', 'rxn': rx, 'subs': [[k, [k, None]] for k in pool]}
        if kind == 'identify_equilibria':
            return {'op': 'identify_equilibria', 'sys': gen_sys(rng, rev_p=0.35, dup_p=0.1)}
        if kind in ('participation', 'effect', 'substance_index'):
            spec = gen_sys(rng)
            keys = [k for k, _ in spec['subs']] + ['X?', 'nope']
            if kind == 'substance_index' and rng.random() < 0.25:
                return {'op': kind, 'sys': spec, 'key': rng.randint(-2, 14)}      # an int is returned as it is
            return {'op': kind, 'sys': spec, 'key': rng.choice(keys)}
        if kind == 'subset':
            spec = gen_sys(rng)
            return {'op': 'subset', 'sys': spec, 'pred': gen_pred(rng, spec), 'checks': gen_checks(rng) if rng.random() < 0.3 else [],
                    'pred_ret': rng.choice(['bool', 'bool', 'int', 'obj'])}
        if kind in ('add', 'iadd', 'eq'):
            pool = rng.sample(POOL, 8)
            a = gen_sys(rng, 7, 6, pool=pool)
            r = rng.random()
            if kind == 'eq' and r < 0.5:
                b = json.loads(json.dumps(a))
                m = rng.random()
                if m < 0.25 and b['rxns']:
                    b['rxns'][rng.randrange(len(b['rxns']))][5] = 'other'          # names are not compared
                elif m < 0.45 and len(b['subs']) > 1:
                    b['subs'].reverse()                                            # order of substances is
                elif m < 0.6 and len(b['rxns']) > 1:
                    b['rxns'].reverse()
                elif m < 0.7 and b['rxns'] and len(b['rxns'][0][0]) > 1:
                    b['rxns'][0][0].reverse()                                      # OrderedDict order inside a reaction is
                elif m < 0.8 and b['subs']:
                    b['subs'][0][1][1] = [[1, 1]]
            elif r < 0.1:
                b = a
            else:
                b = gen_sys(rng, 7, 6, pool=pool)
            c = {'op': kind, 'a': a, 'b': b}
            if kind == 'eq' and rng.random() < 0.15:
                c['b'] = a
                c['same_object'] = True                            # `self is other`
            return c
        if kind in ('add_rxns', 'iadd_rxns'):
            a = gen_sys(rng, 7, 6)
            pool = [k for k, _ in a['subs']] + ['X?']
            rxns = [gen_rxn(rng, pool) for _ in range(rng.randint(0, 3))]
            bad = rng.random() < 0.15
            return {'op': kind, 'a': a, 'rxns': rxns, 'container': gen_container(rng),
                    'bad_at': rng.randint(0, len(rxns)) if bad else None, 'bad_item': rng.choice(sorted(BAD_ITEMS))}
        if kind == 'concatenate':
            pool = rng.sample(POOL, 6)
            base = gen_sys(rng, 6, 5, pool=pool, unknown_p=0)
            systems = [base]
            for _ in range(rng.randint(0, 3)):
                s = gen_sys(rng, 6, 5, pool=pool, unknown_p=0)
                earlier = [r for t in systems for r in t['rxns']]                   # of the first OR of an intermediate system
                if earlier and rng.random() < 0.7:                                 # plant stoichiometric duplicates
                    src = rng.choice(earlier if rng.random() < 0.7 else (base['rxns'] or earlier))
                    s['rxns'].insert(rng.randint(0, len(s['rxns'])),
                                     [list(map(list, p)) for p in src[:4]] + [rng.choice([None, 5]), None, None, False])
                    have = [k for k, _ in s['subs']]
                    for k in s_keys(src):
                        if k not in have:
                            s['subs'].append([k, [k, None]])
                            have.append(k)
                systems.append(s)
            if rng.random() < 0.03:
                systems = []
            return {'op': 'concatenate', 'systems': systems, 'container': gen_container(rng)}
        if kind == 'make':
            spec = gen_sys(rng, unknown_p=0.15, dup_p=0.12, named_p=0.5)
            keys = [k for k, _ in spec['subs']]
            r = rng.random()
            if r < 0.25:
                arg = None
            elif r < 0.45:
                l = keys + ([rng.choice(keys)] if keys and rng.random() < 0.3 else [])
                arg = ['names', l]
            elif r < 0.6:
                arg = ['set', keys]
            elif r < 0.75:
                m = rng.random()
                if m < 0.6:
                    s = rng.choice([' ', '  ', ' \t']).join(keys) + (' ' if len(keys) == 1 else '')
                elif m < 0.8:
                    s = rng.choice(keys) if keys else ''
                else:
                    s = ''.join(rng.choice('ABCDab') for _ in range(rng.randint(0, 4)))
                arg = ['str', s]
            elif r < 0.88:
                l = [[k, gen_comp(rng) if rng.random() < 0.5 else None] for k in keys]
                if l and rng.random() < 0.3:
                    l.append([l[0][0], [[1, 1]]])
                arg = ['substs', l]
            else:
                arg = ['odict', spec['subs']]
            if arg is not None and arg[0] == 'odict' and rng.random() < 0.5:
                arg = ['dict', spec['subs']]                       # a plain dict key -> Substance: sorted by default
            unordered = arg is None or arg[0] in ('set',)
            c = {'op': 'make', 'rxns': spec['rxns'], 'substances': arg, 'checks': gen_checks(rng), 'container': gen_container(rng),
                 # sort_substances=False with a set / None would expose the hash-randomised set order
                 'sort': rng.choice([None, None, None, True, False] if not unordered else [None, None, True]),
                 'dont_check': None, 'missing': False}
            r = rng.random()
            if r < 0.08:                                           # both given -> refused
                c['dont_check'] = ['balance'] + rng.sample(CHECKS, rng.randint(0, 2))
            elif r < 0.25:                                         # the default checks minus dont_check (balance is outside the model)
                c['checks'] = None
                c['dont_check'] = ['balance'] + rng.sample(CHECKS, rng.randint(0, 3))
            if rng.random() < 0.2 and arg is not None and arg[0] in ('names', 'substs', 'odict', 'dict', 'set'):
                # missing_substances_from_keys: drop some substances the reactions need. The added keys come in set (hash) order,
                # so either sorting applies afterwards or at most one key is missing
                used = [k for k in keys if any(k in s_keys(rx) for rx in spec['rxns'])]
                will_sort = c['sort'] if c['sort'] is not None else arg[0] in ('set', 'dict')
                drop = rng.sample(used, min(len(used), rng.randint(1, 3) if will_sort else 1)) if used else []
                unknown = [k for rx in spec['rxns'] for k in s_keys(rx) if k not in keys]
                if will_sort or len(set(unknown)) + len(drop) <= 1:
                    if arg[0] in ('names', 'set'):
                        arg[1] = [k for k in arg[1] if k not in drop]
                    else:
                        arg[1] = [e for e in arg[1] if e[0] not in drop]
                    c['missing'] = True
            return c
        if kind in ('array_from_dict', 'array_from_list', 'dict_from_array', 'varied'):
            spec = gen_sys(rng, max_r=3)
            keys = [k for k, _ in spec['subs']]
            if kind == 'array_from_dict':
                ks = keys[:]
                rng.shuffle(ks)
                if ks and rng.random() < 0.2:
                    ks.pop()
                if rng.random() < 0.3:
                    ks.append('extra')
                return {'op': kind, 'sys': spec, 'cont': [[k, dyadic(rng)] for k in ks], 'raise_on_unk': rng.random() < 0.5,
                        'dict_kind': rng.choice(['OrderedDict', 'dict', 'defaultdict'])}
            if kind == 'array_from_list':
                n = len(keys) if rng.random() < 0.75 else rng.randint(0, 13)
                return {'op': kind, 'sys': spec, 'cont': [dyadic(rng) for _ in range(n)], 'container': rng.choice(['list', 'tuple', 'ndarray', 'deque'])}
            if kind == 'dict_from_array':
                n = len(keys) if rng.random() < 0.75 else rng.randint(0, 13)
                return {'op': kind, 'sys': spec, 'arr': [dyadic(rng) for _ in range(n)], 'container': gen_container(rng)}
            vk = rng.sample(keys, min(len(keys), rng.randint(0, 3)))
            if rng.random() < 0.1:
                vk.append('nope')
            n = len(keys) if rng.random() < 0.9 else rng.randint(0, 13)
            return {'op': 'varied', 'sys': spec, 'base': [rng.randint(0, 50) for _ in range(n)],
                    'varied': [[k, [rng.randint(0, 50) for _ in range(rng.randint(0, 3))]] for k in vk]}
        if kind == 'upper_bounds':
            spec = gen_sys(rng, max_r=3, comps=True)
            if rng.random() < 0.06 and spec['subs']:
                spec['subs'][rng.randrange(len(spec['subs']))][1][1] = None
            n = len(spec['subs']) if rng.random() < 0.93 else rng.randint(0, 13)
            skip = [0] if rng.random() < 0.85 else rng.choice([[], [0, 1], [8], [0, 6, 7]])
            trace = rng.random() < 0.45
            c = {'op': 'upper_bounds', 'sys': spec, 'init': [(trace_conc if trace else dyadic)(rng) for _ in range(n)], 'skip': skip,
                 'state_seed': rng.randint(0, 10 ** 9)}
            if trace:
                # decimal magnitudes are not exact doubles: the real sums carry rounding errors of a few ulp (all terms of an element
                # total have the same sign for non-negative atom counts), so the exact reference is compared to 1e-12 relative
                c['tol'] = 1e-12
            zero = any(v == 0 and k != 0 for _, sb in spec['subs'] for k, v in (sb[1] or []))
            if not zero and rng.random() < 0.4:
                # the DEFAULT call (dtype=float64). Only without a zero atom count: there numpy returns inf/nan + RuntimeWarning
                # where exact arithmetic (the model, dtype=object) raises ZeroDivisionError — outside the model, see notes
                c['dtype'] = 'float'
            return c
        if kind == 'history':
            pool = rng.sample(POOL, 8)
            store = [gen_sys(rng, 7, 5, pool=pool, unknown_p=0) for _ in range(rng.randint(1, 3))]
            if rng.random() < 0.3:
                store[0] = gen_bridged_sys(rng)
            sizes = [len(s['rxns']) for s in store]
            ops = []
            n_store = len(store)
            for _ in range(rng.randint(2, 7)):
                r = rng.random()
                i = rng.randrange(n_store)
                if r < 0.25:
                    ops.append(['add', i, rng.randrange(n_store)])
                    n_store += 1
                elif r < 0.4:
                    ops.append(['iadd', i, rng.randrange(n_store)])
                elif r < 0.65:
                    ops.append(['subset', i, gen_pred(rng, store[0])])
                    n_store += 2
                elif r < 0.8:
                    ops.append(['split', i])
                    n_store += 0          # unknown growth: later indices stay within the known prefix
                elif r < 0.9:             # a QUERY with constructor keywords: must leave the receiver as it is
                    ops.append(['query', i, rng.random() < 0.7, rng.choice([None, True, False])])
                else:
                    idx = rng.sample(range(n_store), min(n_store, rng.randint(1, 3)))
                    ops.append(['concat', idx])
                    n_store += 1 if len(idx) == 1 else 2
            if rng.random() < 0.05:
                ops.append(['add', 0, 99])
            return {'op': 'history', 'store': store, 'ops': ops}
        raise ValueError(kind)

    def model_case(self, c):
        if not c.get('op'):
            return None
        if c['op'] == 'array_from_dict' and c.get('dict_kind') == 'defaultdict':
            return dict(c, default=-77)
        if c['op'] == 'subset_answers':
            f, _ = stateful_pred(c['pred_state'], c['data'])
            return dict(c, answers=[bool(f(rx)) for rx in c['sys']['rxns']])     # consulted once per reaction, in order
        if c['op'] == 'rxn_eq' and c.get('other', '').startswith('nonrxn'):
            return None                       # comparison with a non-Reaction object: oracle only
        return c

    # ---------------------------------------------------------------- real code
    def impl(self, c):
        from chempy import ReactionSystem
        import numpy as np
        op = c['op']
        try:
            if op == 'make':
                rxns = wrap([mk_rxn(r) for r in c['rxns']], c.get('container'))
                a = c['substances']
                if a is None:
                    arg = None
                elif a[0] == 'names':
                    arg = list(a[1])
                elif a[0] == 'set':
                    arg = set(a[1])
                elif a[0] == 'str':
                    arg = a[1]
                elif a[0] == 'substs':
                    arg = [mk_subst(s) for s in a[1]]
                elif a[0] == 'dict':
                    arg = dict((k, mk_subst(s)) for k, s in a[1])
                else:
                    arg = OrderedDict((k, mk_subst(s)) for k, s in a[1])
                try:
                    rs = ReactionSystem(rxns, arg, checks=None if c['checks'] is None else tuple(c['checks']),
                                        dont_check=None if c.get('dont_check') is None else set(c['dont_check']),
                                        sort_substances=c['sort'], missing_substances_from_keys=bool(c.get('missing')))
                except ValueError as e:
                    if str(e).startswith('Cannot specify both checks and dont_check'):
                        return 'ValueError:both'
                    r = check_err(e)
                    # default checks: a hash-ordered set decides WHICH failing check raises
                    return 'ValueError:some-check' if c['checks'] is None and r.split(':')[1] in CHECKS else r
                return dumps(show_sys(rs))
            if op == 'check':
                rs, _ = mk_sys(c['sys'])
                return 'true' if getattr(rs, 'check_' + c['check'])() else 'false'
            if op == 'any_effect':
                return 'true' if mk_rxn(c['rxn']).check_any_effect() else 'false'
            if op == 'rxn_eq':
                a = mk_rxn(c['a'])
                b = a if c['other'] == 'same' else mk_rxn(c['b'])
                return 'true' if a == b else 'false'
            if op == 'categorize_kw':
                rs, _ = mk_sys(c['sys'])
                try:
                    cat = rs.categorize_substances(checks=tuple(c['checks']), missing_substances_from_keys=c['missing'],
                                                   sort_substances=c['sort'])
                except ValueError as e:
                    return check_err(e)
                return dumps([sorted(cat[nm]) for nm in ('accumulated', 'depleted', 'unaffected', 'nonparticipating')] + [show_sys(rs)])
            if op == 'categorize_signed':
                rs, _ = mk_sys({'rxns': c['rxns'], 'subs': c['subs']})
                try:
                    cat = rs.categorize_substances(checks=tuple(c['checks']))
                except ValueError as e:
                    return 'ValueError:negative' if str(e).startswith('Expected positive stoichiometric') else check_err(e)
                keys = list(rs.substances)
                return dumps([[k for k in keys if k in cat[nm]] for nm in ('accumulated', 'depleted', 'unaffected', 'nonparticipating')])
            if op == 'split':
                rs, rxns = mk_sys(c['sys'])
                ids = {id(r): i for i, r in enumerate(rxns)}
                try:
                    parts = rs.split(checks=tuple(c['checks']))
                except ValueError as e:
                    return check_err(e)
                return dumps([[[ids[id(r)] for r in p.rxns], show_sys(p)] for p in parts])
            if op == 'categorize':
                rs, _ = mk_sys(c['sys'])
                try:
                    cat = rs.categorize_substances(checks=tuple(c['checks']))
                except ValueError as e:
                    return check_err(e)
                keys = list(rs.substances)
                return dumps([[k for k in keys if k in cat[nm]] for nm in ('accumulated', 'depleted', 'unaffected', 'nonparticipating')])
            if op == 'as_reactions':
                try:
                    f, b = mk_rxn(c['rxn']).as_reactions()
                except ValueError as e:
                    return check_err(e)
                return dumps([show_rxn(f), show_rxn(b)])
            if op == 'identify_equilibria':
                rs, _ = mk_sys(c['sys'])
                return dumps([list(p) for p in rs.identify_equilibria()])
            if op == 'participation':
                rs, _ = mk_sys(c['sys'])
                return dumps(rs.substance_participation(c['key']))
            if op == 'effect':
                rs, _ = mk_sys(c['sys'])
                return dumps([[int(k), int(v)] for k, v in rs.per_reaction_effect_on_substance(c['key']).items()])
            if op == 'subset':
                rs, _ = mk_sys(c['sys'])
                try:
                    y, n = rs.subset(mk_pred(c['pred'], c.get('pred_ret', 'bool')), checks=tuple(c['checks']))
                except ValueError as e:
                    return check_err(e)
                return dumps([show_sys(y), show_sys(n)])
            if op == 'subset_answers':
                rs, _ = mk_sys(c['sys'])
                f, _ = stateful_pred(c['pred_state'], c['data'])
                y, n = rs.subset(lambda r: f(show_rxn(r)), checks=tuple(c['checks']))
                return dumps([show_sys(y), show_sys(n)])
            if op in ('add', 'iadd', 'eq'):
                a, _ = mk_sys(c['a'])
                b = mk_sys(c['b'])[0]
                if op == 'add':
                    return dumps(show_sys(a + b))
                if op == 'iadd':
                    a0 = a
                    a += b
                    assert a is a0
                    return dumps(show_sys(a))
                if c.get('same_object'):
                    b = a
                return 'true' if a == b else 'false'
            if op in ('add_rxns', 'iadd_rxns'):
                a, _ = mk_sys(c['a'])
                l = self._operand(c)
                try:
                    if op == 'add_rxns':
                        return dumps(show_sys(a + l))
                    a += l
                except ValueError as e:
                    return 'ValueError' if str(e).startswith('Need an iterable of Reaction') else check_err(e)
                return dumps(show_sys(a))
            if op == 'concatenate':
                systems = [mk_sys(s)[0] for s in c['systems']]
                try:
                    a, b = ReactionSystem.concatenate(wrap(systems, c.get('container')))
                except StopIteration:
                    return 'StopIteration'
                return dumps([show_sys(a), show_sys(b)])
            if op == 'array_from_dict':
                rs, _ = mk_sys(c['sys'])
                d = self._dict(c)
                return show_rat_list(list(rs.as_per_substance_array(d, dtype=object, raise_on_unk=c['raise_on_unk'])))
            if op == 'array_from_list':
                rs, _ = mk_sys(c['sys'])
                return show_rat_list(list(rs.as_per_substance_array(wrap([frac(v) for v in c['cont']], c.get('container')), dtype=object)))
            if op == 'dict_from_array':
                rs, _ = mk_sys(c['sys'])
                d = rs.as_per_substance_dict(wrap([frac(v) for v in c['arr']], c.get('container')))
                return dumps([[k, show_rat(v)] for k, v in d.items()])
            if op == 'substance_index':
                rs, _ = mk_sys(c['sys'])
                return str(rs.as_substance_index(c['key']))
            if op == 'varied':
                rs, _ = mk_sys(c['sys'])
                arr, keys = rs.per_substance_varied(list(c['base']), OrderedDict((k, v) for k, v in c['varied']))
                nrows = 1
                for d in arr.shape[:-1]:
                    nrows *= d
                rows = arr.reshape(nrows, rs.ns)
                return '[' + ','.join(show_rat_list([Fraction(float(x)) for x in row]) for row in rows) + ']' + dumps(list(keys))
            if op == 'upper_bounds':
                rs, _ = mk_sys(c['sys'])
                if c.get('dtype') == 'float':          # the default call
                    b = rs.upper_conc_bounds([float(frac(v)) for v in c['init']], skip_keys=tuple(c['skip']))
                else:
                    b = rs.upper_conc_bounds([frac(v) for v in c['init']], dtype=object, skip_keys=tuple(c['skip']))
                return dumps([repr(float(x)) for x in b])
            if op == 'history':
                store = [mk_sys(s)[0] for s in c['store']]
                for o in c['ops']:
                    if o[0] == 'add':
                        store.append(store[o[1]] + store[o[2]])
                    elif o[0] == 'iadd':
                        s = store[o[1]]
                        s += store[o[2]]
                        store[o[1]] = s
                    elif o[0] == 'subset':
                        store.extend(store[o[1]].subset(mk_pred(o[2])))
                    elif o[0] == 'split':
                        store.extend(store[o[1]].split(checks=()))
                    elif o[0] == 'query':
                        try:
                            store[o[1]].categorize_substances(checks=(), missing_substances_from_keys=o[2], sort_substances=o[3])
                        except (ValueError, TypeError):
                            pass
                    elif o[0] == 'concat':
                        a, b = ReactionSystem.concatenate([store[k] for k in o[1]])
                        if len(o[1]) != 1:                  # a one-element list returns store[o[1][0]] itself
                            store.append(a)
                        store.append(b)
                return dumps([show_sys(s) for s in store])
        except Exception as e:
            return exc_name(e)
        return '!unknown-op'

    def _operand(self, c):
        """right operand of + / +=: the reactions (with an optional non-Reaction item) in the case's container type"""
        items = [mk_rxn(r) for r in c['rxns']]
        if c.get('bad_at') is not None:
            items.insert(c['bad_at'], BAD_ITEMS[c.get('bad_item', 'str')])
        return wrap(items, c.get('container'))

    def _dict(self, c):
        import collections
        items = [(k, frac(v)) for k, v in c['cont']]
        kind = c.get('dict_kind', 'OrderedDict')
        if kind == 'dict':
            return dict(items)
        if kind == 'defaultdict':
            d = collections.defaultdict(lambda: Fraction(-77))   # a missing key is CREATED, not refused (documented use in upper_conc_bounds)
            d.update(items)
            return d
        return OrderedDict(items)

    def same(self, c, io, mo):
        op = c['op']
        if op == 'upper_bounds':
            if not (io.startswith('[') and mo.startswith('[')):
                return io == mo
            a = [float(x) for x in json.loads(io)]
            inner = mo.strip()[1:-1]
            b = [] if not inner else [float('inf') if x == 'inf' else float(Fraction(x)) for x in inner.split(',')]
            tol = c.get('tol')
            if tol:
                return len(a) == len(b) and all(x == y or abs(x - y) <= tol * abs(y) for x, y in zip(a, b))
            return a == b
        return io == mo

    # ---------------------------------------------------------------- the property on the real code
    def oracle(self, c):
        from chempy import ReactionSystem
        if c.get('oracle_only') == 'concat_shared':
            return self._oracle_concat_shared(c)
        if c.get('oracle_only') == 'array_units':
            return self._oracle_array_units(c)
        if c.get('oracle_only') == 'as_reactions_args':
            return self._oracle_as_reactions_args(c)
        op = c['op']
        if c.get('container') not in (None, 'list'):
            # the container type of an operand / argument must not matter: same result (or same refusal) as for a list
            as_list = dict(c, container='list')
            got, ref = self.impl(c), self.impl(as_list)
            if got != ref:
                return '%s with a %s gives %s, with a list of the same items %s' % (op, c['container'], got[:160], ref[:160])
        if op == 'split':
            return self._oracle_split(c)
        if op == 'categorize':
            spec = c['sys']
            keys = [k for k, _ in spec['subs']]
            irrev = s_expand(spec['rxns'])      # equilibria -> forward + backward (own definition), None: cannot be expanded
            bad = failing_checks(irrev, keys) & set(c['checks']) if irrev is not None else set()
            rs, _ = mk_sys(spec)
            try:
                cat = rs.categorize_substances(checks=tuple(c['checks']))
            except ValueError as e:
                if irrev is None:
                    return None                 # an equilibrium without (kf, kb) or without net effect
                return None if bad else 'categorize_substances raised %s on a system passing the requested checks' % e
            except IndexError:
                # before the fix "stoichiometry matrices of a system without reactions are two-dimensional" numpy raised here
                # (net[:, i] on a shape-(0,) array) for a system without reactions
                return 'categorize_substances raised IndexError (%d reactions, %d substances)' % (len(spec['rxns']), len(keys))
            if irrev is None:
                return 'categorize_substances answered for a system with an equilibrium that cannot be split into two reactions'
            if bad:
                return 'categorize_substances accepted a system failing ' + ','.join(sorted(bad))
            for k in keys:
                nets = [s_net(rx, k) for rx in irrev]
                pos, neg = any(n > 0 for n in nets), any(n < 0 for n in nets)
                present = any(s_all_reac(rx, k) > 0 or s_all_prod(rx, k) > 0 for rx in irrev)
                want = ('accumulated' if pos and not neg else 'depleted' if neg and not pos else None if pos and neg
                        else 'unaffected' if present else 'nonparticipating')
                got = [nm for nm in cat if k in cat[nm]]
                if got != ([want] if want else []):
                    return 'substance %s categorised %s, definition says %s (net effects %s)' % (k, got, want, nets)
                if got and any(rx[7] and s_net(rx, k) != 0 for rx in spec['rxns']):
                    return 'substance %s is %s although an equilibrium of the system both produces and consumes it' % (k, got)
            extra = set().union(*cat.values()) - set(keys)
            if extra:
                return 'categories contain unknown keys %s' % sorted(extra)
            return None
        if op == 'as_reactions':
            return self._oracle_as_reactions(c)
        if op == 'check':
            spec = c['sys']
            want = c['check'] not in failing_checks(spec['rxns'], [k for k, _ in spec['subs']])
            rs, _ = mk_sys(spec)
            got = getattr(rs, 'check_' + c['check'])()
            if got is not want:
                return 'check_%s() = %r, by its definition %r' % (c['check'], got, want)
            try:
                getattr(rs, 'check_' + c['check'])(throw=True)
            except ValueError:
                return None if not want else 'check_%s(throw=True) raised although the check holds' % c['check']
            return None if want else 'check_%s(throw=True) did not raise' % c['check']
        if op == 'any_effect':
            rx = c['rxn']
            want = any(s_net(rx, k) != 0 for k in s_keys(rx))
            got = mk_rxn(rx).check_any_effect()
            return None if got is want else 'check_any_effect() = %r, net stoichiometries %s' % (got, [s_net(rx, k) for k in s_keys(rx)])
        if op == 'rxn_eq':
            a = mk_rxn(c['a'])
            if c['other'] == 'same':
                return None if (a == a) is True and (a != a) is False else 'a reaction is not equal to itself'
            if c['other'].startswith('nonrxn'):
                x = BAD_ITEMS[c['other'].split(':')[1]]
                if (a == x) is not False or (a != x) is not True or (x == a) is not False:
                    return 'a Reaction compares equal to the non-Reaction object %r' % (x,)
                return None
            b = mk_rxn(c['b'])
            want = s_rxn_eq(c['a'], c['b'])
            if (a == b) is not want or (b == a) is not want or (a != b) is want:
                return 'Reaction == gives %r, by definition (four ordered dicts and the parameter) %r' % (a == b, want)
            return None
        if op == 'categorize_kw':
            spec = c['sys']
            od = OrderedDict((k, mk_subst(v)) for k, v in spec['subs'])     # the caller's dict
            rs = ReactionSystem([mk_rxn(r) for r in spec['rxns']], od, checks=())
            irrev = s_expand(spec['rxns'])
            keys = [k for k, _ in spec['subs']]
            allk = keys + sorted(set(k for r in spec['rxns'] for k in s_keys(r)) - set(keys)) if c['missing'] else keys
            try:
                cat = rs.categorize_substances(checks=tuple(c['checks']), missing_substances_from_keys=c['missing'],
                                               sort_substances=c['sort'])
                err = None
            except (ValueError, TypeError) as e:
                cat, err = None, e
            if show_sys(rs) != [spec['rxns'], spec['subs']] or list(od) != keys:
                return ('the query categorize_substances(missing_substances_from_keys=%s, sort_substances=%s) changed its receiver: '
                        'substances %s -> %s (caller\'s dict %s)' % (c['missing'], c['sort'], keys, list(rs.substances), list(od)))
            if irrev is None:
                return None if isinstance(err, ValueError) else 'an equilibrium that cannot be split was accepted'
            if c['missing'] and not irrev:
                return None if isinstance(err, TypeError) else 'missing_substances_from_keys without reactions: %r' % (err,)
            bad = failing_checks(irrev, allk) & set(c['checks'])
            if err is not None:
                return None if bad and isinstance(err, ValueError) else 'categorize_substances raised %r although the requested checks hold' % (err,)
            if bad:
                return 'categorize_substances accepted a system failing ' + ','.join(sorted(bad))
            for k in allk:
                nets = [s_net(rx, k) for rx in irrev]
                pos, neg = any(n > 0 for n in nets), any(n < 0 for n in nets)
                present = any(s_all_reac(rx, k) > 0 or s_all_prod(rx, k) > 0 for rx in irrev)
                want = ('accumulated' if pos and not neg else 'depleted' if neg and not pos else None if pos and neg
                        else 'unaffected' if present else 'nonparticipating')
                got = [nm for nm in cat if k in cat[nm]]
                if got != ([want] if want else []):
                    return 'substance %s categorised %s, definition says %s (net effects %s)' % (k, got, want, nets)
            if set().union(*cat.values()) - set(allk):
                return 'categories contain keys that are neither substances nor reaction keys'
            return None
        if op == 'categorize_signed':
            keys = [k for k, _ in c['subs']]
            neg_tot = any(s_all_reac(rx, k) < 0 or s_all_prod(rx, k) < 0 for rx in c['rxns'] for k in keys)
            neg_any = any(v < 0 for rx in c['rxns'] for part in rx[:4] for _, v in part)
            if not neg_any:
                return self.oracle({'op': 'categorize', 'sys': {'rxns': c['rxns'], 'subs': c['subs']}, 'checks': c['checks']})
            rs, _ = mk_sys({'rxns': c['rxns'], 'subs': c['subs']})
            try:
                rs.categorize_substances(checks=())
            except ValueError as e:
                return None if neg_tot else 'categorize_substances refused (%s) although no total coefficient is negative' % e
            return 'categorize_substances accepted a negative total stoichiometric coefficient' if neg_tot else None
        if op == 'identify_equilibria':
            spec = c['sys']
            keys = [k for k, _ in spec['subs']]
            rx = spec['rxns']

            def rev(a, b):
                return all(s_all_reac(a, k) == s_all_prod(b, k) and s_all_prod(a, k) == s_all_reac(b, k) for k in keys)
            want = []
            for i in range(len(rx)):
                for j in range(i + 1, len(rx)):
                    if rev(rx[i], rx[j]):
                        want.append((i, j))
                        break
            got = mk_sys(spec)[0].identify_equilibria()
            if [tuple(p) for p in got] != want:
                return 'identify_equilibria = %s, forward/backward pairs are %s' % (got, want)
            return None
        if op == 'participation':
            want = [i for i, rx in enumerate(c['sys']['rxns']) if c['key'] in s_keys(rx)]
            got = mk_sys(c['sys'])[0].substance_participation(c['key'])
            return None if got == want else 'substance_participation(%r) = %s, expected %s' % (c['key'], got, want)
        if op == 'effect':
            want = {i: s_net(rx, c['key']) for i, rx in enumerate(c['sys']['rxns']) if s_net(rx, c['key']) != 0}
            got = mk_sys(c['sys'])[0].per_reaction_effect_on_substance(c['key'])
            return None if got == want and list(got) == sorted(got) else 'per_reaction_effect_on_substance(%r) = %s, expected %s' % (c['key'], got, want)
        if op == 'subset':
            return self._oracle_subset(c)
        if op == 'subset_answers':
            spec = c['sys']
            rs, rxns = mk_sys(spec)
            ids = {id(r): i for i, r in enumerate(rxns)}
            f, log = stateful_pred(c['pred_state'], c['data'])
            calls, answers = [], []

            def pred(r):
                calls.append(ids[id(r)])
                a = f(show_rxn(r))
                answers.append(bool(a))
                return a
            try:
                y, n = rs.subset(pred)
            except StopIteration:
                return 'subset consulted the predicate more often than there are reactions (calls %s)' % calls
            if calls != list(range(len(rxns))):
                return 'subset consulted the predicate for reactions %s, expected each reaction once, in order' % calls
            yes_i = [i for i, a in enumerate(answers) if a]
            no_i = [i for i, a in enumerate(answers) if not a]
            if [ids[id(r)] for r in y.rxns] != yes_i or [ids[id(r)] for r in n.rxns] != no_i:
                return 'subset(stateful %s): parts hold reactions %s / %s, the answers %s give %s / %s' % (
                    c['pred_state'], [ids[id(r)] for r in y.rxns], [ids[id(r)] for r in n.rxns], answers, yes_i, no_i)
            keys = [k for k, _ in spec['subs']]
            for part, idx in ((y, yes_i), (n, no_i)):
                if list(part.substances) != [k for k in keys if any(k in s_keys(spec['rxns'][i]) for i in idx)]:
                    return 'subset(stateful): substances of a part'
            return None
        if op in ('add', 'iadd'):
            a, b = c['a'], c['b']
            A, _ = mk_sys(a)
            B = mk_sys(b)[0]
            if op == 'add':
                S = A + B
            else:
                S = A
                S += B
            return self._sum_ok(S, a, b)
        if op in ('add_rxns', 'iadd_rxns'):
            A, _ = mk_sys(c['a'])
            l = self._operand(c)
            kind = c.get('container', 'list')
            try:
                if op == 'add_rxns':
                    S = A + l
                else:
                    S = A
                    S += l
            except ValueError as e:
                if c.get('bad_at') is None:
                    return '%s refused a %s of Reaction instances: %s' % (op, kind, e)
                if show_sys(A) != [c['a']['rxns'], c['a']['subs']]:
                    return 'a refused += left the system modified'
                return None
            if c.get('bad_at') is not None:
                return '%s accepted a %s holding a non-Reaction item (%r)' % (op, kind, c.get('bad_item'))
            if [show_rxn(r) for r in S.rxns] != c['a']['rxns'] + c['rxns']:
                return 'sum with a %s of %d reactions holds %d reactions, expected %d (left operand) + %d' % (
                    kind, len(c['rxns']), S.nr, len(c['a']['rxns']), len(c['rxns']))
            if False:
                return ''
            if [[k, show_subst(s)] for k, s in S.substances.items()] != c['a']['subs']:
                return 'sum with a reaction list changed the substances'
            return None
        if op == 'eq':
            a, b = c['a'], c['b']
            A, _ = mk_sys(a)
            B = A if c.get('same_object') else mk_sys(b)[0]
            want = (len(a['rxns']) == len(b['rxns']) and all(s_rxn_eq(x, y) for x, y in zip(a['rxns'], b['rxns']))
                    and a['subs'] == b['subs'])
            return None if (A == B) == want else '== is %s, definition says %s' % (A == B, want)
        if op == 'concatenate':
            return self._oracle_concat(c)
        if op == 'make':
            return self._oracle_make(c)
        if op in ('array_from_dict', 'array_from_list', 'dict_from_array', 'substance_index', 'varied'):
            return self._oracle_arrays(c)
        if op == 'upper_bounds':
            return self._oracle_bounds(c)
        if op == 'history':
            return self._oracle_history(c)
        return None

    def _oracle_as_reactions_args(self, c):
        """as_reactions(kf=..) / (kb=..) / with units: the same forward/backward STRUCTURE as the argument-less call (the
        backward reaction undoes the forward one, inactive parts included), names as documented, and kf = kb * K * c0**(nb - nf)
        (the rate arithmetic itself is C11's subject; here exact Fractions / plain unit products)"""
        from chempy.units import default_units as u
        rx = c['rxn']
        eq = mk_rxn(rx)
        eq.param = Fraction(rx[4])
        K, k, mode = Fraction(rx[4]), Fraction(c['k']), c['mode']
        effect = any(s_net(rx, kk) != 0 for kk in s_keys(rx))
        nb, nf = sum(v for _, v in rx[1]), sum(v for _, v in rx[0])
        kfu = float(k) * u.molar ** (1 - nf) / u.second          # a dimensionally consistent forward rate constant
        try:
            if mode == 'kf':
                f, b = eq.as_reactions(kf=k, new_name=c['new_name'])
            elif mode == 'kb':
                f, b = eq.as_reactions(kb=k, new_name=c['new_name'])
            elif mode == 'both':
                f, b = eq.as_reactions(kf=k, kb=k)
            elif mode == 'kf_units':
                f, b = eq.as_reactions(kf=kfu, units=u, new_name=c['new_name'])
            else:
                f, b = eq.as_reactions(kf=kfu)
        except ValueError as e:
            if mode == 'both':
                return None if str(e).startswith('Exactly one rate') else 'as_reactions(kf, kb): %s' % e
            if mode == 'kf_units_missing':
                return None if str(e).startswith('units missing') else 'as_reactions(kf with units, units=None): %s' % e
            return None if not effect else 'as_reactions(%s) raised %s' % (mode, e)
        if mode in ('both', 'kf_units_missing'):
            return 'as_reactions accepted %s' % mode
        if not effect:
            return 'as_reactions built reactions for an equilibrium without net effect'
        sf, sb = show_rxn_struct(f), show_rxn_struct(b)
        if sf != [rx[0], rx[1], rx[2], rx[3]] or sb != [rx[1], rx[0], rx[3], rx[2]]:
            return 'as_reactions(%s): forward %s / backward %s are not the equilibrium and its reverse (active and inactive parts swapped)' % (mode, sf, sb)
        names = (f.name, b.name)
        want_names = (rx[5], c['new_name']) if mode == 'kb' else (c['new_name'], rx[5])
        if names != want_names:
            return 'as_reactions(%s): names %s, expected %s' % (mode, names, want_names)
        near = lambda x, y: abs(float(x) - float(y)) <= 1e-12 * abs(float(y))     # `1 ** (nb - nf)` is a float for nb < nf
        if mode == 'kf' and not (near(f.param, k) and near(b.param, k / K)):
            return 'as_reactions(kf=%s): parameters %s, expected (kf, kf/K)' % (k, (f.param, b.param))
        if mode == 'kb' and not (near(f.param, k * K) and near(b.param, k)):
            return 'as_reactions(kb=%s): parameters %s, expected (kb*K, kb)' % (k, (f.param, b.param))
        if mode == 'kf_units':
            want = kfu / (float(K) * (1 * u.molar) ** (nb - nf))
            from chempy.units import to_unitless
            ratio = to_unitless(b.param / want)
            if abs(float(ratio) - 1) > 1e-12:
                return 'as_reactions(kf, units): kb = %s, expected %s' % (b.param, want)
        return None

    def _oracle_array_units(self, c):
        """as_per_substance_array(..., unit=u): values in substance order, converted to the unit (units themselves: C09/C10)"""
        from chempy.units import default_units as u, to_unitless
        rs, _ = mk_sys(c['sys'])
        keys = [k for k, _ in c['sys']['subs']]
        vals = [v * 1000 * u.mol / u.m ** 3 for v in c['vals']]                # = v molar
        cont = OrderedDict(zip(keys, vals)) if c['as_dict'] else vals
        if not keys and not c['as_dict']:
            return None
        arr = rs.as_per_substance_array(cont, unit=u.molar)
        got = [float(x) for x in to_unitless(arr, u.molar)] if keys else []
        if len(got) != len(keys) or any(abs(g - v) > 1e-9 * max(1, v) for g, v in zip(got, c['vals'])):
            return 'as_per_substance_array(unit=molar) = %s, expected %s molar in substance order' % (got, c['vals'])
        return None

    def _oracle_as_reactions(self, c):
        """forward/backward pair of an equilibrium: the backward reaction undoes the forward one, species by species"""
        from chempy import ReactionSystem
        rx = c['rxn']
        keys = s_keys(rx)
        want = s_expand([rx])
        try:
            f, b = mk_rxn(rx).as_reactions()
        except ValueError as e:
            return None if want is None else 'as_reactions raised %s for an equilibrium with (kf, kb) and a net effect' % e
        if want is None:
            return 'as_reactions accepted an equilibrium without (kf, kb) pair / without net effect'
        sf, sb = show_rxn(f), show_rxn(b)
        for k in keys:
            if s_net(sf, k) != s_net(rx, k):
                return 'forward reaction changes %s by %d, the equilibrium by %d' % (k, s_net(sf, k), s_net(rx, k))
            if s_net(sb, k) != -s_net(sf, k):
                return 'backward reaction changes %s by %d, forward by %d: they do not cancel' % (k, s_net(sb, k), s_net(sf, k))
            if s_all_reac(sb, k) != s_all_prod(sf, k) or s_all_prod(sb, k) != s_all_reac(sf, k):
                return 'backward reaction does not have reactants and products of the forward one swapped for %s' % k
        if (sf[4], sb[4]) != (rx[4], rx[6]) or sf[7] or sb[7]:
            return 'as_reactions: parameters / classes of the pair'
        subs = OrderedDict((k, mk_subst(v)) for k, v in c['subs'])
        for k in keys:
            if k not in subs:
                subs[k] = mk_subst([k, None])
        pair = ReactionSystem([f, b], subs, checks=())
        if pair.identify_equilibria() != [(0, 1)]:
            return 'identify_equilibria() on [forward, backward] = %s' % pair.identify_equilibria()
        net = pair.net_stoichs()
        if any(net[0][i] + net[1][i] != 0 for i in range(pair.ns)):
            return 'net_stoichs of forward and backward do not cancel: %s' % net.tolist()
        cat = pair.categorize_substances(checks=())
        touched = [k for k in keys if s_net(rx, k) != 0]
        if any(k in cat[nm] for k in touched for nm in ('accumulated', 'depleted', 'unaffected', 'nonparticipating')):
            return 'a species changed by both directions is categorised: %s' % {nm: sorted(v) for nm, v in cat.items()}
        return None

    def _oracle_split(self, c):
        spec = c['sys']
        keys = [k for k, _ in spec['subs']]
        rx = spec['rxns']
        ksets = [s_keys(r) for r in rx]
        want = components(ksets)
        bad = set(c['checks'])
        rs, rxns = mk_sys(spec)
        ids = {id(r): i for i, r in enumerate(rxns)}
        try:
            parts = rs.split(checks=tuple(c['checks']))
        except ValueError as e:
            # every sub-system must pass the checks iff ... : a raise is legitimate only if some component fails a requested check
            for comp in want:
                sub = [rx[i] for i in sorted(comp)]
                subkeys = [k for k in keys if any(k in ksets[i] for i in comp)]
                if failing_checks(sub, subkeys) & bad:
                    return None
            return 'split raised %s although every component passes the requested checks' % e
        groups = [[ids[id(r)] for r in p.rxns] for p in parts]
        for comp in want:
            sub = [rx[i] for i in sorted(comp)]
            if failing_checks(sub, [k for k in keys if any(k in ksets[i] for i in comp)]) & bad:
                return 'split accepted a part failing a requested check'
        flat = sorted(i for g in groups for i in g)
        if flat != list(range(len(rx))):
            return 'reaction lists of the parts do not partition the reactions: %s' % groups
        got = set(frozenset(g) for g in groups)
        if len(got) != len(groups) or got != want:
            return 'split groups %s, connected components %s' % (sorted(map(sorted, got)), sorted(map(sorted, want)))
        for g in groups:
            if not connected(g, ksets):
                return 'group %s is not connected through shared species' % g
        seen = set()
        for g, p in zip(groups, parts):
            sub = list(p.substances)
            wantk = [k for k in keys if any(k in ksets[i] for i in g)]
            if sub != wantk:
                return 'part %s has substances %s, expected %s (parent order)' % (g, sub, wantk)
            if seen & set(sub):
                return 'substance sets of the parts are not disjoint: %s' % sorted(seen & set(sub))
            seen |= set(sub)
            for k in sub:
                if show_subst(p.substances[k]) != show_subst(rs.substances[k]):
                    return 'substance object of %s changed' % k
        # same partition whatever the order of the reactions
        perm = c.get('perm')
        if perm and sorted(perm) == list(range(len(rx))):
            spec2 = {'rxns': [rx[i] for i in perm], 'subs': spec['subs']}
            rs2, rxns2 = mk_sys(spec2)
            ids2 = {id(r): perm[i] for i, r in enumerate(rxns2)}
            try:
                parts2 = rs2.split(checks=tuple(c['checks']))
            except ValueError:
                return 'split of the permuted system raised although the original did not'
            got2 = set(frozenset(ids2[id(r)] for r in p.rxns) for p in parts2)
            if got2 != got:
                return 'split depends on the reaction order: %s vs %s under permutation %s' % (sorted(map(sorted, got)), sorted(map(sorted, got2)), perm)
        return None

    def _oracle_subset(self, c):
        spec = c['sys']
        keys = [k for k, _ in spec['subs']]
        rs, rxns = mk_sys(spec)
        ids = {id(r): i for i, r in enumerate(rxns)}
        yes_i = [i for i, rx in enumerate(spec['rxns']) if eval_pred(c['pred'], rx)]
        no_i = [i for i in range(len(rxns)) if i not in yes_i]
        bad = set(c['checks'])

        def fails(idx):
            sub = [spec['rxns'][i] for i in idx]
            return failing_checks(sub, [k for k in keys if any(k in s_keys(r) for r in sub)]) & bad
        try:
            y, n = rs.subset(mk_pred(c['pred'], c.get('pred_ret', 'bool')), checks=tuple(c['checks']))
        except ValueError as e:
            return None if fails(yes_i) or fails(no_i) else 'subset raised %s although both halves pass the requested checks' % e
        if fails(yes_i) or fails(no_i):
            return 'subset accepted a half failing a requested check'
        for part, idx, nm in ((y, yes_i, 'yes'), (n, no_i, 'no')):
            if [ids[id(r)] for r in part.rxns] != idx:
                return 'subset(%s): %s part holds reactions %s, predicate says %s' % (c['pred'], nm, [ids[id(r)] for r in part.rxns], idx)
            wantk = [k for k in keys if any(k in s_keys(spec['rxns'][i]) for i in idx)]
            if list(part.substances) != wantk:
                return 'subset(%s): %s part has substances %s, expected %s' % (c['pred'], nm, list(part.substances), wantk)
        return None

    def _sum_ok(self, S, a, b):
        if [show_rxn(r) for r in S.rxns] != a['rxns'] + b['rxns']:
            return 'sum does not hold exactly the reactions of both systems in order'
        want = {}
        order = []
        for k, s in a['subs'] + b['subs']:
            if k not in want:
                order.append(k)
            want[k] = s
        got = [[k, show_subst(s)] for k, s in S.substances.items()]
        if got != [[k, want[k]] for k in order]:
            return 'sum has substances %s, expected %s' % ([k for k, _ in got], order)
        return None

    def _oracle_concat(self, c):
        from chempy import ReactionSystem
        if not c['systems']:
            return None
        systems = [mk_sys(s)[0] for s in c['systems']]
        a, b = ReactionSystem.concatenate(wrap(systems, c.get('container')))
        specs = [[s['rxns'], s['subs']] for s in c['systems']]
        want_a, want_b = sp_concat(specs)
        if show_sys(a)[0] != want_a[0]:
            return 'concatenate: the sum does not hold the first system plus the stoichiometrically new reactions'
        if show_sys(b)[0] != want_b[0]:
            return 'concatenate: the duplicates system does not hold exactly the skipped reactions'
        if show_sys(a)[1] != want_a[1] or show_sys(b)[1] != want_b[1]:
            return 'concatenate: substances of the results are %s / %s, expected %s / %s' % (
                list(a.substances), list(b.substances), [k for k, _ in want_a[1]], [k for k, _ in want_b[1]])
        for i, (rs, sp) in enumerate(zip(systems, specs)):
            if show_sys(rs) != sp:
                return 'concatenate modified its argument %d: now %d reactions, substances %s' % (i, rs.nr, list(rs.substances))
        if (a is systems[0]) != (len(systems) == 1):
            return 'concatenate: the sum %s its first argument for %d systems' % ('is' if a is systems[0] else 'is not', len(systems))
        if any(b is rs for rs in systems) or (len(systems) > 1 and any(a is rs for rs in systems)):
            return 'concatenate returned one of its arguments'
        return None

    def _oracle_concat_shared(self, c):
        """two systems built on ONE OrderedDict; concatenate([a] + others) must leave a, a2 and the dict as built, and later
        split / subset / add / categorize on them must answer for the systems as built"""
        from chempy import ReactionSystem
        od = OrderedDict((k, mk_subst(v)) for k, v in c['subs'])
        ra, ra2 = [mk_rxn(r) for r in c['rxns_a']], [mk_rxn(r) for r in c['rxns_a2']]
        a = ReactionSystem(ra, od, checks=())
        a2 = ReactionSystem(ra2, od, checks=())
        others = [mk_sys(s)[0] for s in c['others']]
        ReactionSystem.concatenate([a] + others)
        keys = [k for k, _ in c['subs']]
        if list(od) != keys:
            return 'concatenate changed the substances dict its first argument was built on: %s -> %s' % (keys, list(od))
        for nm, rs, rx in (('a', a, c['rxns_a']), ('a2', a2, c['rxns_a2'])):
            if show_sys(rs) != [rx, c['subs']]:
                return 'after concatenate([a, ...]) system %s has %d reactions / substances %s, built with %d / %s' % (
                    nm, rs.nr, list(rs.substances), len(rx), keys)
            ksets = [s_keys(r) for r in rx]
            got = sorted(sorted(dumps(show_rxn(r)) for r in p.rxns) for p in rs.split(checks=()))
            want = sorted(sorted(dumps(rx[i]) for i in g) for g in components(ksets))
            if got != want:
                return 'after concatenate, %s.split() does not give the components of %s as built' % (nm, nm)
            y, n = rs.subset(mk_pred(c['pred']))
            if [show_rxn(r) for r in y.rxns] != [r for r in rx if eval_pred(c['pred'], r)]:
                return 'after concatenate, %s.subset(pred) does not filter the reactions of %s as built' % (nm, nm)
            if rx and s_expand(rx) is not None:
                cat = rs.categorize_substances(checks=())
                if set().union(*cat.values()) - set(keys):
                    return 'after concatenate, %s.categorize_substances() lists substances %s was not built with' % (nm, nm)
        s = a + a2
        if [show_rxn(r) for r in s.rxns] != c['rxns_a'] + c['rxns_a2'] or list(s.substances) != keys:
            return 'after concatenate, a + a2 is not the sum of the systems as built'
        return None

    def _oracle_make(self, c):
        from chempy import ReactionSystem
        a = c['substances']
        rx = c['rxns']
        if a is None:
            keys, dflt = sorted(set(k for r in rx for k in s_keys(r))), True
        elif a[0] == 'names':
            keys, dflt = list(OrderedDict.fromkeys(a[1])), False
        elif a[0] == 'set':
            keys, dflt = list(a[1]), True
        elif a[0] == 'str':
            if ' ' in a[1]:
                keys = list(OrderedDict.fromkeys(a[1].split()))
            else:
                keys = list(OrderedDict.fromkeys(a[1]))      # what the code does: character-wise
            dflt = False
        elif a[0] == 'substs':
            keys, dflt = list(OrderedDict.fromkeys(s[0] for s in a[1])), False
        elif a[0] == 'dict':
            keys, dflt = [k for k, _ in a[1]], True          # a plain dict is sorted by default
        else:
            keys, dflt = [k for k, _ in a[1]], False
        sort = dflt if c['sort'] is None else c['sort']
        io = self.impl(c)
        missing = bool(c.get('missing'))
        if missing and not rx:
            return None if io == 'TypeError' else 'missing_substances_from_keys without reactions: ' + io   # set.union(*[])
        added = []
        if missing:
            added = sorted(set(k for r in rx for k in s_keys(r)) - set(keys))
        if c['checks'] is not None and c.get('dont_check') is not None:
            return None if io == 'ValueError:both' else 'both checks and dont_check given, constructor returned ' + io[:80]
        requested = c['checks'] if c['checks'] is not None else [ch for ch in CHECKS if ch not in c['dont_check']]
        bad = failing_checks(rx, keys + added) & set(requested)
        if io.startswith('ValueError:'):
            if not bad:
                return 'constructor raised %s although the requested checks hold' % io
            if c['checks'] is None:
                return None if io == 'ValueError:some-check' else 'constructor raised ' + io
            if io.split(':')[1] not in bad:
                return 'constructor raised %s, failing checks are %s' % (io, sorted(bad))
            first = next(ch for ch in c['checks'] if ch in bad)
            if io.split(':')[1] != first:
                return 'constructor raised %s, first failing requested check is %s' % (io, first)
            return None
        if not io.startswith('['):
            return 'constructor raised ' + io
        if bad:
            return 'constructor accepted a system failing ' + ','.join(sorted(bad))
        got = json.loads(io)
        gk = [k for k, _ in got[1]]
        if sort:
            if gk != sorted(keys + added):
                return 'substance order %s, expected %s' % (gk, sorted(keys + added))
        elif gk[:len(keys)] != keys or sorted(gk[len(keys):]) != added:
            return 'substances %s, expected %s followed by the missing keys %s' % (gk, keys, added)
        if missing and any(k not in gk for r in rx for k in s_keys(r)):
            return 'missing_substances_from_keys left a reaction key without substance'
        if got[0] != rx:
            return 'constructor changed the reactions'
        return None

    def _oracle_arrays(self, c):
        rs, _ = mk_sys(c['sys'])
        keys = [k for k, _ in c['sys']['subs']]
        op = c['op']
        if op == 'array_from_dict':
            d = self._dict(c)
            given = OrderedDict((k, frac(v)) for k, v in c['cont'])
            dd = c.get('dict_kind') == 'defaultdict'            # a defaultdict supplies its default for a missing substance
            missing = [] if dd else [k for k in keys if k not in given]
            unk = [k for k in given if k not in keys]
            try:
                arr = list(rs.as_per_substance_array(d, dtype=object, raise_on_unk=c['raise_on_unk']))
                d = dict(given) if not dd else dict([(k, Fraction(-77)) for k in keys] + list(given.items()))
            except KeyError:
                return None if missing or (unk and c['raise_on_unk']) else 'as_per_substance_array raised KeyError on a complete dict'
            if missing or (unk and c['raise_on_unk']):
                return 'as_per_substance_array accepted an incomplete dict / unknown key'
            if arr != [d[k] for k in keys]:
                return 'array %s is not the dict in substance order' % arr
            back = rs.as_per_substance_dict(arr)
            if list(back.items()) != [(k, d[k]) for k in keys]:
                return 'dict -> array -> dict is not the restriction to the substances in order'
            return None
        if op in ('array_from_list', 'dict_from_array'):
            vals = [frac(v) for v in c.get('cont', c.get('arr'))]
            if len(vals) != len(keys):
                if op == 'array_from_list':
                    try:
                        rs.as_per_substance_array(vals, dtype=object)
                    except ValueError:
                        return None
                    return 'as_per_substance_array accepted a sequence of the wrong length'
                return None
            d = rs.as_per_substance_dict(wrap(vals, c.get('container')))
            if list(d.items()) != list(zip(keys, vals)):
                return 'as_per_substance_dict does not pair values with substances in order'
            arr = list(rs.as_per_substance_array(d, dtype=object))
            if arr != vals:
                return 'array -> dict -> array is not the identity: %s vs %s' % (arr, vals)
            return None
        if op == 'substance_index':
            if isinstance(c['key'], int):
                return None if rs.as_substance_index(c['key']) == c['key'] else 'as_substance_index(int) changed the index'
            try:
                i = rs.as_substance_index(c['key'])
            except ValueError:
                return None if c['key'] not in keys else 'as_substance_index raised for a known key'
            return None if c['key'] in keys and keys[i] == c['key'] else 'as_substance_index(%r) = %r' % (c['key'], i)
        if op == 'varied':
            varied = OrderedDict((k, v) for k, v in c['varied'])
            okay = len(c['base']) == len(keys) and all(k in keys for k in varied)
            try:
                arr, vk = rs.per_substance_varied(list(c['base']), varied)
            except (ValueError, IndexError):
                return None if not okay else 'per_substance_varied raised on valid input'
            if not okay:
                return 'per_substance_varied accepted invalid input'
            if list(vk) != [k for k in keys if k in varied]:
                return 'varied keys %s not in substance order' % (vk,)
            import itertools
            for idx in itertools.product(*[range(len(varied[k])) for k in vk]):
                row = arr[idx]
                for si, k in enumerate(keys):
                    want = varied[k][idx[list(vk).index(k)]] if k in varied else c['base'][si]
                    if row[si] != want:
                        return 'per_substance_varied%s[%s] = %r, expected %r' % (idx, k, row[si], want)
            return None
        return None

    def _oracle_bounds(self, c):
        import random
        spec = c['sys']
        subs = spec['subs']
        init = [frac(v) for v in c['init']]
        rs, _ = mk_sys(spec)
        skip = tuple(c['skip'])
        legit_err = (len(init) != len(subs) or any(s[1] is None for _, s in subs)
                     or any(v == 0 and k != 0 for _, s in subs for k, v in (s[1] or [])))
        try:
            if c.get('dtype') == 'float':                    # the default call (float64) gets the same independent claim
                b = rs.upper_conc_bounds([float(x) for x in init], skip_keys=skip)
            else:
                b = rs.upper_conc_bounds(init, dtype=object, skip_keys=skip)
        except (ValueError, AttributeError, ZeroDivisionError) as e:
            return None if legit_err else 'upper_conc_bounds raised %s on valid input' % exc_name(e)
        if legit_err:
            return 'upper_conc_bounds accepted invalid input'
        if len(b) != len(subs):
            return 'wrong number of bounds'
        if skip != (0,):
            # outside the property's quantifier (default skip_keys only); the parameter is honoured by the first loop only
            # (see upper_bound_skip_keys_defect_witness and notes/C15.md) — correspondence still covers it
            return None
        comps = [dict((k, v) for k, v in s[1] if k != 0) for _, s in subs]
        els = sorted(set(k for cp in comps for k in cp))
        tot = {e: sum(cp.get(e, 0) * x for cp, x in zip(comps, init)) for e in els}
        for (_, s), cp, bb in zip(subs, comps, b):
            want = min((tot[e] / n for e, n in cp.items()), default=None)
            if want is None:
                if bb != float('inf'):
                    return 'bound of %s (no elements) is %r, expected inf' % (s[0], bb)
            elif float(want) != float(bb) and not (c.get('tol') and abs(float(bb) - float(want)) <= c['tol'] * abs(float(want))):
                return 'bound of %s is %r, least of total/atoms is %s (= %r)' % (s[0], bb, want, float(want))
        # no non-negative state with the same element totals exceeds the bounds
        n = len(subs)
        if n and all(x >= 0 for x in init):
            basis = nullspace([[cp.get(e, 0) for cp in comps] for e in els], n)
            rnd = random.Random(c.get('state_seed', 0))
            state = list(init)
            for _ in range(6):
                if not basis:
                    break
                coef = [rnd.randint(-3, 3) for _ in basis]
                d = [sum(cf * v[i] for cf, v in zip(coef, basis)) for i in range(n)]
                # largest step keeping the state non-negative
                tmax = None
                for x, di in zip(state, d):
                    if di < 0:
                        t = x / -di
                        tmax = t if tmax is None else min(tmax, t)
                if tmax is None:
                    tmax = Fraction(rnd.randint(0, 5))
                t = tmax * Fraction(rnd.randint(0, 4), 4)
                state = [x + t * di for x, di in zip(state, d)]
                assert all(x >= 0 for x in state)
                for e in els:
                    assert sum(cp.get(e, 0) * x for cp, x in zip(comps, state)) == tot[e]
                for (_, s), x, bb in zip(subs, state, b):
                    if bb != float('inf') and x > Fraction(bb) * (1 + Fraction(1, 10 ** 12)):
                        return 'state %s has the element totals of %s but exceeds the bound %r of %s' % (
                            [str(v) for v in state], [str(v) for v in init], bb, s[0])
        return None

    def _oracle_history(self, c):
        """the history replayed twice: on the real objects and, by the definitions alone, on plain specs [rxns, subs]
        (own components / predicate / sum / concatenate code); after EVERY operation every system of the store — in
        particular the operands — must print as its spec. split parts are matched up to the order of parts and of the
        reactions inside a part (the definition fixes neither)."""
        from chempy import ReactionSystem
        store = [mk_sys(s)[0] for s in c['store']]
        specs = [[list(s['rxns']), list(s['subs'])] for s in c['store']]
        for step, o in enumerate(c['ops']):
            try:
                if o[0] == 'add':
                    store.append(store[o[1]] + store[o[2]])
                    specs.append([specs[o[1]][0] + specs[o[2]][0], sp_merge(specs[o[1]][1], specs[o[2]][1])])
                elif o[0] == 'iadd':
                    a = store[o[1]]
                    a += store[o[2]]
                    store[o[1]] = a
                    specs[o[1]] = [specs[o[1]][0] + specs[o[2]][0], sp_merge(specs[o[1]][1], specs[o[2]][1])]
                elif o[0] == 'subset':
                    store.extend(store[o[1]].subset(mk_pred(o[2])))
                    rx, subs = specs[o[1]]
                    yes = [r for r in rx if eval_pred(o[2], r)]
                    no = [r for r in rx if not eval_pred(o[2], r)]
                    specs.extend([[yes, sp_used(subs, yes)], [no, sp_used(subs, no)]])
                elif o[0] == 'query':
                    try:
                        store[o[1]].categorize_substances(checks=(), missing_substances_from_keys=o[2], sort_substances=o[3])
                    except (ValueError, TypeError):
                        pass                                  # specs unchanged: a query leaves its receiver as it was
                elif o[0] == 'split':
                    parts = store[o[1]].split(checks=())
                    rx, subs = specs[o[1]]
                    ksets = [s_keys(r) for r in rx]
                    want = {}
                    for g in components(ksets):
                        key = dumps(sorted(dumps(rx[i]) for i in g))
                        want[key] = want.get(key, 0) + 1
                    for p in parts:
                        prx = [show_rxn(r) for r in p.rxns]
                        key = dumps(sorted(dumps(r) for r in prx))
                        if want.get(key, 0) == 0:
                            return 'history step %d: split part %s is not a connected component of the system as built' % (step, [str(r) for r in p.rxns])
                        want[key] -= 1
                        specs.append([prx, sp_used(subs, prx)])
                    if any(want.values()):
                        return 'history step %d: split lost a connected component' % step
                    store.extend(parts)
                elif o[0] == 'concat':
                    a, b = ReactionSystem.concatenate([store[k] for k in o[1]])
                    wa, wb = sp_concat([specs[k] for k in o[1]])
                    if (a is store[o[1][0]]) != (len(o[1]) == 1):
                        return 'history step %d: concatenate %s its first argument' % (step, 'returned' if len(o[1]) != 1 else 'did not return')
                    if len(o[1]) != 1:
                        store.append(a)
                        specs.append(wa)
                    store.append(b)
                    specs.append(wb)
            except (IndexError, StopIteration):
                return None
            for i, (rs, sp) in enumerate(zip(store, specs)):
                if show_sys(rs) != sp:
                    return ('history step %d (%s): system %d holds %d reactions / substances %s, the definitions applied to the systems '
                            'as built give %d / %s' % (step, o[0], i, rs.nr, list(rs.substances), len(sp[0]), [k for k, _ in sp[1]]))
        return None

    def classify(self, c):
        if 'op' not in c:
            return 'oracle-only:' + str(c.get('oracle_only'))
        op = c['op']
        if op == 'split':
            rx = c['sys']['rxns']
            n = len(components([s_keys(r) for r in rx]))
            return 'split:%s-components%s' % ('0' if n == 0 else '1' if n == 1 else '2-3' if n <= 3 else '4+', ':checks' if c['checks'] else '')
        if op == 'make':
            return 'make:' + ('None' if c['substances'] is None else c['substances'][0])
        if op == 'upper_bounds':
            return 'upper_bounds:' + ('default-skip' if c['skip'] == [0] else 'other-skip')
        return op

    def nontrivial(self, c):
        if 'sys' in c:
            return bool(c['sys']['rxns'] or c['sys']['subs'])
        return True

    def shrink(self, case, still_fails):
        """drop reactions / substances one at a time while the oracle keeps failing"""
        c = json.loads(json.dumps(case))
        if 'sys' not in c:
            return c
        changed = True
        while changed:
            changed = False
            for field in ('rxns', 'subs'):
                i = 0
                while i < len(c['sys'][field]):
                    if field == 'subs' and ('init' in c or 'base' in c or 'cont' in c or 'arr' in c):
                        break
                    d = json.loads(json.dumps(c))
                    d['sys'][field].pop(i)
                    if 'perm' in d:
                        d['perm'] = list(range(len(d['sys']['rxns'])))[::-1]
                    try:
                        bad = still_fails(d)
                    except Exception:
                        bad = False
                    if bad:
                        c = d
                        changed = True
                    else:
                        i += 1
        return c


PROPERTY = C15()
