"""C13 — LaTeX, Unicode and HTML names show the same formula that was given"""
from fractions import Fraction
import copy, json, re
from lib.framework import Property
from . import formula_gen as fg
from .util import *
from .c01 import mutate, in_domain

REJECT = ('ParseException', 'ValueError')
FORMATS = ('latex', 'unicode', 'html')

# ----------------------------------------------------------------------------- the presentation, re-stated here
# (independent of chempy's tables and of the Lean model: what the property text says the symbols are)
GREEK_U = 'αβγδεζηθικλμνξοπρστυφχψω'
SUB_U = '₀₁₂₃₄₅₆₇₈₉'
SUP_U = '⁰¹²³⁴⁵⁶⁷⁸⁹'
LATEX_GREEK = {g: '\\' + g for g in fg.GREEK}
LATEX_GREEK['epsilon'] = '\\varepsilon'
LATEX_GREEK['omicron'] = 'o'
ARROWS = {('str', False): '->', ('str', True): '=', ('latex', False): '\\rightarrow', ('latex', True): '\\rightleftharpoons',
          ('unicode', False): '→', ('unicode', True): '⇌', ('html', False): '&rarr;', ('html', True): '&harr;'}


def prefix_symbol(which, p):
    """the symbol a prefix key is shown as"""
    if p == '.':
        return {'latex': '^\\bullet ', 'unicode': '⋅', 'html': '&sdot;'}[which]
    g = p[:-1]
    if which == 'latex':
        return LATEX_GREEK[g] + '-'
    if which == 'unicode':
        return GREEK_U[fg.GREEK.index(g)] + '-'
    return '&' + g + ';-'


def un_prefixes(which, s):
    out = ''
    for p in fg.PREFIXES:
        sym = prefix_symbol(which, p)
        if s.startswith(sym):
            out += p
            s = s[len(sym):]
    return out, s


def _reorder(m):
    return m.group(2) + m.group(1)


def un_latex(s):
    pre, s = un_prefixes('latex', s)
    s = re.sub(r'_\{([^}]*)\}', lambda m: m.group(1), s)
    s = re.sub(r'\^\{([0-9]*)([+-])\}', _reorder, s)
    return pre + s.replace('\\cdot ', '..').replace('\\{', '{').replace('\\}', '}')


def un_html(s):
    pre, s = un_prefixes('html', s)
    s = re.sub(r'<sub>(.*?)</sub>', lambda m: m.group(1), s)
    s = re.sub(r'<sup>([0-9]*)([+-])</sup>', _reorder, s)
    return pre + s.replace('&sdot;', '..')


def un_unicode(s):
    pre, s = un_prefixes('unicode', s)
    s = ''.join(str(SUB_U.index(c)) if c in SUB_U else c for c in s)
    s = re.sub('([%s]*)([⁺⁻])' % SUP_U, lambda m: ('+' if m.group(2) == '⁺' else '-') + ''.join(str(SUP_U.index(c)) for c in m.group(1)), s)
    return pre + s.replace('·', '..')


UN = {'latex': un_latex, 'unicode': un_unicode, 'html': un_html}


def canon_n(n):
    return None if n is None or int(n) == 1 else int(n)


def canon_ast(f):
    """the AST up to the presentation-only normalisations: hydrate count / charge magnitude 1 not written, '..' as separator"""
    g = copy.deepcopy(f)
    g['sep'] = '..'
    for p in g['parts']:
        p['n'] = canon_n(p['n'])
    if g['charge'] is not None:
        if is_zero_charge(g['charge']):
            g['charge'] = None                    # a charge written with value zero is not presented
        else:
            g['charge'] = [g['charge'][0], canon_n(g['charge'][1])]
    return g


def is_zero_charge(ch):
    return ch is not None and ch[1] is not None and int(ch[1]) == 0


def int_ast(f):
    """hydrate counts / charge magnitudes given as digit strings (leading zeros) -> ints, for formula_gen.composition"""
    g = copy.deepcopy(f)
    for p in g['parts']:
        if p['n'] is not None:
            p['n'] = int(p['n'])
    if g['charge'] is not None and g['charge'][1] is not None:
        g['charge'] = [g['charge'][0], int(g['charge'][1])]
    return g


def count_written(f):
    """number of written counts of the AST (each must become exactly one subscript)"""
    def walk(ts):
        n = 0
        for t in ts:
            if t['t'] != 'cage' and t['cnt'] is not None:
                n += 1
            if t['t'] != 'el':
                n += walk(t['body'])
        return n
    return sum(walk(p['terms']) for p in f['parts'])


def count_texts(f):
    out = []

    def walk(ts):
        for t in ts:
            if t['t'] == 'el':
                if t['cnt'] is not None:
                    out.append(fg.cnt_text(t['cnt']))
            elif t['t'] == 'grp':
                walk(t['body'])
                if t['cnt'] is not None:
                    out.append(fg.cnt_text(t['cnt']))
            else:
                walk(t['body'])
    for p in f['parts']:
        walk(p['terms'])
    return out


def charge_token(ch):
    mag = 1 if ch[1] is None else int(ch[1])
    return ('' if mag == 1 else str(mag)) + ('+' if ch[0] > 0 else '-')


def subscripts(which, s):
    if which == 'latex':
        return re.findall(r'_\{([^}]*)\}', s)
    if which == 'html':
        return re.findall(r'<sub>(.*?)</sub>', s)
    runs = re.findall('[%s]+(?:\\.[%s]+)?' % (SUB_U, SUB_U), s)
    return [''.join(str(SUB_U.index(c)) if c in SUB_U else c for c in r) for r in runs]


def superscripts(which, s):
    if which == 'latex':
        return re.findall(r'\^\{([^}]*)\}', s)
    if which == 'html':
        return re.findall(r'<sup>(.*?)</sup>', s)
    runs = re.findall('[%s⁺⁻]+' % SUP_U, s)
    return [''.join(str(SUP_U.index(c)) if c in SUP_U else ('+' if c == '⁺' else '-') for c in r) for r in runs]


def real_fns():
    from chempy.util.parsing import formula_to_latex, formula_to_unicode, formula_to_html
    return {'latex': formula_to_latex, 'unicode': formula_to_unicode, 'html': formula_to_html}


def call(fn, *a, **kw):
    try:
        return fn(*a, **kw)
    except Exception as e:
        return Exception, exc_name(e)


def is_exc(x):
    return isinstance(x, tuple) and len(x) == 2 and x[0] is Exception


def js(x):
    return json.dumps(x, separators=(',', ':'), ensure_ascii=False)


def canon_exc(x):
    return 'reject' if x in REJECT else x


class C13(Property):
    pid = 'C13'
    title = ('LaTeX / Unicode / HTML names differ from the formula only by presentation (each count one subscript, charge one superscript '
             'magnitude-then-sign with 1 omitted, hydrate separator / radical dot / greek prefixes as symbols, brackets and suffix verbatim); '
             'undoing the presentation gives a formula with the same composition, charge, prefixes and suffix; Substance/Species carry these names '
             'and the phase index of the suffix; printed reactions show coefficient (omitted when 1) and name per species around the arrow')
    props_module = 'ChemModel.Props.C13'
    build_modules = ('ChemModel.Model.FormulaFormat', 'ChemModel.Driver.FormulaJson', 'ChemModel.Basic.Proto')
    driver = 'ChemModel/Driver/C13.lean'
    n_quick, n_thorough = 3000, 60000
    rule = ('formula ASTs from tools/harness/formula_gen.py (multi-digit charges, decimals, hydrate multipliers incl. 1 and leading zeros, both '
            'separators, every greek prefix and the radical dot, the three bracket kinds, cages, primes, states, phase suffixes) rendered and passed to '
            'formula_to_latex/_unicode/_html, Substance.from_formula and Species.from_formula (sequence and dict phases, default None); text-level '
            'cases (well-known formulas and mutated strings); reactions and equilibria over such substances printed by the four printers. '
            'A case is non-trivial when it is a distinct JSON value whose formula text has at least two characters.')
    assumptions = ('the AST renderer / denotation (tools/harness/formula_gen.py = Model/FormulaSpec.lean) and the un-presentation maps re-stated in '
                   'tools/harness/c13.py (from the property text, not from chempy tables) are the specification',
                   'outside the modelled domain, excluded from generation: non-ASCII decimal digits (the parser\'s \\d accepts them, the renderers\' [0-9] does not subscript them: known limitation, coordinator decision round 9), blanks / "_" inside the charge number',
                   're (digit-run substitution, brace escaping) and str.replace are hand-modelled and tied by this correspondence only',
                   'reaction printing: int and Fraction coefficients and inactive groups are modelled (float coefficients: oracle only), no parameter, no name (C12 covers those)',
                   'the two inverse presentation maps (Python, for the oracle; Lean unX, specification) are only compared on real outputs for input text over ASCII + the middle dot; on input that already contains sub/superscript code points or markup (H²O) they differ and are unspecified')
    clauses_without_theorem = (
        'printed reactions with parameter / name (with_param, with_name) in the three formats: not modelled in C13 (the str printer\'s parameter text is C12/C20)',
        'float coefficients in printed reactions (str(0.5)): oracle only; int and Fraction coefficients have the theorem reaction_print_spec',
        'suffix tuples / phases outside the vocabulary (s) (l) (g) (aq) now have theorems (suffix_kept_verbatim*, presentation_only_custom_suffix, species_custom_spec) when the '
        'tuple FITS the formula (contains the written suffix, entries do not end one another nor the text before the suffix); still without theorem: tuples that do not fit '
        '(a bare str iterated by characters, entries ending one another) and the REFUSAL of a written suffix that phases + (aq) does not list (needs C01 rejection lemmas) — '
        'decided by correspondence (ops fmt, species) and the oracle',
        'counts written with non-ASCII decimal digits (H٢O: parsed as 2 but not subscripted): outside the generated domain by decision (documented limitation)',
        'LaTeX / Unicode / HTML output for text outside the C01 grammar (mutated strings, rejections): correspondence only',
        'freshly created Substance / Species objects share no mutable state with earlier ones and are unaffected by earlier keyword arguments or in-place edits '
        '(operation histories): oracle only — the Lean model is a pure function, aliasing is not expressible in it',
        'Species.from_formula leaves the caller\'s phases object (tuple / list / dict / OrderedDict / generator) unchanged and gives the same index on repeated '
        'calls sharing that object (phases histories): oracle only — the model takes phases by value',
        'printer dispatch for species that are not Substances (an object with its own `_html` method, `fallback_print_fn=None`): oracle only '
        '(Printer._print lines reached by the printer_dispatch stream); the model covers Substances and plain keys',
        'that the harness\'s Python inverse maps equal the Lean unLatex/unUnicode/unHtml: compared on real outputs only',
    )
    anchors = (('chempy/util/parsing.py', '_formula_to_format'), ('chempy/util/parsing.py', '_subs'),
               ('chempy/util/parsing.py', 'formula_to_latex'), ('chempy/util/parsing.py', 'formula_to_unicode'),
               ('chempy/util/parsing.py', 'formula_to_html'), ('chempy/util/parsing.py', '_formula_to_parts'),
               ('chempy/util/parsing.py', '_get_charge'), ('chempy/util/parsing.py', '_get_leading_integer'),
               ('chempy/chemistry.py', 'Substance.from_formula'), ('chempy/chemistry.py', 'Species.from_formula'),
               ('chempy/printing/string.py', 'StrPrinter._Reaction_parts'), ('chempy/printing/string.py', 'StrPrinter._Reaction_str'),
               ('chempy/printing/printer.py', 'Printer._print'),
               ('chempy/printing/tex.py', 'LatexPrinter._print_Substance'), ('chempy/printing/pretty.py', 'UnicodePrinter._print_Substance'),
               ('chempy/printing/web.py', 'HTMLPrinter._print_Substance'))

    # ------------------------------------------------------------------ generation
    def generate(self, rng, n, tier):
        cases = []
        depth = 3 if tier == 'quick' else 6
        for s in fg.WELL_KNOWN + ['Fe(CN)6+2(aq)', 'Fe+12', 'SO4-02', 'CuSO4·05H2O', 'Na2CO3..1H2O', 'UO2.30', 'C{N}2', 'a{b}', 'epsilon-Fe2O3',
                                  'upsilon-X', 'psi-Fe', 'eta-Fe', 'H+0', 'Fe+0', 'H2O-0(aq)', 'SO4-00', 'H2O(g)(s)', '..H2O', 'H2O..', 'H2.O', 'H2.5.3O', '1.5', '10']:
            cases.append({'op': 'text', 's': s})
            cases.append({'op': 'substance', 's': s})
        for p in fg.PREFIXES:                                   # every prefix alone and with a neighbour
            f = fg.gen_formula(rng, max_depth=1)
            f['prefixes'] = [p]
            cases.append({'op': 'ast', 'ast': f})
        while len(cases) < n:
            r = rng.random()
            f = fg.gen_formula(rng, max_depth=rng.randint(0, depth))
            if r < 0.08:                                        # leading zeros / explicit 1 in hydrate counts and charges
                for p in f['parts'][1:]:
                    if p['n'] is not None and rng.random() < 0.7:
                        p['n'] = rng.choice(['1', '01', '007', '10', '12', '2'])
                if f['charge'] is not None and f['charge'][1] is not None:
                    f['charge'] = [f['charge'][0], rng.choice(['1', '01', '03', '10', '12', '100'])]
            elif r < 0.12 or (0.5 < r < 0.52):                  # a written zero charge
                f['charge'] = [rng.choice([1, -1]), rng.choice([0, 0, '00'])]
            s = fg.render(f)
            if r < 0.50:
                cases.append({'op': 'ast', 'ast': f})
            elif r < 0.58:
                cases.append({'op': 'substance', 's': s})
            elif r < 0.70:
                cases.append(self._species_case(rng, f))
            elif r < 0.80:
                t = s
                for _ in range(rng.choice([1, 1, 2])):
                    t = mutate(rng, t)
                if in_domain(t):
                    cases.append({'op': 'text', 's': t})
            elif r < 0.84:
                sfx = rng.choice([[], ['(s)'], ['(aq)', '(g)'], ['(cr)'], ['(s)', '(l)', '(g)', '(aq)', '(cr)']])
                cases.append({'op': 'fmt', 'which': rng.choice(FORMATS), 's': s, 'suffixes': sfx, 'ast': f})
            elif r < 0.93:
                cases.append(self._reaction_case(rng))
            elif r < 0.955:
                cases.append(self._history_case(rng))
            elif r < 0.975:
                cases.append(self._phases_history_case(rng))
            elif r < 0.99:
                cases.append({'op': 'charge', 's': self._charge_text(rng)})
            else:
                ks = rng.sample(['H2O', 'H+', 'OH-', 'Na+', 'Cl-', 'CO2(g)', 'X'], rng.randint(2, 4))
                cut = rng.randint(1, len(ks) - 1)
                cases.append({'op': 'printer_dispatch', 'printer': rng.choice(['str', 'latex', 'unicode', 'html', 'html']), 'eq': rng.random() < 0.3,
                              'reac': [[k, rng.choice([1, 2, 0])] for k in ks[:cut]], 'prod': [[k, rng.choice([1, 3])] for k in ks[cut:]],
                              'own': [k for k in ks if rng.random() < 0.6], 'fallback': rng.random() < 0.6})
        return cases

    @staticmethod
    def _charge_text(rng):
        """charge texts for `_get_charge` called directly: well-formed (sign, optional magnitude) and ill-formed (magnitude before the sign, text on both
        sides, both signs, repeated sign, no sign, empty, non-numeric magnitude); ASCII only, no blanks / underscores (outside the modelled domain of int())"""
        r = rng.random()
        if r < 0.3:
            return rng.choice('+-') + rng.choice(['', '', '1', '2', '3', '12', '007', '0', '100'])
        if r < 0.5:
            return rng.choice(['3+', '2-', '12+', '1-', '0+'])                                # magnitude before the sign
        if r < 0.65:
            return rng.choice(['1+2', '2-3', 'x+1', '3-x', '1+', 'a-'])                      # text on both sides / before
        if r < 0.8:
            return rng.choice(['+-', '-+', '+3-', '-2+', '++', '--', '+1+', '-2-2', '+-2'])
        if r < 0.9:
            return rng.choice(['', '3', 'x', '12', '.', '2.5'])                               # no sign
        return rng.choice('+-') + rng.choice(['x', '2x', '1.5', '1e3', '..', 'e', '(aq)', '3(s)'])

    def _phases_history_case(self, rng):
        """3-6 Species.from_formula calls sharing ONE phases object, by type of that object (tuple, list, dict, OrderedDict, generator),
        mixing suffixed and unsuffixed formulas and default_phase_idx None / 0"""
        ptype = rng.choice(['tuple', 'list', 'list', 'dict', 'odict', 'gen'])
        r = rng.random()
        if r < 0.4:
            keys = ['(s)', '(l)', '(g)']
        else:
            keys = rng.sample(['(s)', '(l)', '(g)', '(aq)', '(cr)'], rng.randint(1, 4))
        if ptype in ('dict', 'odict'):
            phases = [[k, rng.randint(-1, 6)] for k in keys]
        else:
            phases = list(keys)
        calls = []
        for _ in range(rng.randint(3, 6)):
            f = fg.gen_formula(rng, max_depth=rng.randint(0, 1))
            q = rng.random()
            if q < 0.35:
                f['suffix'] = '(aq)'
            elif q < 0.65:
                f['suffix'] = rng.choice(keys) if rng.choice(keys) in fg.SUFFIXES else rng.choice(fg.SUFFIXES)
            elif q < 0.85:
                f['suffix'] = ''
            calls.append({'ast': f, 'default': rng.choice([0, 0, None, 5])})
        return {'op': 'phases_history', 'ptype': ptype, 'phases': phases, 'calls': calls}

    def _history_case(self, rng):
        """operation history over Substance/Species.from_formula: constructions with keyword arguments and in-place edits of earlier instances,
        then fresh constructions from the same strings"""
        pool = []
        while len(pool) < rng.randint(1, 3):
            f = fg.gen_formula(rng, max_depth=rng.randint(0, 2))
            if fg.render(f) not in [fg.render(g) for g in pool]:
                pool.append(f)
        steps = []
        for _ in range(rng.randint(2, 8)):
            if rng.random() < 0.6 or not steps:
                i = rng.randrange(len(pool))
                kw = {}
                r = rng.random()
                if r < 0.35 and pool[i]['charge'] is None:
                    kw['charge'] = rng.choice([1, 2, 3, -1, -2])
                elif r < 0.55:
                    kw['data'] = {rng.choice(['mass', 'pKa', 'x']): rng.randint(1, 99)}
                steps.append({'do': 'make', 'cls': rng.choice(['Substance', 'Species']), 'i': i, 'kw': kw})
            else:
                steps.append({'do': 'edit', 'j': rng.randrange(64), 'what': rng.choice(['comp_set', 'comp_set', 'comp_del', 'comp_clear', 'data_set']),
                              'k': rng.choice([0, 1, 6, 8, 26]), 'v': rng.randint(-3, 9)})
        return {'op': 'history', 'pool': pool, 'steps': steps}

    def _species_case(self, rng, f):
        r = rng.random()
        if r < 0.5:
            phases = ['(s)', '(l)', '(g)']
        elif r < 0.7:
            phases = rng.sample(['(s)', '(l)', '(g)', '(aq)', '(cr)'], rng.randint(0, 4))
        else:
            ks = rng.sample(['(s)', '(l)', '(g)', '(aq)'], rng.randint(1, 4))
            phases = [[k, rng.randint(-1, 5)] for k in ks]
        c = {'op': 'species', 'ast': f, 's': fg.render(f), 'phases': phases, 'default': rng.choice([0, 0, 0, None, 7])}
        if rng.random() < 0.15:
            c['phase_idx'] = rng.choice([0, 1, 2, 3, 9, -1])      # explicit keyword: wins over suffix and default
        if rng.random() < 0.04:                                  # a bare str as `phases` is iterated character by character
            c['phases_str'] = rng.choice(['(s)', '(aq)', 's', ')'])
            c['phases'] = list(c['phases_str'])
        return c

    def _reaction_case(self, rng):
        keys = []
        while len(keys) < rng.randint(2, 5):
            f = fg.gen_formula(rng, max_depth=rng.randint(0, 2), plain=rng.random() < 0.5)
            k = fg.render(f)
            if k not in keys:
                keys.append(k)
        nre = rng.randint(1, len(keys) - 1)
        kind = rng.random()

        def coef():
            if kind < 0.55:                                     # ints
                return rng.choice([1, 1, 1, 2, 2, 3, 4, 10, 12, 0])
            if kind < 0.85:                                     # fractions.Fraction, sent as [num, den] (incl. values in (0, 1), 1 and 0)
                return rng.choice([[1, 2], [1, 3], [2, 3], [3, 2], [1, 10], [7, 4], [1, 1], [2, 1], [0, 1], 1, 3])
            return {'float': rng.choice([0.5, 0.25, 1.5, 2.0, 1.0, 0.1, 0.0, 3.0])}      # floats: oracle only (str(float) is not modelled)
        reac = [[k, coef()] for k in keys[:nre]]
        prod = [[k, coef()] for k in keys[nre:]]
        known = [k for k in keys if rng.random() < 0.85]
        c = {'op': 'reaction', 'printer': rng.choice(['str', 'latex', 'unicode', 'html']), 'eq': rng.random() < 0.4,
             'substances': known, 'reac': reac, 'prod': prod}
        if rng.random() < 0.3:                                  # inactive groups ` + ( … )`
            extra = []
            while len(extra) < rng.randint(1, 3):
                k = fg.render(fg.gen_formula(rng, max_depth=1, plain=rng.random() < 0.5))
                if k not in keys + extra:
                    extra.append(k)
            cut = rng.randint(0, len(extra))
            c['inact_reac'] = [[k, coef()] for k in extra[:cut]]
            c['inact_prod'] = [[k, coef()] for k in extra[cut:]]
            c['substances'] = known + [k for k in extra if rng.random() < 0.85]
        return c

    # ------------------------------------------------------------------ correspondence
    @staticmethod
    def _coef(v):
        if isinstance(v, list):
            return Fraction(v[0], v[1])
        if isinstance(v, dict):
            return float(v['float'])
        return v

    def _rxn(self, c):
        from chempy import Reaction, Equilibrium, Substance
        Cls = Equilibrium if c['eq'] else Reaction
        rxn = Cls(dict((k, self._coef(v)) for k, v in c['reac']), dict((k, self._coef(v)) for k, v in c['prod']),
                  inact_reac=dict((k, self._coef(v)) for k, v in c.get('inact_reac', [])),
                  inact_prod=dict((k, self._coef(v)) for k, v in c.get('inact_prod', [])), checks=())
        subst = {k: Substance.from_formula(k) for k in c['substances']}
        return rxn, subst

    def model_case(self, c):
        op = c['op']
        if op == 'ast':
            return {'op': 'ast', 'ast': c['ast']}
        if op == 'fmt':
            return {'op': 'fmt', 'which': c['which'], 's': c['s'], 'suffixes': c['suffixes']}
        if op == 'species':
            m = {'op': 'species', 's': c['s'], 'phases': c['phases'], 'default': c['default']}
            if c.get('phases_str') is not None:
                m['phases_str'] = c['phases_str']
            if c.get('phase_idx') is not None:
                m['phase_idx'] = c['phase_idx']
            return m
        if op in ('history', 'phases_history', 'printer_dispatch'):
            return None                    # stateful / third-party dispatch: oracle only (the model is a pure function; `substance` / `species` cover single calls)
        if op == 'reaction':
            if any(isinstance(v, dict) for _, v in c['reac'] + c['prod'] + c.get('inact_reac', []) + c.get('inact_prod', [])):
                return None                # float coefficients: oracle only
            rxn, _ = self._rxn(c)          # the model prints the STORED order (the constructor sorts plain dicts by key)
            return dict(c, reac=[[k, rat_json(v)] for k, v in rxn.reac.items()], prod=[[k, rat_json(v)] for k, v in rxn.prod.items()],
                        inact_reac=[[k, rat_json(v)] for k, v in rxn.inact_reac.items()],
                        inact_prod=[[k, rat_json(v)] for k, v in rxn.inact_prod.items()])
        return c

    def _three(self, s):
        fns = real_fns()
        outs = [call(fns[w], s) for w in FORMATS]
        return [o[1] if is_exc(o) else o for o in outs], [o[1] if is_exc(o) else UN[w](o) for w, o in zip(FORMATS, outs)]

    def impl(self, c):
        op = c['op']
        if op == 'fmt':
            o = call(real_fns()[c['which']], c['s'], suffixes=tuple(c['suffixes']))
            return o[1] if is_exc(o) else js(o)
        if op == 'text':
            a, b = self._three(c['s'])
            return js(a + b)
        if op == 'ast':
            s = fg.render(c['ast'])
            a, b = self._three(s)
            return js([s] + a + b + [fg.render(canon_ast(c['ast']))] + a)
        if op == 'substance':
            from chempy import Substance
            o = call(Substance.from_formula, c['s'])
            return o[1] if is_exc(o) else js([o.latex_name, o.unicode_name, o.html_name])
        if op == 'species':
            from chempy import Species
            ph = c['phases']
            phases = dict((k, v) for k, v in ph) if ph and isinstance(ph[0], list) else tuple(ph)
            if c.get('phases_str') is not None:
                phases = c['phases_str']
            kw = {'phase_idx': c['phase_idx']} if c.get('phase_idx') is not None else {}
            o = call(Species.from_formula, c['s'], phases, c['default'], **kw)
            return o[1] if is_exc(o) else js([o.latex_name, o.unicode_name, o.html_name, o.phase_idx])
        if op == 'charge':
            from chempy.util.parsing import _get_charge
            o = call(_get_charge, c['s'])
            return o[1] if is_exc(o) else (str(o) if isinstance(o, int) and not isinstance(o, bool) else '!not-an-int:%r' % (o,))
        if op == 'reaction':
            rxn, subst = self._rxn(c)
            meth = {'str': rxn.string, 'latex': rxn.latex, 'unicode': rxn.unicode, 'html': rxn.html}[c['printer']]
            o = call(meth, subst, with_param=False, with_name=False)
            return o[1] if is_exc(o) else js(o)
        return '!unknown-op'

    def same(self, c, io, mo):
        if io == mo:
            return True
        try:
            a, b = json.loads(io), json.loads(mo)
        except Exception:
            return canon_exc(io) == canon_exc(mo)
        if isinstance(a, list) and isinstance(b, list) and len(a) == len(b):
            return all(x == y or (canon_exc(x) == canon_exc(y) and x in REJECT) for x, y in zip(a, b))
        return a == b

    # ------------------------------------------------------------------ the property on the real code
    def oracle(self, c):
        op = c['op']
        if op == 'ast':
            return self._oracle_ast(c['ast'])
        if op == 'species':
            return self._oracle_species(c)
        if op == 'reaction':
            return self._oracle_reaction(c)
        if op == 'history':
            return self._oracle_history(c)
        if op == 'phases_history':
            return self._oracle_phases_history(c)
        if op == 'fmt' and 'ast' in c:
            return self._oracle_fmt(c)
        if op == 'charge':
            return self._oracle_charge(c['s'])
        if op == 'printer_dispatch':
            return self._oracle_dispatch(c)
        return None

    def _oracle_fmt(self, c):
        """formula_to_X(text, suffixes=ANY tuple): whatever the tuple, the written suffix is kept verbatim and undoing the presentation gives back the
        canonical text; a refusal is only legitimate when the written suffix is not in the tuple (it then stays in the text, e.g. after a charge)"""
        f, w, sfx = c['ast'], c['which'], c['suffixes']
        t = fg.render(f)
        o = call(real_fns()[w], t, suffixes=tuple(sfx))
        if is_exc(o):
            if f['suffix'] and f['suffix'] not in sfx and o[1] in REJECT:
                return None
            return 'formula_to_%s(%r, suffixes=%r) raised %s' % (w, t, tuple(sfx), o[1])
        if not o.endswith(f['suffix']):
            return 'formula_to_%s(%r, suffixes=%r) = %r: suffix %r not kept verbatim' % (w, t, tuple(sfx), o, f['suffix'])
        if UN[w](o) != fg.render(canon_ast(f)):
            return 'undoing formula_to_%s(%r, suffixes=%r) = %r gives %r, expected %r' % (w, t, tuple(sfx), o, UN[w](o), fg.render(canon_ast(f)))
        return None

    def _oracle_charge(self, t):
        """`_get_charge`: a sign with an optional magnitude after it is that signed integer (bare sign = 1); a text with both signs, with a
        repeated sign, with a magnitude in front of the sign, or without a sign is refused"""
        from chempy.util.parsing import _get_charge
        o = call(_get_charge, t)
        m = re.fullmatch(r'([+-])([0-9]*)', t)
        if m:
            want = (1 if m.group(1) == '+' else -1) * (int(m.group(2)) if m.group(2) else 1)
            if is_exc(o) or o != want or isinstance(o, bool):
                return '_get_charge(%r) = %r, written charge is %d' % (t, o[1] if is_exc(o) else o, want)
            return None
        bad = ('+' in t and '-' in t) or t.count('+') > 1 or t.count('-') > 1 or not ('+' in t or '-' in t) or re.fullmatch(r'[0-9]+[+-]', t)
        if bad and not is_exc(o):
            return '_get_charge(%r) returned %r for an ill-formed charge text' % (t, o)
        if is_exc(o) and o[1] != 'ValueError':
            return '_get_charge(%r) raised %s (ValueError expected)' % (t, o[1])
        return None

    def _oracle_dispatch(self, c):
        """printer dispatch around species that are not Substances: an object with its own `_html` rendering is shown through it by the HTML
        printer, by `str()` (the fallback) by the others; a plain key is shown as it is; without a fallback function both are refused"""
        from chempy import Reaction, Equilibrium
        from chempy import printing

        class Own(object):
            def __init__(self, name):
                self.name = name

            def _html(self, printer, **kwargs):
                return '<b>%s</b>' % self.name

            def __str__(self):
                return 'str:' + self.name
        Cls = Equilibrium if c['eq'] else Reaction
        rxn = Cls(dict((k, v) for k, v in c['reac']), dict((k, v) for k, v in c['prod']), checks=())
        subst = {k: Own(k) for k in c['own']}
        fn = {'str': printing.str_, 'latex': printing.latex, 'unicode': printing.unicode_, 'html': printing.html}[c['printer']]
        kw = {} if c['fallback'] else {'fallback_print_fn': None}
        out = call(fn, rxn, substances=subst, with_param=False, with_name=False, **kw)
        shown = [k for d in (rxn.reac, rxn.prod) for k, v in d.items() if v != 0]

        def needs_fallback(k):
            return not (k in subst and c['printer'] == 'html')
        if not c['fallback'] and any(needs_fallback(k) for k in shown):
            if is_exc(out) and out[1] == 'ValueError':
                return None
            return '%s printer without fallback_print_fn should refuse species %r, got %r' % (c['printer'], [k for k in shown if needs_fallback(k)], out)
        if is_exc(out):
            return '%s printing with own-rendering species raised %s' % (c['printer'], out[1])

        def name(k):
            if k in subst:
                return '<b>%s</b>' % k if c['printer'] == 'html' else 'str:' + k
            return k

        def side(d):
            return ' + '.join(('' if v == 1 else str(v) + ' ') + name(k) for k, v in d.items() if v != 0)
        want = side(rxn.reac) + ' ' + ARROWS[(c['printer'], c['eq'])] + ' ' + side(rxn.prod)
        if out != want:
            return '%s print with own-rendering species is %r, expected %r' % (c['printer'], out, want)
        return None

    def _oracle_phases_history(self, c):
        """repeated Species.from_formula calls with one shared `phases` object: every call gets the index its suffix selects in the phases AS
        GIVEN by the caller, leaves the caller's object unchanged, and refuses an unselected suffix when default_phase_idx is None"""
        import collections
        from chempy import Species
        ptype, ph = c['ptype'], c['phases']
        isdict = ptype in ('dict', 'odict')
        given_keys = [k for k, _ in ph] if isdict else list(ph)
        given_vals = [v for _, v in ph] if isdict else [i + 1 for i in range(len(ph))]

        def make():
            if ptype == 'tuple':
                return tuple(ph)
            if ptype == 'list':
                return list(ph)
            if ptype == 'dict':
                return dict((k, v) for k, v in ph)
            if ptype == 'odict':
                return collections.OrderedDict((k, v) for k, v in ph)
            return (k for k in list(ph))           # a generator is one-shot by nature: a fresh one per call, same contents

        def snapshot(o):
            return list(o.items()) if isdict else list(o)
        shared = None if ptype == 'gen' else make()
        given = None if ptype == 'gen' else snapshot(shared)
        fns = real_fns()
        for n, call_ in enumerate(c['calls']):
            f, dflt = call_['ast'], call_['default']
            t = fg.render(f)
            obj = make() if ptype == 'gen' else shared
            want = None
            for k, v in zip(given_keys, given_vals):
                if t.endswith(k):
                    want = v
                    break
            if want is None:
                want = dflt
            o = call(Species.from_formula, t, obj, dflt)
            where = 'call %d of %d with one shared %s phases=%r: Species.from_formula(%r, default_phase_idx=%r)' % (
                n + 1, len(c['calls']), ptype, ph, t, dflt)
            if ptype != 'gen' and (snapshot(shared) != given or type(shared) is not type(make())):
                return '%s changed the caller\'s phases object to %r' % (where, snapshot(shared))
            if want is None:
                if not (is_exc(o) and o[1] == 'ValueError'):
                    return '%s should raise ValueError (no phase selected, default None), got %r' % (
                        where, o[1] if is_exc(o) else ('phase_idx', o.phase_idx))
                continue
            if is_exc(o):
                if f['suffix'] and f['suffix'] not in given_keys + ['(aq)']:
                    continue                       # a suffix that stays in the text may legitimately be rejected by the grammar
                return '%s raised %s' % (where, o[1])
            if o.phase_idx != want:
                return '%s: phase_idx = %r, the suffix selects %r in the phases as given' % (where, o.phase_idx, want)
            if f['suffix'] in given_keys + ['(aq)', ''] and set(given_keys) <= set(fg.SUFFIXES):
                for w in FORMATS:
                    ref = call(fns[w], t)
                    if not is_exc(ref) and getattr(o, w + '_name') != ref:
                        return '%s: %s_name = %r, formula_to_%s gives %r' % (where, w, getattr(o, w + '_name'), w, ref)
                want_comp = fg.composition(int_ast(f))
                if set(o.composition) != set(want_comp) or any(not close(o.composition[k], v, 1e-12, 0.0) for k, v in want_comp.items()):
                    return '%s: composition = %r, written %r' % (where, o.composition, {k: str(v) for k, v in want_comp.items()})
        return None

    def _oracle_history(self, c):
        """after every step a fresh from_formula(s) carries exactly the names / composition / phase index of the AST and shares no mutable
        state with any earlier instance"""
        from chempy import Substance, Species
        pool = c['pool']
        texts = [fg.render(f) for f in pool]
        comps = [fg.composition(int_ast(f)) for f in pool]
        want_idx = [{'(s)': 1, '(l)': 2, '(g)': 3}.get(f['suffix'], 0) for f in pool]
        fns = real_fns()
        names = []
        for f, t in zip(pool, texts):                   # the names a formula must have (checked against the AST through the inverse maps)
            nm = {}
            for w in FORMATS:
                o = call(fns[w], t)
                if is_exc(o):
                    return 'formula_to_%s(%r) raised %s' % (w, t, o[1])
                if UN[w](o) != fg.render(canon_ast(f)):
                    return 'undoing the %s presentation of %r (%r) gives %r' % (w, t, o, UN[w](o))
                nm[w] = o
            names.append(nm)
        instances = []

        def same_comp(got, want):
            return set(got) == set(want) and all(close(got[k], v, 1e-12, 0.0) for k, v in want.items())

        def check_fresh(after):
            for i, t in enumerate(texts):
                for Cls in (Substance, Species):
                    a = call(Cls.from_formula, t)
                    b = call(Cls.from_formula, t)
                    for o in (a, b):
                        if is_exc(o):
                            return '%s: %s.from_formula(%r) raised %s' % (after, Cls.__name__, t, o[1])
                        for w in FORMATS:
                            if getattr(o, w + '_name') != names[i][w]:
                                return '%s: fresh %s.from_formula(%r).%s_name = %r, expected %r' % (after, Cls.__name__, t, w, getattr(o, w + '_name'), names[i][w])
                        if not same_comp(o.composition, comps[i]):
                            return '%s: fresh %s.from_formula(%r).composition = %r, the written composition is %r' % (
                                after, Cls.__name__, t, o.composition, {k: str(v) for k, v in comps[i].items()})
                        if o.data != {}:
                            return '%s: fresh %s.from_formula(%r).data = %r, expected {}' % (after, Cls.__name__, t, o.data)
                        if Cls is Species and o.phase_idx != want_idx[i]:
                            return '%s: fresh Species.from_formula(%r).phase_idx = %r, the suffix selects %r' % (after, t, o.phase_idx, want_idx[i])
                    olds = [x for x in instances] + [a]
                    for x in olds:
                        if b.composition is x.composition or b.data is x.data:
                            return '%s: a fresh %s.from_formula(%r) shares its %s dict with an earlier instance' % (
                                after, Cls.__name__, t, 'composition' if b.composition is x.composition else 'data')
            return None

        r = check_fresh('before any step')
        if r:
            return r
        for n, st in enumerate(c['steps']):
            desc = 'after step %d %r' % (n, st)
            if st['do'] == 'make':
                Cls = Substance if st['cls'] == 'Substance' else Species
                i = st['i']
                kw = dict(st['kw'])
                if 'data' in kw:
                    kw['data'] = dict(kw['data'])
                o = call(Cls.from_formula, texts[i], **kw)
                if is_exc(o):
                    return '%s: raised %s' % (desc, o[1])
                want = dict(comps[i])
                if 'charge' in kw:
                    want[0] = kw['charge']
                if not same_comp(o.composition, want):
                    return '%s: composition = %r, expected %r' % (desc, o.composition, {k: str(v) for k, v in want.items()})
                if o.data != kw.get('data', {}):
                    return '%s: data = %r' % (desc, o.data)
                instances.append(o)
            elif instances:
                o = instances[st['j'] % len(instances)]
                if st['what'] == 'comp_set':
                    o.composition[st['k']] = st['v']
                elif st['what'] == 'comp_del':
                    o.composition.pop(st['k'], None)
                elif st['what'] == 'comp_clear':
                    o.composition.clear()
                else:
                    o.data['edited'] = st['v']
            r = check_fresh(desc)
            if r:
                return r
        return None

    def _oracle_ast(self, f):
        from chempy.util.parsing import formula_to_composition
        from chempy import Substance
        s = fg.render(f)
        want_canon = fg.render(canon_ast(f))
        want_comp = fg.composition(int_ast(f))
        fns = real_fns()
        sub = call(Substance.from_formula, s)
        if is_exc(sub):
            return 'Substance.from_formula(%r) raised %s' % (s, sub[1])
        for w in FORMATS:
            out = call(fns[w], s)
            if is_exc(out):
                return 'formula_to_%s(%r) raised %s; the formula is well-formed' % (w, s, out[1])
            if getattr(sub, w + '_name') != out:
                return 'Substance.from_formula(%r).%s_name = %r but formula_to_%s gives %r' % (s, w, getattr(sub, w + '_name'), w, out)
            want_pre = ''.join(prefix_symbol(w, p) for p in f['prefixes'])
            if not out.startswith(want_pre):
                return 'formula_to_%s(%r) = %r: prefixes %r are not shown as %r' % (w, s, out, f['prefixes'], want_pre)
            if not out.endswith(f['suffix']):
                return 'formula_to_%s(%r) = %r: suffix %r not kept verbatim' % (w, s, out, f['suffix'])
            subs_, sups = subscripts(w, out[len(want_pre):]), superscripts(w, out[len(want_pre):])
            if subs_ != count_texts(f):
                return 'formula_to_%s(%r) = %r: subscripts %r, written counts %r' % (w, s, out, subs_, count_texts(f))
            want_sup = [] if (f['charge'] is None or is_zero_charge(f['charge'])) else [charge_token(f['charge'])]
            if sups != want_sup:
                return 'formula_to_%s(%r) = %r: superscripts %r, expected %r' % (w, s, out, sups, want_sup)
            back = UN[w](out)
            if back != want_canon:
                return 'undoing the %s presentation of %r (%r) gives %r, expected %r' % (w, s, out, back, want_canon)
            comp = call(formula_to_composition, back)
            if is_exc(comp):
                return 'undone %s presentation %r of %r does not parse: %s' % (w, back, s, comp[1])
            want_back = {k: v for k, v in want_comp.items() if not (k == 0 and is_zero_charge(f['charge']))}   # only 0 -> 0 may go
            if set(comp) != set(want_back) or any(not close(comp[k], v, 1e-12, 0.0) for k, v in want_back.items()):
                return 'undone %s presentation %r of %r has composition %r, written %r' % (w, back, s, comp, want_comp)
        if set(sub.composition) != set(want_comp) or any(not close(sub.composition[k], v, 1e-12, 0.0) for k, v in want_comp.items()):
            return 'Substance.from_formula(%r).composition = %r, written %r' % (s, sub.composition, want_comp)
        return None

    def _oracle_species(self, c):
        from chempy import Species
        f, s, ph = c['ast'], c['s'], c['phases']
        isdict = bool(ph) and isinstance(ph[0], list)
        phases = dict((k, v) for k, v in ph) if isdict else tuple(ph)
        if c.get('phases_str') is not None:
            phases = c['phases_str']
        keys = [k for k, _ in ph] if isdict else list(ph)
        # the phase the suffix selects (first phase in iteration order the text ends with; the AST's suffix, or its final state token)
        want = None
        for i, k in enumerate(keys):
            if s.endswith(k):
                want = ph[i][1] if isdict else i + 1
                break
        if want is None:
            want = c['default']
        kw = {}
        if c.get('phase_idx') is not None:                      # an explicit phase_idx keyword is carried as it is, nothing is refused for the phase
            want = c['phase_idx']
            kw = {'phase_idx': c['phase_idx']}
        o = call(Species.from_formula, s, phases, c['default'], **kw)
        if want is None:
            return None if is_exc(o) and o[1] == 'ValueError' else 'Species.from_formula(%r, %r, None) should raise ValueError, got %r' % (s, phases, o)
        if is_exc(o):
            # a suffix outside phases + (aq) stays in the text: formulas ending in such a token may legitimately be rejected
            if f['suffix'] and f['suffix'] not in keys + ['(aq)'] and o[1] in REJECT:
                return None
            if c.get('phases_str') is not None and o[1] in REJECT:
                return None                # a bare str is iterated by characters: stripping ')' etc. leaves a text the grammar rightly rejects
            return 'Species.from_formula(%r, %r) raised %s' % (s, phases, o[1])
        if o.phase_idx != want:
            return 'Species.from_formula(%r, %r).phase_idx = %r, the suffix selects %r' % (s, phases, o.phase_idx, want)
        if c.get('phases_str') is not None:
            return None                    # characters of a bare str are stripped as "suffixes" (the `a` of `Na`): only the index is claimed there
        want_canon = fg.render(canon_ast(f))                    # whatever the phases: names undo to the canonical text, composition is the written one
        for w in FORMATS:
            if UN[w](getattr(o, w + '_name')) != want_canon:
                return 'Species.from_formula(%r, %r).%s_name = %r undoes to %r, expected %r' % (
                    s, phases, w, getattr(o, w + '_name'), UN[w](getattr(o, w + '_name')), want_canon)
        want_comp = fg.composition(int_ast(f))
        if set(o.composition) != set(want_comp) or any(not close(o.composition[k], v, 1e-12, 0.0) for k, v in want_comp.items()):
            return 'Species.from_formula(%r, %r).composition = %r, written %r' % (s, phases, o.composition, {k: str(v) for k, v in want_comp.items()})
        if f['suffix'] in keys + ['(aq)', ''] and set(keys) <= set(fg.SUFFIXES):
            fns = real_fns()
            for w in FORMATS:
                ref = call(fns[w], s)
                if not is_exc(ref) and getattr(o, w + '_name') != ref:
                    return 'Species.from_formula(%r, %r).%s_name = %r, formula_to_%s gives %r' % (s, phases, w, getattr(o, w + '_name'), w, ref)
        return None

    def _oracle_reaction(self, c):
        rxn, subst = self._rxn(c)
        pr = c['printer']
        meth = {'str': rxn.string, 'latex': rxn.latex, 'unicode': rxn.unicode, 'html': rxn.html}[pr]
        out = call(meth, subst, with_param=False, with_name=False)
        if is_exc(out):
            return '%s printing of %r raised %s' % (pr, c, out[1])
        fns = real_fns()

        def name(k):
            if k not in subst or pr == 'str':
                return k
            return fns[pr](k)

        def side(d):
            return ' + '.join(('' if v == 1 else str(v) + ' ') + name(k) for k, v in d.items() if v != 0)
        def group(d):
            t = side(d)
            return ' + ( ' + t + ')' if t else ''
        want = side(rxn.reac) + group(rxn.inact_reac) + ' ' + ARROWS[(pr, c['eq'])] + ' ' + side(rxn.prod) + group(rxn.inact_prod)
        if out != want:
            return '%s print of reaction %r / %r is %r, expected %r' % (pr, list(rxn.reac.items()), list(rxn.prod.items()), out, want)
        return None

    def classify(self, c):
        op = c['op']
        if op == 'ast':
            f = c['ast']
            return 'ast:depth%d%s%s%s%s%s' % (fg.depth(f), ':dec' if fg.has_decimal(f) else '', ':chg' if f['charge'] else '',
                                             ':hyd' if len(f['parts']) > 1 else '', ':pre' if f['prefixes'] else '', ':sfx' if f['suffix'] else '')
        if op == 'history':
            return 'history:%dsteps' % len(c['steps'])
        if op == 'phases_history':
            return 'phases_history:%s:%dcalls' % (c['ptype'], len(c['calls']))
        if op == 'reaction':
            return 'reaction:%s:%s' % (c['printer'], 'eq' if c['eq'] else 'rxn')
        if op == 'species':
            return 'species:%s' % ('dict' if c['phases'] and isinstance(c['phases'][0], list) else 'seq')
        return op

    def nontrivial(self, c):
        s = fg.render(c['ast']) if 'ast' in c else c.get('s', 'xx')
        return len(s) >= 2

    def shrink(self, case, still_fails):
        if case.get('op') == 'phases_history':
            calls = list(case['calls'])
            changed = True
            while changed and len(calls) > 1:
                changed = False
                for i in range(len(calls)):
                    c2 = dict(case, calls=calls[:i] + calls[i + 1:])
                    try:
                        if still_fails(c2):
                            calls, changed = c2['calls'], True
                            break
                    except Exception:
                        pass
            return dict(case, calls=calls)
        if case.get('op') == 'history':
            steps = list(case['steps'])
            changed = True
            while changed and len(steps) > 1:
                changed = False
                for i in range(len(steps)):
                    c2 = dict(case, steps=steps[:i] + steps[i + 1:])
                    try:
                        if still_fails(c2):
                            steps, changed = c2['steps'], True
                            break
                    except Exception:
                        pass
            return dict(case, steps=steps)
        if case.get('op') != 'ast':
            return case
        f = case['ast']
        for attempt in range(40):
            changed = False
            for cand in self._smaller(f):
                c2 = dict(case, ast=cand)
                try:
                    if still_fails(c2):
                        f, changed = cand, True
                        break
                except Exception:
                    pass
            if not changed:
                break
        return dict(case, ast=f)

    def _smaller(self, f):
        if len(f['parts']) > 1:
            for i in range(len(f['parts'])):
                g = copy.deepcopy(f)
                del g['parts'][i]
                g['parts'][0]['n'] = None
                yield g
        for i, p in enumerate(f['parts']):
            if len(p['terms']) > 1:
                for j in range(len(p['terms'])):
                    g = copy.deepcopy(f)
                    del g['parts'][i]['terms'][j]
                    yield g
            for j, t in enumerate(p['terms']):
                if t['t'] != 'el':
                    g = copy.deepcopy(f)
                    g['parts'][i]['terms'][j:j + 1] = t['body']
                    yield g
        for key, val in (('prefixes', []), ('suffix', ''), ('charge', None)):
            if f[key]:
                g = copy.deepcopy(f)
                g[key] = val
                yield g
        if len(f['prefixes']) > 1:
            for i in range(len(f['prefixes'])):
                g = copy.deepcopy(f)
                del g['prefixes'][i]
                yield g


PROPERTY = C13()
