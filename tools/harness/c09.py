"""C09 — unit conversion is exact, reversible, and refuses incompatible dimensions.

Cases are SYMBOLIC: a quantity is {"mag": float, "u": [[unit_name, exponent], ...]} (or {"num": x} for a plain
number).  From one description the harness builds
  * the real `quantities` object            (`_real`: mag * prod(getattr(default_units, name) ** e))
  * its own exact bookkeeping                (`_book`: Fraction factor and exponent vector from the table `UNITS` below)
  * the JSON sent to the Lean model          (`_mj`)
The table `UNITS` is written by hand here and is independent of both `quantities`' tables and the Lean model
(chempy's own units are written out from their physical definitions; only e and N_A are read from `quantities.constants`).
"""
from fractions import Fraction
from functools import reduce
import json, math, operator, os, struct, warnings
from lib.framework import Property, VERIF
from .util import rat_json, exc_name, close

F = Fraction
KEYS = ['length', 'mass', 'time', 'current', 'temperature', 'luminous_intensity', 'amount']
L, M, T, I, TH, J, N = range(7)


def _d(**kw):
    v = [0] * 7
    for k, e in kw.items():
        v[{'L': L, 'M': M, 'T': T, 'I': I, 'TH': TH, 'J': J, 'N': N}[k]] = e
    return tuple(v)


# attribute name on chempy.units.default_units -> (factor relative to SI, exponent vector)
BASE_UNITS = {
    'm': (F(1), _d(L=1)), 'cm': (F(1, 100), _d(L=1)), 'mm': (F(1, 1000), _d(L=1)), 'km': (F(1000), _d(L=1)),
    'um': (F(1, 10**6), _d(L=1)), 'nm': (F(1, 10**9), _d(L=1)), 'dm': (F(1, 10), _d(L=1)),
    'kg': (F(1), _d(M=1)), 'g': (F(1, 1000), _d(M=1)), 'mg': (F(1, 10**6), _d(M=1)),
    's': (F(1), _d(T=1)), 'ms': (F(1, 1000), _d(T=1)), 'minute': (F(60), _d(T=1)), 'hour': (F(3600), _d(T=1)),
    'A': (F(1), _d(I=1)), 'mA': (F(1, 1000), _d(I=1)),
    'K': (F(1), _d(TH=1)), 'mK': (F(1, 1000), _d(TH=1)), 'degR': (F(5, 9), _d(TH=1)),
    'mol': (F(1), _d(N=1)), 'mmol': (F(1, 1000), _d(N=1)), 'umol': (F(1, 10**6), _d(N=1)),
    'cd': (F(1), _d(J=1)),
}
BY_DIM = {L: ['m', 'cm', 'mm', 'km', 'um', 'nm', 'dm'], M: ['kg', 'g', 'mg'], T: ['s', 'ms', 'minute', 'hour'],
          I: ['A', 'mA'], TH: ['K', 'K', 'mK', 'degR'], J: ['cd'], N: ['mol', 'mmol', 'umol']}
LATTICE_DIMS = [L, M, T, I, TH, N]
_E_J = _d(M=1, L=2, T=-2)            # energy


def _own_units():
    """chempy's own units from their physical definitions (units.py 44-102)"""
    import quantities as pq
    # `pq.eV` carries its own value of the elementary charge (it differs from pq.constants.elementary_charge in the 8th digit)
    e = F(repr(float(pq.eV.simplified.magnitude)))
    na = F(repr(float(pq.constants.Avogadro_constant.simplified.magnitude)))
    conc = _d(N=1, L=-3)
    return {
        'molar': (F(1000), conc), 'millimolar': (F(1), conc), 'micromolar': (F(1, 1000), conc), 'nanomolar': (F(1, 10**6), conc),
        'molal': (F(1), _d(N=1, M=-1)),
        'per100eV': (1 / (100 * e * na), _d(N=1, M=-1, L=-2, T=2)),
        'micromole': (F(1, 10**6), _d(N=1)), 'nanomole': (F(1, 10**9), _d(N=1)),
        'kilojoule': (F(1000), _E_J), 'kilogray': (F(1000), _d(L=2, T=-2)),
        'perMolar_perSecond': (F(1, 1000), _d(L=3, N=-1, T=-1)),
        'umol_per_J': (F(1, 10**6), _d(N=1, M=-1, L=-2, T=2)),
        'm3': (F(1), _d(L=3)), 'dm3': (F(1, 1000), _d(L=3)), 'cm3': (F(1, 10**6), _d(L=3)),
        'decimetre': (F(1, 10), _d(L=1)),
        # named derived units of `quantities` (their `.simplified` is what get_physical_dimensionality / unit_of(simplified=True) rely on)
        'L': (F(1, 1000), _d(L=3)), 'mL': (F(1, 10**6), _d(L=3)), 'J': (F(1), _E_J), 'cal': (F(4184, 1000), _E_J), 'eV': (e, _E_J),
        'N': (F(1), _d(M=1, L=1, T=-2)), 'Pa': (F(1), _d(M=1, L=-1, T=-2)), 'kPa': (F(1000), _d(M=1, L=-1, T=-2)), 'bar': (F(10**5), _d(M=1, L=-1, T=-2)),
        'W': (F(1), _d(M=1, L=2, T=-3)), 'C': (F(1), _d(I=1, T=1)), 'V': (F(1), _d(M=1, L=2, T=-3, I=-1)), 'mV': (F(1, 1000), _d(M=1, L=2, T=-3, I=-1)),
        'Hz': (F(1), _d(T=-1)),
    }


OWN_FOR_LATTICE = ['molar', 'millimolar', 'micromolar', 'nanomolar', 'molal', 'per100eV', 'micromole', 'nanomole',
                   'kilojoule', 'kilogray', 'perMolar_perSecond', 'umol_per_J', 'dm3', 'cm3',
                   'L', 'mL', 'J', 'cal', 'eV', 'N', 'Pa', 'kPa', 'bar', 'W', 'C', 'V', 'mV', 'Hz']

# what each key of get_derived_unit NAMES, as a physical dimension (specification, written here by hand)
DERIVED_SPEC = {
    'diffusivity': _d(L=2, T=-1), 'diffusion': _d(L=2, T=-1), 'electrical_mobility': _d(I=1, T=2, M=-1),
    'permittivity': _d(I=2, T=4, L=-3, M=-1), 'charge': _d(I=1, T=1), 'energy': _E_J, 'concentration': _d(N=1, L=-3),
    'density': _d(M=1, L=-3), 'radiolytic_yield': _d(N=1, M=-1, L=-2, T=2), 'doserate': _d(L=2, T=-3),
    'linear_energy_transfer': _d(M=1, L=1, T=-2),
}
DIM_CONST_SPEC = {'time': _d(T=1), 'length': _d(L=1), 'mass': _d(M=1), 'current': _d(I=1), 'temperature': _d(TH=1),
                  'amount': _d(N=1), 'energy': _E_J, 'volume': _d(L=3), 'concentration': _d(N=1, L=-3)}
# standard prefixed units of `quantities` used for the human-readable round trip, micro-prefixed ones included (their unicode
# u_symbol 'µm' cannot be parsed back; since the fix 0a550a1 chempy stores the plain `.symbol` 'um')
HR_UNITS = {'length': ['m', 'cm', 'mm', 'km', 'nm', 'dm', 'um'], 'mass': ['kg', 'g', 'mg'], 'time': ['s', 'ms', 'minute', 'hour'],
            'current': ['A', 'mA'], 'temperature': ['K', 'mK'], 'luminous_intensity': ['cd'], 'amount': ['mol', 'mmol', 'umol']}
HR_MICRO = {'length': 'um', 'amount': 'umol'}

RTOL = 1e-12
_CLS = {'UnitLength': L, 'UnitMass': M, 'UnitTime': T, 'UnitCurrent': I, 'UnitTemperature': TH,
        'UnitLuminousIntensity': J, 'UnitSubstance': N}
_units_cache = {}


def UNITS():
    if not _units_cache:
        _units_cache.update(BASE_UNITS)
        _units_cache.update(_own_units())
    return _units_cache


# ---------------------------------------------------------------------------------------------------------------
def _chempy():
    from chempy import units
    return units


def _dadd(a, b, k=1):
    return tuple(x + k * y for x, y in zip(a, b))


def _book_u(ulist):
    f, d = F(1), (0,) * 7
    for name, e in ulist:
        uf, ud = UNITS()[name]
        f *= uf ** e
        d = _dadd(d, ud, e)
    return f, d


def _book(q):
    """(magnitude, unit factor, dims) with exact fractions; a plain number is dimensionless with factor 1"""
    if 'num' in q:
        return F(q['num']), F(1), (0,) * 7
    f, d = _book_u(q['u'])
    return F(q['mag']), f, d


def _si(q):
    m, f, _ = _book(q)
    return m * f


def _real(q):
    cu = _chempy()
    u = cu.default_units
    if 'num' in q:
        return q['num']
    if q.get('dtype'):                   # a 0-d quantity whose magnitude is stored in a reduced-precision / integer dtype
        import numpy as np
        unit = cu.pq.dimensionless * 1.0
        for name, e in q['u']:
            unit = unit * getattr(u, name) ** e
        return cu.pq.Quantity(np.array(q['mag'], dtype=q['dtype']), unit.dimensionality)
    r = q['mag'] * cu.pq.dimensionless if not q['u'] else q['mag']
    for name, e in q['u']:
        r = r * getattr(u, name) ** e
    return r


def _real_val(v):
    """nested containers: {"l": [...]}, {"t": [...]} tuple, {"k": [[key, v]...]}, {"s": str}, {"arr": {...}} quantity array"""
    import numpy as np
    if 'l' in v:
        return [_real_val(x) for x in v['l']]
    if 't' in v:
        return tuple(_real_val(x) for x in v['t'])
    if 'k' in v:
        return {k: _real_val(x) for k, x in v['k']}
    if 's' in v:
        return v['s']
    if 'oa' in v:                       # object-dtype ndarray; rows given as nested 'oa' make it 2-D
        rows = v['oa']
        if rows and all('oa' in r for r in rows) and len({len(r['oa']) for r in rows}) == 1:
            a = np.empty((len(rows), len(rows[0]['oa'])), dtype=object)
            for i, r in enumerate(rows):
                for j, x in enumerate(r['oa']):
                    a[i, j] = _real_val(x)
            return a
        a = np.empty(len(rows), dtype=object)
        for i, x in enumerate(rows):
            a[i] = _real_val(x)
        return a
    if 'it' in v:                       # a non-list iterable: generator or dict view (outside the statement of C09; mirrored only)
        items = [_real_val(x) for x in v['it']['items']]
        if v['it']['kind'] == 'values':
            return {i: x for i, x in enumerate(items)}.values()
        return (x for x in items)
    if 'z' in v:                        # 0-d ndarray
        if v['z']['obj']:
            a = np.empty((), dtype=object)
            a[()] = _real(v['z']['v'])
            return a
        return np.array(float(v['z']['v']['num']))
    if 'arr' in v:
        dt = v['arr'].get('dtype') or float
        if not v['arr']['u']:
            return np.array(v['arr']['mags'], dtype=dt)
        if v['arr'].get('dtype'):
            return _chempy().pq.Quantity(np.array(v['arr']['mags'], dtype=dt), _real({'mag': 1.0, 'u': v['arr']['u']}).dimensionality)
        return np.array(v['arr']['mags'], dtype=float) * _real({'mag': 1.0, 'u': v['arr']['u']})
    return _real(v)


def _mj(q):
    m, f, d = _book(q)
    if 'num' in q:
        return {'n': rat_json(m)}
    return {'m': rat_json(m), 'f': rat_json(f), 'd': list(d)}


def _mj_val(v):
    if 'l' in v or 't' in v:
        return {'l': [_mj_val(x) for x in v.get('l', v.get('t'))]}
    if 'k' in v:
        return {'k': [[k, _mj_val(x)] for k, x in v['k']]}
    if 's' in v:
        return {'s': 1}
    if 'it' in v:
        return {'it': [_mj_val(x) for x in v['it']['items']]}
    if 'oa' in v:
        return {'oa': [_mj_val(x) for x in v['oa']]}
    if 'z' in v:
        return {'z': {'obj': bool(v['z']['obj']), 'v': _mj(v['z']['v'])}}
    if 'arr' in v:
        a = v['arr']
        if not a['u']:                  # a plain numeric ndarray: its own branch of to_unitless (units.py 371-374)
            return {'nd': [rat_json(F(m)) for m in a['mags']]}
        return {'l': [_mj({'mag': m, 'u': a['u']}) for m in a['mags']]}
    return _mj(v)


def _leaves(v):
    if 'l' in v or 't' in v:
        return [y for x in v.get('l', v.get('t')) for y in _leaves(x)]
    if 'k' in v:
        return [y for _, x in v['k'] for y in _leaves(x)]
    if 's' in v:
        return [v]
    if 'it' in v:
        return [y for x in v['it']['items'] for y in _leaves(x)]
    if 'oa' in v:
        return [y for x in v['oa'] for y in _leaves(x)]
    if 'z' in v:
        return [v['z']['v']]
    if 'arr' in v:
        a = v['arr']
        return [({'mag': m, 'u': a['u']} if a['u'] else {'num': m}) for m in a['mags']]
    return [v]


def _has_plain_ndarray(v):
    if 'arr' in v:
        return not v['arr']['u']
    if 'l' in v or 't' in v:
        return any(_has_plain_ndarray(x) for x in v.get('l', v.get('t')))
    if 'k' in v:
        return any(_has_plain_ndarray(x) for _, x in v['k'])
    return False


def _has_iterable(v):
    if 'it' in v:
        return True
    for key in ('l', 't', 'oa'):
        if key in v:
            return any(_has_iterable(x) for x in v[key])
    if 'k' in v:
        return any(_has_iterable(x) for _, x in v['k'])
    return False


def _hr_table(cu, symbols):
    """what the third-party unit-string parser makes of each symbol: {symbol: [[symbol of unit object, factor, dims, exponent]...]}; unparseable: absent"""
    table = {}
    for sym in symbols:
        if sym in table or not isinstance(sym, str):
            continue
        try:
            items = list(cu.pq.Quantity(0, sym).dimensionality.items())
        except LookupError:
            continue
        ent = []
        for po, pe in items:
            pf, pd = _book_of_real_unit(1 * po)
            ent.append([po.symbol, rat_json(F(pf)), list(pd), int(pe)])
        table[sym] = ent
    return table


def _arrarg(x, legacy_scalar=False):
    """normalise an allclose operand: ('scalar', q) | ('arr', [q…]) | ('arr2', [[q…]…]); legacy: a bare quantity = scalar, a list = array"""
    if x is None:
        return None
    if isinstance(x, list):
        return ('scalar', x[0]) if legacy_scalar else ('arr', x)
    for k in ('scalar', 'arr', 'arr2'):
        if k in x:
            return (k, x[k])
    return ('scalar', x)


def _nd_leaves(d):
    return [d] if isinstance(d, dict) else [y for x in d for y in _nd_leaves(x)]


def _nd_map(d, f):
    return f(d) if isinstance(d, dict) else [_nd_map(x, f) for x in d]


def _nd_real(d, like=None):
    """a `quantities` array (any nesting) holding the described quantities, in the unit of its first leaf (`like`: unit for an empty array)"""
    import numpy as np
    lv = _nd_leaves(d)
    q0 = lv[0] if lv else like
    if 'num' in q0:
        return np.array(_nd_map(d, lambda q: float(q['num'])), dtype=float)
    f0 = _book(q0)[1]
    return np.array(_nd_map(d, lambda q: float(_si(q) / f0)), dtype=float) * _real({'mag': 1.0, 'u': q0['u']})


def _nd_si(d):
    import numpy as np
    a = np.empty(np.shape(_nd_map(d, lambda q: 0)), dtype=object)
    flat = [_si(q) for q in _nd_leaves(d)]
    a.ravel()[:] = flat if flat else []
    return a


def _real_arrarg(t, like=None):
    kind, v = t
    return _real(v) if kind == 'scalar' else _nd_real(v, like)


def _model_arrarg(t, ncols_of=None):
    kind, v = t
    if kind == 'scalar':
        return {'scalar': _mj(v)}
    return {'arr': [_mj(q) for q in _nd_leaves(v)]}


def _cval_real(v):
    if v is None:
        return None
    if 'str' in v:
        return v['str']
    if 'l' in v:
        return [_cval_real(x) for x in v['l']]
    if 't' in v:
        return tuple(_cval_real(x) for x in v['t'])
    if 'k' in v:
        return {k: _cval_real(x) for k, x in v['k']}
    return _real(v)


def _cval_mj(v):
    if v is None:
        return None
    if 'str' in v:
        return {'s': v['str']}
    if 'l' in v:
        return {'l': [_cval_mj(x) for x in v['l']]}
    if 't' in v:
        return {'t': [_cval_mj(x) for x in v['t']]}
    if 'k' in v:
        return {'k': [[k, _cval_mj(x)] for k, x in v['k']]}
    return _mj(v)


def _has_zerod(v):
    if 'z' in v:
        return True
    for key in ('l', 't', 'oa'):
        if key in v:
            return any(_has_zerod(x) for x in v[key])
    if 'k' in v:
        return any(_has_zerod(x) for _, x in v['k'])
    return False


def _call_to_unitless(cu, c):
    """`omit`: the target argument is left out altogether (default new_unit=None)"""
    if c.get('omit'):
        return cu.to_unitless(_real_val(c['v']))
    return cu.to_unitless(_real_val(c['v']), None if c['u'] is None else _real(c['u']))


_name_cache = {}


def _unit_names():
    """quantities unit object name -> table name"""
    if not _name_cache:
        u = _chempy().default_units
        names = {}
        for n in UNITS():
            nm = getattr(getattr(u, n), 'name', None)          # m3, dm3, … are plain quantities without a name
            if nm is not None:
                names[nm] = n
        _name_cache.update(names)
    return _name_cache


def _book_of_real_unit(x):
    """independent bookkeeping of the unit of a real result: from its UNSIMPLIFIED dimensionality via the table
    (falls back to `.simplified` for a unit object that is not in the table)"""
    f, d = F(1), (0,) * 7
    names = _unit_names()
    for uo, e in x.dimensionality.items():
        n = names.get(uo.name)
        if n is None or int(e) != e:
            s = x.units.simplified
            dd = [0] * 7
            for bo, be in s.dimensionality.items():
                dd[{'UnitLength': L, 'UnitMass': M, 'UnitTime': T, 'UnitCurrent': I, 'UnitTemperature': TH,
                    'UnitLuminousIntensity': J, 'UnitSubstance': N}[type(bo).__name__]] = int(be)
            return float(s.magnitude), tuple(dd)
        uf, ud = UNITS()[n]
        f *= uf ** int(e)
        d = _dadd(d, ud, int(e))
    return f, d


class NonFinite(Exception):
    """the real code RETURNED inf/nan (no exception): canonical token, matched by the model's `Err.nonFinite`"""


def _jf(x):
    """number for the impl-side JSON (floats with full precision); a non-finite result becomes the token `NonFinite`"""
    x = float(x)
    if math.isinf(x) or math.isnan(x):
        raise NonFinite()
    return x


def _pv(x):
    """a real scalar result as the JSON of a model PyVal"""
    if hasattr(x, 'dimensionality'):
        f, d = _book_of_real_unit(x)
        return {'m': _jf(x.magnitude), 'f': _jf(f), 'd': list(d)}
    return {'n': _jf(x)}


def _pv_list(x):
    """a real array result (Quantity array, ndarray or list of quantities) as a list of PyVal JSON"""
    import numpy as np
    if hasattr(x, 'dimensionality'):
        f, d = _book_of_real_unit(x)
        return [{'m': _jf(m), 'f': _jf(f), 'd': list(d)} for m in np.atleast_1d(x.magnitude)]
    return [_pv(e) for e in (np.atleast_1d(x) if isinstance(x, np.ndarray) else x)]


def _res(x):
    import numpy as np
    if isinstance(x, dict):
        return {'k': [[k, _res(v)] for k, v in x.items()]}
    if isinstance(x, (list, tuple, np.ndarray)) and getattr(x, 'ndim', 1) > 0:
        return [_res(e) for e in x]
    if hasattr(x, 'dimensionality'):
        raise AssertionError('to_unitless returned a quantity')
    return _jf(x)


def _num_eq(a, b, tol):
    """a: impl value (float/int), b: model value ("n/d" string or number)"""
    try:
        fa = float(a)
        fb = float(F(b)) if isinstance(b, str) else float(b)
    except (ValueError, ZeroDivisionError, TypeError):
        return False
    if not (math.isfinite(fa) and math.isfinite(fb)):
        return False          # inf/nan never match a number (`inf <= tol*inf` would accept anything); they are tokens (`NonFinite`)
    return abs(fa - fb) <= tol * max(abs(fa), abs(fb)) + 1e-300


def _same_json(a, b, tol):
    if isinstance(a, bool) or isinstance(b, bool):
        return a is b
    if isinstance(a, dict) and isinstance(b, dict):
        return set(a) == set(b) and all(_same_json(a[k], b[k], tol) for k in a)
    if isinstance(a, list) and isinstance(b, list):
        return len(a) == len(b) and all(_same_json(x, y, tol) for x, y in zip(a, b))
    if isinstance(a, str) and isinstance(b, str):
        if a == b:
            return True
        try:
            return _num_eq(F(a), b, tol)
        except (ValueError, ZeroDivisionError):
            return False
    if isinstance(a, (int, float)) and isinstance(b, (int, float, str)):
        if isinstance(a, int) and isinstance(b, int):
            return a == b
        return _num_eq(a, b, tol)
    return False


def _bits_to_float(n):
    return struct.unpack('<d', struct.pack('<Q', int(n)))[0]


# ---------------------------------------------------------------------------------------------------------------
# generators
def _mag(rng):
    r = rng.random()
    if r < 0.35:
        return float(rng.randint(1, 1000))
    if r < 0.6:
        return rng.choice([0.25, 0.5, 1.5, 2.5e-3, 12.5, 1e-6, 3e8, 7.25e-9, 6.02e23])
    if r < 0.7:
        return -float(rng.randint(1, 50))
    if r < 0.73:
        return 0.0
    return float('%.6g' % (rng.uniform(0.1, 10) * 10 ** rng.randint(-6, 6)))


def _lattice(rng, own_p=0.3):
    """a product of powers (-3..3) of base/prefixed units of the six dimensions, optionally times chempy's own units"""
    us = []
    for dim in rng.sample(LATTICE_DIMS, rng.randint(1, 4)):
        e = rng.choice([-3, -2, -1, 1, 2, 3])
        us.append([rng.choice(BY_DIM[dim]), e])
    if rng.random() < own_p:
        us.append([rng.choice(OWN_FOR_LATTICE), rng.choice([-2, -1, 1, 2])])
    if rng.random() < 0.15:                     # the same dimension twice with different units (km/m …)
        dim = rng.choice(LATTICE_DIMS)
        us.append([rng.choice(BY_DIM[dim]), rng.choice([-1, 1])])
    rng.shuffle(us)
    return us


def _units_for_dims(rng, dims, own_p=0.3):
    """a random unit product with exactly the exponent vector `dims`"""
    us = []
    dims = tuple(dims)
    if rng.random() < own_p:
        name = rng.choice(OWN_FOR_LATTICE)
        k = rng.choice([-1, 1])
        us.append([name, k])
        dims = _dadd(dims, UNITS()[name][1], -k)
    for i, e in enumerate(dims):
        if e == 0:
            continue
        if abs(e) > 1 and rng.random() < 0.3:   # split the exponent over two units of the dimension
            a = rng.randint(1, abs(e) - 1) * (1 if e > 0 else -1)
            us.append([rng.choice(BY_DIM[i]), a])
            us.append([rng.choice(BY_DIM[i]), e - a])
        else:
            us.append([rng.choice(BY_DIM[i]), e])
    rng.shuffle(us)
    return us


def _q(rng, us=None):
    return {'mag': _mag(rng), 'u': _lattice(rng) if us is None else us}


def _target(rng, q, compatible=True):
    _, _, d = _book(q)
    us = _units_for_dims(rng, d)
    if not compatible:                           # one-off: exactly one dimension differs by one
        us.append([rng.choice(BY_DIM[rng.choice(LATTICE_DIMS)]), rng.choice([-1, 1])])
        if _book_u(us)[1] == d:
            us.append(['K', 1])
    mag = 1.0 if rng.random() < 0.75 else rng.choice([2.0, 0.5, 1e-3, 250.0, 7.5])
    return {'mag': mag, 'u': us}


def _registry(rng, si_p=0.15):
    """SI_base_registry with independently replaced base units (some with a numeric factor)"""
    reg = []
    for i, k in enumerate(KEYS):
        if rng.random() < si_p:
            name = BY_DIM[i][0]
        else:
            name = rng.choice(BY_DIM[i])
        mag = 1.0 if rng.random() < 0.8 else rng.choice([1e-3, 10.0, 2.5, 0.5])
        reg.append({'mag': mag, 'u': [[name, 1]]})
    return reg


def _real_reg(reg):
    cu = _chempy()
    out = {}
    for k, e in zip(KEYS, reg):
        if 'numf' in e:
            out[k] = float(e['numf'])         # 1.0 is NOT the int 1 of the identity test `is integer_one`
        elif 'num' in e:
            out[k] = e['num']
        elif e['mag'] == 1.0 and len(e['u']) == 1 and e['u'][0][1] == 1:
            out[k] = getattr(cu.default_units, e['u'][0][0])       # the unit object itself, as in SI_base_registry
        else:
            out[k] = _real(e)
    return out


def _compat_q(rng, q):
    """another quantity of the same dimension in other units, physically of similar size"""
    _, _, d = _book(q)
    us = _units_for_dims(rng, d, own_p=0.1)
    f, _ = _book_u(us)
    si = _si(q) * F(rng.choice([1, 2, 3, 5])) / rng.choice([1, 2, 4])
    return {'mag': float(si / f) if si != 0 else 1.0, 'u': us}


class C09(Property):
    pid = 'C09'
    title = ('to_unitless(q, u) = magnitude * exact unit ratio for compatible u (round trip, composition, linearity, element-wise), '
             'raises for incompatible u; dimensionality / registry default unit and magnitude / derived units / human-readable round trip '
             'consistent with that ratio; unit-aware array helpers = plain routine on magnitudes in one common unit, times that unit')
    props_module = 'ChemModel.Props.C09'
    build_modules = ('ChemModel.Model.Units', 'ChemModel.Basic.Proto')
    driver = 'ChemModel/Driver/C09.lean'
    n_quick, n_thorough = 2000, 40000
    float_tol = RTOL
    rule = ('quantities = random float magnitude x product of powers (-3..3) of base/prefixed units of length, mass, time, current, '
            'temperature, amount (+ chempy\'s own units); targets compatible (other units, same exponent vector) or one-off incompatible; '
            'lists/tuples/dicts/arrays/nesting; registries = SI_base_registry with independently replaced base units (some with a factor); '
            'every get_derived_unit key; helper calls with mixed units. A case is non-trivial when it is a distinct JSON value.')
    assumptions = (
        '`quantities` is modelled, not verified: unit = (positive factor, integer exponent vector over the 7 SI base dimensions), '
        'arithmetic/rescale/== on those pairs; its table of unit definitions is read (extractor) or hand-written (harness), not proved',
        'float rounding is not modelled: exact rational model vs float64 implementation within 1e-12 relative',
        'np.polyfit is a parameter of the model (only the unit assignment is chempy\'s); np.linspace/tile/concatenate/polyval are modelled by their exact-arithmetic definitions',
        'numeric magnitudes of units are nonzero (a target of magnitude 0 gives inf in Python, excluded by hypothesis)',
        'Quantity arrays behave as the list of their elements with one common unit; UncertainQuantity, n-d arrays, non-integer exponents, '
        'angles/currency/information units and the iteration order of dimensionality dicts are outside the model',
    )
    clauses_without_theorem = (
        '"exact": the theorems are exact over a field; the real code is float64 and is compared to 1e-12 relative (1e-9 for polyval/polyfit/logspace) — rounding is not modelled',
        'the (factor, exponent vector) of every `quantities` unit (its unit tables, prefix factors, constants eV and N_A): read or hand-written, never proved; '
        'a wrong table entry is caught by the correspondence (harness table vs real objects) and own_units_physical only for chempy\'s own definitions; per100eV: dimension only',
        'human-readable round trip: closed theorem (human_readable_roundtrip_standard) for the 28 standard prefixed units of the extracted table (m…km, kg/g/mg, s…d, A…nA, K/mK/uK, cd, mol/mmol/umol); '
        'other units (pm: quantities stores 1.0000000000000002e-12; chempy\'s own micromole/nanomole, which need chempy imported to parse) stay with the parameterised theorem + oracle',
        'get_physical_dimensionality / default_unit_in_registry / unitless_in_registry on dicts: the code only supports unitless dicts (theorem: {} / AttributeError); nested containers: not modelled',
        'magnitudes stored in float16/float32/integer dtypes: covered by the correspondence and the exact-ratio oracle at float64 precision (stream `_g_dtype`); the model has no notion of dtype',
        'unit_of on dicts; composition/linearity for NESTED containers (flat containers: compose_linear_containers; Backend with container arguments: backend_container_arguments); uncertainty(), '
        'latex/unicode/html_of_unit, format_string, fold_constants, simplified(): not modelled',
        'compare_equality is not among the helpers the statement lists: two quantities / two numbers have a theorem, quantity vs plain number a quirk witness; None, str, lists, '
        'tuples and dicts are mirrored by the model (compareEqualityC; dicts are compared by their keys only) and compared by the correspondence, no oracle claim, no theorem',
        'to_unitless of generators / dict views (outside "lists, arrays and dictionaries"): mirrored (Val.iterable: refused for every dimensional target, element-wise for a '
        'dimensionless one; lemma toUnitless_iterable), correspondence only, no oracle claim',
        'from_human_readable of hand-edited entries whose symbol carries an exponent (m**2, 1/s): the exponent is dropped (mirrored, correspondence only); accept/refuse has a theorem',
        'Backend: a non-callable attribute (be.pi) is handed through unchanged — oracle only (no unit logic to model)',
        'allclose with atol when a plain number is MIXED with quantities (all-plain: helpers_allclose_plain_numbers; all quantities: helpers_allclose_atol); allclose on Python lists (mirrored, correspondence + oracle); allclose on 2-d arrays is reduced to 1-d by the harness '
        '(the model and helpers_allclose_arrays are 1-d with broadcasting); an array atol larger than `a` (ValueError of the in-place `lim += atol`, reported) is accepted either way',
        'n-d shapes of linspace/logspace_from_lin/tile/concatenate/uniform/polyval/polyfit (array end points, reps tuples, axis=, 2-d x or y): oracle only (`shape_helper`), the model of these helpers is 1-d',
        'polyval with a 2-d x (1-d list/array x: helpers_equivariant_polyval_array); polyfit: scaling covariance of np.polyfit itself is a hypothesis of '
        'helpers_polyfit_unit_independent (oracle compares with the fit of the SI magnitudes)',
        'logspace_from_lin: theorem over the reals for positive end points; the Float instantiation is compared to 1e-9',
        'a target unit of magnitude 0 (inf/nan in Python): outside the property; the model returns the token NonFinite (correspondence only), all theorems assume u.si != 0',
        'object-dtype arrays (1-D, 2-D) and 0-d arrays have theorems (elementwise_object_array, elementwise_zero_dimensional_array); '
        'is_unitless() of an object array is True without looking inside (mirrored, outside the statement of C09, no theorem); numeric n-d arrays with n >= 2, '
        'kwargs of the NumPy wrappers (axis=...), registries with entries that are not single-dimension units: not modelled',
    )
    anchors = tuple(('chempy/units.py', n) for n in (
        'magnitude', 'is_unitless', 'unit_of', 'rescale', 'to_unitless', 'uniform', 'get_physical_dimensionality',
        '_get_unit_from_registry', 'default_unit_in_registry', 'unitless_in_registry', 'get_derived_unit',
        'unit_registry_to_human_readable', 'unit_registry_from_human_readable', 'compare_equality', 'allclose', 'linspace',
        'logspace_from_lin', 'concatenate', 'tile', 'polyfit', 'polyval', 'Backend.__getattr__', '_wrap_numpy'))

    # ------------------------------------------------------------------------------------------------ generation
    def generate(self, rng, n, tier):
        cases = []
        for name in sorted(n_ for n_ in _own_units() if n_ not in ('L', 'mL', 'J', 'cal', 'eV', 'N', 'Pa', 'kPa', 'bar', 'W', 'C', 'V', 'mV', 'Hz')) + ['umol', 'dm']:
            cases.append({'op': 'own_unit', 'name': name})
        for name in sorted(DIM_CONST_SPEC):
            cases.append({'op': 'dim_constant', 'name': name})
        cases.append({'op': 'si_registry'})
        for name in ('L', 'mL', 'J', 'cal', 'N', 'Pa', 'kPa', 'bar', 'W', 'C', 'V', 'mV', 'Hz', 'mK'):
            cases.append({'op': 'named_unit', 'name': name})
        for key in sorted(DERIVED_SPEC) + KEYS + ['foo']:
            cases.append({'op': 'get_derived_unit', 'reg': [{'mag': 1.0, 'u': [[BY_DIM[i][0], 1]]} for i in range(7)], 'key': key})
            cases.append({'op': 'get_derived_unit', 'reg': _registry(rng), 'key': key})
        cases.append({'op': 'get_derived_unit', 'reg': None, 'key': 'energy'})
        gens = [(0.30, self._g_scalar), (0.10, self._g_container), (0.07, self._g_small), (0.02, self._g_ndarray), (0.04, self._g_dtype), (0.05, self._g_objarray), (0.03, self._g_round7), (0.045, self._g_allclose_arr), (0.12, self._g_registry),
                (0.05, self._g_derived), (0.05, self._g_human), (0.04, self._g_compare), (0.06, self._g_allclose),
                (0.05, self._g_linspace), (0.03, self._g_logspace), (0.03, self._g_concat), (0.02, self._g_tile),
                (0.03, self._g_polyval), (0.02, self._g_polyfit), (0.03, self._g_backend)]
        tot = sum(w for w, _ in gens)
        while len(cases) < n:
            r = rng.random() * tot
            for w, g in gens:
                r -= w
                if r <= 0:
                    cases.append(g(rng, tier))
                    break
        return cases

    def _g_scalar(self, rng, tier):
        q = _q(rng) if rng.random() < 0.93 else {'num': rng.choice([3, 2.5, 0, -7])}
        r = rng.random()
        if 'num' in q:
            u = rng.choice([{'num': 1}, None, {'mag': 1.0, 'u': []}, {'mag': 1.0, 'u': [['km', 1], ['m', -1]]}, {'mag': 1.0, 'u': [['s', 1]]}])
            return {'op': 'to_unitless', 'v': q, 'u': u}
        compat = r < 0.7
        if rng.random() < 0.03:       # a "unit" of magnitude 0: Python returns inf/nan, the model the token NonFinite
            t = _target(rng, q, rng.random() < 0.7)
            t['mag'] = 0.0
            v = q if rng.random() < 0.6 else {'l': [q, _compat_q(rng, q)]}
            return {'op': 'to_unitless', 'v': v, 'u': t, 'degenerate': True}
        c = {'op': 'to_unitless', 'v': q, 'u': _target(rng, q, compat), 'compat': compat}
        if compat:
            c['w'] = _target(rng, q, True)                       # third unit for the composition law
            c['v2'] = _compat_q(rng, q)                          # for additivity
            c['a'] = rng.choice([2.0, -3.0, 0.5, 1e3])
        return c

    def _g_container(self, rng, tier):
        q = _q(rng)
        depth = 1 if tier == 'quick' else 2

        def elem():
            return _compat_q(rng, q)

        def cont(dp):
            r = rng.random()
            k = rng.randint(0 if r > 0.9 else 1, 4)
            if r < 0.4:                      # lists/tuples hold scalars only (a ragged nesting is a NumPy error, not a units matter)
                return {'l': [elem() for _ in range(k)]}
            if r < 0.55:
                return {'t': [elem() for _ in range(k)]}
            if r < 0.8:
                items = [cont(dp - 1) if dp > 0 and rng.random() < 0.4 else elem() for _ in range(k)]
                return {'k': [['k%d' % i, it] for i, it in enumerate(items)]}
            us = _units_for_dims(rng, _book(q)[2])
            return {'arr': {'mags': [_mag(rng) for _ in range(max(k, 1))], 'u': us}}
        v = cont(depth)
        bad = rng.random() < 0.2
        lv = [x for x in _leaves(v)]
        if bad and lv:
            x = rng.choice(lv)
            if 'u' in x and 'arr' not in v:
                x['u'] = x['u'] + [[rng.choice(['s', 'kg', 'mol', 'A']), rng.choice([-1, 1])]]
            elif rng.random() < 0.5 and isinstance(v.get('l'), list):
                v['l'].append({'s': 'abc'})
        return {'op': 'to_unitless', 'v': v, 'u': _target(rng, q, True)}

    def _g_ndarray(self, rng, tier):
        """plain numeric ndarray against 1, None, pq.dimensionless, scaled dimensionless units (shortcut branch) and dimensional units"""
        v = {'arr': {'mags': [_mag(rng) for _ in range(rng.randint(1, 3))], 'u': []}}
        if rng.random() < 0.3:
            v = {'k': [['a', v], ['b', {'num': 2}]]}
        u = rng.choice([{'num': 1}, None, {'mag': 1.0, 'u': []}, {'mag': 1.0, 'u': [['km', 1], ['m', -1]]}, {'mag': 1.0, 'u': [['cm', 1], ['m', -1]]},
                        {'mag': 2.0, 'u': [['km', 1], ['m', -1]]}, {'mag': 1.0, 'u': [['s', 1]]}, {'mag': 1.0, 'u': [['mmol', 1], ['mol', -1]]}])
        return {'op': 'to_unitless', 'v': v, 'u': u}

    def _g_dtype(self, rng, tier):
        """magnitudes stored in float16/32/64 or (u)int8…64: the conversion must still be the EXACT ratio at float64 precision (NumPy-2 promotion:
        a Python-float factor would be 'weak' and keep the reduced precision / overflow float16)"""
        import numpy as np
        dt = rng.choice(['float16', 'float32', 'float32', 'float64', 'int8', 'int16', 'int32', 'int64', 'uint8'])

        def mag():
            if dt.startswith('float'):
                x = rng.choice([1.1, 2.2, 0.3, 1.5, 3.0, 250.0, 0.007, 12.34, -4.4])
                return float(np.dtype(dt).type(x))           # the value actually stored
            return float(rng.randint(0 if dt.startswith('u') else -100, 100))
        q = _q(rng)
        us = _units_for_dims(rng, _book(q)[2])
        r = rng.random()
        if r < 0.45:
            v = {'arr': {'mags': [mag() for _ in range(rng.randint(1, 3))], 'u': us, 'dtype': dt}}
            if not us:
                us = [['km', 1], ['m', -1]]
                v['arr']['u'] = us
            return {'op': 'to_unitless', 'v': v, 'u': _target(rng, {'mag': 1.0, 'u': us}, rng.random() < 0.85)}
        if r < 0.6:
            qq = {'mag': mag(), 'u': us or [['km', 1]], 'dtype': dt}
            return {'op': 'to_unitless', 'v': qq, 'u': _target(rng, qq, rng.random() < 0.85), 'compat': True}
        if r < 0.7:
            return {'op': 'unitless_in_registry', 'v': {'mag': mag(), 'u': us or [['km', 1]], 'dtype': dt}, 'reg': _registry(rng)}
        if r < 0.8:
            first = {'mag': mag(), 'u': us or [['km', 1]], 'dtype': dt}
            return {'op': 'uniform', 'v': {'l': [first, _compat_q(rng, first)]}}
        us = us or [['km', 1]]
        a0 = {'arr': {'mags': [mag() for _ in range(rng.randint(1, 3))], 'u': us, 'dtype': dt}}
        if r < 0.9:
            other = {'mag': 1.0, 'u': us}
            return {'op': 'concatenate', 'arrays': [a0, {'l': [_compat_q(rng, other)]}]}
        return {'op': 'tile', 'array': a0, 'reps': rng.choice([1, 2])}

    def _g_round7(self, rng, tier):
        """branches found unexecuted by tools/anchor_coverage.py: unit_of(simplified=True), rescale of a plain number onto a non-unit (AttributeError),
        non-list iterables (TypeError fallback of to_unitless), from_human_readable refusals / None registries, compare_equality on None/containers"""
        r = rng.random()
        q = _q(rng)
        if r < 0.22:
            v = rng.choice([q, {'l': [q, _compat_q(rng, q)]}, {'k': [['a', q], ['b', _compat_q(rng, q)]]}, {'num': 3}, {'l': []}])
            return {'op': 'unit_of', 'v': v, 'simplified': rng.random() < 0.85}
        if r < 0.34:
            u = rng.choice([{'mag': 2.0, 'u': [['m', 1]]}, {'mag': 1000.0, 'u': []}, {'mag': 0.5, 'u': [['km', 1], ['m', -1]]}, {'num': 2}])
            return {'op': 'rescale', 'v': {'num': rng.choice([3, 3.5, 0])}, 'u': u}
        if r < 0.52:
            ratio_units = [[['cm', 1], ['m', -1]], [['km', 1], ['m', -1]], [['mmol', 1], ['mol', -1]], []]
            dimless = rng.random() < 0.7
            items = [({'num': rng.choice([2, 0.5])} if rng.random() < 0.3 else {'mag': _mag(rng), 'u': rng.choice(ratio_units)}) if dimless
                     else _compat_q(rng, q) for _ in range(rng.randint(0, 3))]
            if rng.random() < 0.15 and items and 'u' in items[-1]:
                items[-1] = dict(items[-1], u=items[-1]['u'] + [['s', 1]])
            v = {'it': {'kind': rng.choice(['gen', 'values']), 'items': items}}
            if dimless:
                u = rng.choice([None, {'num': 1}, {'mag': 1.0, 'u': []}, {'mag': rng.choice([1.0, 2.0]), 'u': rng.choice(ratio_units[:3])}, {'mag': 1.0, 'u': [['s', 1]]}])
            else:
                u = _target(rng, q, rng.random() < 0.7)
            return {'op': 'to_unitless', 'v': v, 'u': u}
        if r < 0.72:
            if rng.random() < 0.15:
                return rng.choice([{'op': 'to_human'}, {'op': 'from_human', 'entries': None}])
            cu = _chempy()
            entries, kinds, names = [], [], []
            for k in KEYS:
                nm = rng.choice(HR_UNITS[k])
                entries.append([1.0 if rng.random() < 0.6 else rng.choice([1e-3, 2.5, 10.0]), getattr(cu.default_units, nm).symbol])
                kinds.append('standard')
                names.append(nm)
            rr = rng.random()
            i = rng.randrange(7)
            if rr < 0.25:
                entries[i][1], kinds[i] = rng.choice(['m/s', 'N*m', 'dimensionless', 'kg*m**2']), 'compound'
            elif rr < 0.45:
                entries[i][1], kinds[i] = rng.choice(['foo', 'µm', 'xyz', 'metr']), 'unknown'
            elif rr < 0.55:
                entries[i][1], kinds[i] = rng.choice(['m**2', '1/s', 'kg**-1']), 'power'
            elif rr < 0.65:
                entries[i], kinds[i] = [rng.choice([1, 1, 3, 2.5]), 1], 'one'          # (factor, 1) -> the plain number factor * 1
            return {'op': 'from_human', 'entries': entries, 'kinds': kinds, 'names': names}
        if r < 0.76:
            return {'op': 'backend_attr'}

        def cv(depth=1):
            t = rng.random()
            if t < 0.15:
                return None
            if t < 0.25:
                return {'str': rng.choice(['a', 'ab', ''])}
            if t < 0.6 or depth == 0:
                return rng.choice([{'mag': 1.0, 'u': [['km', 1]]}, {'mag': 1000.0, 'u': [['m', 1]]}, {'mag': 2.0, 'u': [['s', 1]]}, {'num': 3}, {'num': 1000}])
            if t < 0.8:
                return {rng.choice(['l', 't']): [cv(depth - 1) for _ in range(rng.randint(0, 2))]}
            return {'k': [[kk, cv(depth - 1)] for kk in rng.sample(['a', 'b', 'c'], rng.randint(0, 2))]}
        def kind(x):
            return 'none' if x is None else 'str' if 'str' in x else 'seq' if ('l' in x or 't' in x) else 'dict' if 'k' in x else 'atom'
        # a scalar quantity/number/str against a sequence goes through NumPy broadcasting inside `a + b`: not mirrored (outside the statement anyway)
        allowed = {'none': {'none', 'atom', 'str', 'seq', 'dict'}, 'atom': {'atom', 'none', 'str'}, 'str': {'str', 'none', 'atom'},
                   'seq': {'seq', 'dict', 'none'}, 'dict': {'dict', 'seq', 'none'}}

        def flat_ok(x):
            """inside sequences only pair like with like (element pairs are compared recursively / by Python ==)"""
            return True
        a = cv()
        b = a if rng.random() < 0.3 else cv()
        for _ in range(20):
            if kind(b) in allowed[kind(a)] and self._cmp_shapes_ok(a, b, kind, allowed):
                break
            b = cv()
        else:
            b = a
        return {'op': 'compare_equality_c', 'a': a, 'b': b}

    def _cmp_shapes_ok(self, a, b, kind, allowed):
        if kind(b) not in allowed[kind(a)]:
            return False
        if kind(a) == 'seq' and kind(b) == 'seq':
            la, lb = a.get('l', a.get('t')), b.get('l', b.get('t'))
            return all(self._cmp_shapes_ok(x, y, kind, allowed) for x, y in zip(la, lb))
        if kind(a) == 'dict' and kind(b) == 'dict':
            return all(self._cmp_shapes_ok(x, y, kind, allowed) for (_, x), (_, y) in zip(a['k'], b['k']))
        return True

    def _g_allclose_arr(self, rng, tier):
        a0 = _q(rng)
        if a0['mag'] == 0:
            a0['mag'] = 1.0
        rtol = rng.choice([1e-8, 1e-3])

        def near(x, rel):
            y = _compat_q(rng, x)
            y['mag'] = float(_si(x) * (1 + F(rel)) / _book(y)[1])
            return y
        if rng.random() < 0.3:                           # UncertainQuantity arguments
            b = near(a0, rng.choice([1e-3, 1e3]) * rtol) if rng.random() < 0.85 else _q(rng)
            c = {'op': 'allclose_u', 'a': a0, 'b': b, 'rtol': rtol, 'atol': None, 'a_unc': None, 'b_unc': None}
            c[rng.choice(['a_unc', 'b_unc'])] = rng.choice([0.1, 1e-6, 5.0])
            if rng.random() < 0.6:                       # an atol that is an UncertainQuantity (or a plain quantity) as well
                t = _compat_q(rng, a0) if rng.random() < 0.85 else _q(rng)
                t['mag'] = float(abs(_si(a0)) * F(rtol) * rng.choice([1000, F(1, 1000)]) / _book(t)[1]) if _book(t)[2] == _book(a0)[2] else t['mag']
                c['atol'] = t
                c['atol_unc'] = rng.choice([None, 0.1, 2.0, 2.0])
                if rng.random() < 0.3:
                    c['a_unc'] = c['b_unc'] = None       # only atol is uncertain (the ionic_strength regression)
            return c
        if rng.random() < 0.35:
            return self._g_shape_helper(rng, a0)
        # SHAPES: scalar / length-1 / length-n / 2-d on either side, atol none / scalar / array (of the length of a, of length 1, longer than a)
        n = rng.randint(2, 3)
        far = rng.random() < 0.4
        rel = lambda: (rng.choice([1e3, -1e3]) if far and rng.random() < 0.5 else 1e-3) * rtol

        def arr(kind, base):
            """an operand of the given kind, close to `base` (a list of n quantities) element by element"""
            if kind == 'scalar':
                return {'scalar': near(base[0], rel())}
            if kind == 'len1':
                return {'arr': [near(base[0], rel())]}
            if kind == 'arr2':
                # square (rows == columns) as well as rectangular: a 1-d limit must be paired with the COLUMNS (fixed by the shape-based broadcast)
                return {'arr2': [[near(x, rel()) for x in base] for _ in range(rng.choice([2, 3]))]}
            return {'arr': [near(x, rel()) for x in base]}
        same = rng.random() < 0.5                       # all elements physically equal (so that broadcasting can give True)
        base = [a0] * n if same else [a0] + [_compat_q(rng, a0) for _ in range(n - 1)]
        base = [x if _si(x) != 0 else a0 for x in base]
        ka = rng.choice(['scalar', 'len1', 'arr', 'arr', 'arr2'])
        kb = rng.choice(['scalar', 'len1', 'arr', 'arr', 'arr2'])
        both_scalar = ka == 'scalar' and kb == 'scalar'
        a, b = arr(ka, base), arr(kb, base)
        if not far:
            a = {k: _nd_map(v, lambda q: dict(q)) for k, v in a.items()}
        r = rng.random()
        if r < 0.08 and 'arr' in b and len(b['arr']) > 1 and 'arr2' not in a:     # (with a 2-d operand the list fallback pairs row i with b[i]: no claim)
            b = {'arr': b['arr'] + [b['arr'][0]]}                                   # lengths n and n+1: not broadcastable -> False
        elif r < 0.16:
            b = {k: _nd_map(v, lambda q: dict(q, u=q['u'] + [['s', 1]])) for k, v in b.items()}      # another dimension: False, no exception
        atol = None
        r = rng.random()
        if r < 0.4:
            def tq(scale=None):
                t = _compat_q(rng, a0)
                t['mag'] = float(abs(_si(a0)) * F(rtol) * (scale or rng.choice([1000, F(1, 1000)])) / _book(t)[1])
                return t
            kt = rng.choice(['scalar', 'scalar', 'len_a', 'len1', 'longer', 'baddim'])
            if both_scalar:
                kt = rng.choice(['len1', 'longer', 'longer'])          # two scalars are only interesting here with an array atol
            la = 1 if ka in ('scalar', 'len1') else n
            if kt == 'scalar':
                atol = {'scalar': tq()}
            elif kt == 'len_a' and ka not in ('scalar', 'arr2'):
                atol = {'arr': [tq() for _ in range(la)]}
            elif kt == 'len1':
                atol = {'arr': [tq()]}
            elif kt == 'longer':
                atol = {'arr': [tq() for _ in range(n if la == 1 else n + 1)]}
            elif kt == 'baddim':
                atol = {'scalar': _q(rng)}
        if both_scalar and (atol is None or 'arr' not in atol):
            atol = {'arr': [dict(a['scalar'], mag=float(abs(_si(a0)) * F(rtol) * k_ / _book(a['scalar'])[1])) for k_ in (1000, F(1, 1000))][:rng.randint(1, 2)]}
        return {'op': 'allclose_arrays', 'a': a, 'b': b, 'rtol': rtol, 'atol': atol}

    def _g_shape_helper(self, rng, q):
        """length-1, empty and 2-d arguments of linspace / logspace_from_lin / tile / concatenate / uniform / polyval / polyfit (oracle: plain NumPy routine)"""
        mk = lambda: _compat_q(rng, q)
        pos = lambda x: dict(x, mag=abs(x['mag']) or 1.0)
        row = lambda k: [mk() for _ in range(k)]
        fn = rng.choice(['linspace', 'logspace_from_lin', 'tile', 'tile', 'concatenate', 'concatenate', 'uniform', 'polyval', 'polyfit'])
        c = {'op': 'shape_helper', 'fn': fn, 'like': q}
        k = rng.choice([1, 1, 2, 3])
        if fn in ('linspace', 'logspace_from_lin'):
            f = pos if fn == 'logspace_from_lin' else (lambda x: x)
            shape = rng.choice(['arr-arr', 'scalar-arr', 'arr-scalar', 'len1-arr'])
            st = f(mk()) if shape == 'scalar-arr' else [f(mk()) for _ in range(1 if shape == 'len1-arr' else k)]
            sp = f(mk()) if shape == 'arr-scalar' else [f(mk()) for _ in range(k)]
            c.update(start=st, stop=sp, num=rng.choice([1, 2, 3]))
            c['like'] = pos(q) if fn == 'logspace_from_lin' else q
        elif fn == 'tile':
            shape = rng.choice(['len1', '2d', '2d-list', 'reps-tuple', 'empty'])
            arr = row(1) if shape == 'len1' else [] if shape == 'empty' else row(k) if shape == 'reps-tuple' else [row(k) for _ in range(2)]
            c.update(array=arr, reps=[2, rng.choice([1, 2])] if shape == 'reps-tuple' else rng.choice([1, 2, 3]), as_array=shape != '2d-list')
        elif fn == 'concatenate':
            shape = rng.choice(['len1', 'empty-second', 'empty-first', '2d', '2d-axis1'])
            if shape in ('2d', '2d-axis1'):
                c.update(arrays=[[row(k) for _ in range(rng.randint(1, 2))] for _ in range(2)], axis=1 if shape == '2d-axis1' else None)
                if shape == '2d-axis1':
                    c['arrays'] = [[row(k)], [row(rng.randint(1, 2))]]
            else:
                c['arrays'] = [row(1), row(rng.randint(1, 2))] if shape == 'len1' else [row(k), []] if shape == 'empty-second' else [[], row(k)]
                c['axis'] = None
        elif fn == 'uniform':
            shape = rng.choice(['len1', '2d-list', 'array', 'tuple-as-list'])
            c.update(v=row(1) if shape == 'len1' else [row(k) for _ in range(2)] if shape == '2d-list' else row(k), as_array=shape == 'array')
        elif fn == 'polyval':
            ux = [[rng.choice(BY_DIM[T]), 1]]
            dx, dy = _book_u(ux)[1], _book(q)[2]
            deg = rng.randint(0, 2)
            p = [{'mag': float(rng.randint(1, 9)), 'u': _units_for_dims(rng, _dadd(dy, dx, -(deg - i)), own_p=0)} for i in range(deg + 1)]
            xq = lambda: {'mag': float(rng.randint(-4, 4)), 'u': [[rng.choice(BY_DIM[T]), 1]]}
            shape = rng.choice(['len1', 'empty', '2d', 'arr'])
            x = [xq()] if shape == 'len1' else [] if shape == 'empty' else [[xq() for _ in range(k)] for _ in range(2)] if shape == '2d' else [xq() for _ in range(k)]
            c.update(p=p, x=x, like_x={'mag': 1.0, 'u': ux})
        else:
            ux = [[rng.choice(BY_DIM[T]), 1]]
            shape = rng.choice(['len1-deg0', 'two-deg1', '2d-y', 'empty'])
            npts = {'len1-deg0': 1, 'two-deg1': 2, '2d-y': 4, 'empty': 0}[shape]
            deg = {'len1-deg0': 0, 'two-deg1': 1, '2d-y': rng.choice([1, 2]), 'empty': 0}[shape]
            xs = rng.sample(range(-5, 6), npts)
            x = [{'mag': float(v), 'u': [[rng.choice(BY_DIM[T]), 1]]} for v in xs]
            x = [dict(e, mag=float(F(e['mag']) * _book_u(ux)[0] / _book(e)[1])) for e in x]
            yq = lambda v: (lambda t: dict(t, mag=float(F(v) / _book(t)[1] * _book(q)[1])))(mk())
            y = [[yq(rng.randint(-9, 9)) for _ in range(2)] for _ in xs] if shape == '2d-y' else [yq(rng.randint(-9, 9)) for _ in xs]
            c.update(x=x, y=y, deg=deg, like_x={'mag': 1.0, 'u': ux})
        return c

    def _g_objarray(self, rng, tier):
        """container TYPE x target: object-dtype arrays (1-D, 2-D, 0-d) of quantities / mixed quantities and plain numbers, and lists/tuples
        nested two deep; target omitted / None / 1 / pq.dimensionless / a scaled dimensionless unit / a dimensional unit (compatible or not)"""
        ratio_units = [[['cm', 1], ['m', -1]], [['mm', 1], ['m', -1]], [['km', 1], ['m', -1]], [['mmol', 1], ['mol', -1]], [['ms', 1], ['s', -1]], []]
        dimless = rng.random() < 0.6
        q = None if dimless else _q(rng)

        def elem():
            if dimless:
                if rng.random() < 0.3:
                    return {'num': rng.choice([2, 2.5, -1, 0.5])}
                return {'mag': _mag(rng), 'u': rng.choice(ratio_units)}
            return _compat_q(rng, q)
        shape = rng.choice(['oa1', 'oa1', 'oa2', 'z', 'll', 'tt', 'lt', 'doa'])
        k = rng.randint(1, 3)
        if shape == 'oa1':
            v = {'oa': [elem() for _ in range(rng.randint(0 if rng.random() < 0.05 else 1, 4))]}
        elif shape == 'oa2':
            v = {'oa': [{'oa': [elem() for _ in range(k)]} for _ in range(rng.randint(1, 3))]}
        elif shape == 'z':
            obj = rng.random() < 0.6
            v = {'z': {'obj': obj, 'v': elem() if obj else {'num': rng.choice([3.0, 0.25, -2.0])}}}
        elif shape == 'doa':
            v = {'k': [['a', {'oa': [elem() for _ in range(k)]}], ['b', elem()]]}
        else:
            mk = {'l': lambda xs: {'l': xs}, 't': lambda xs: {'t': xs}}
            v = mk[shape[0]]([mk[shape[1]]([elem() for _ in range(k)]) for _ in range(rng.randint(1, 3))])
        r = rng.random()
        lv = [x for x in _leaves(v) if 'u' in x]
        if r < 0.15 and lv:                                    # one element of another dimension: must be refused
            x = rng.choice(lv)
            x['u'] = x['u'] + [[rng.choice(['s', 'kg', 'mol', 'A', 'm']), rng.choice([-1, 1])]]
        c = {'op': 'to_unitless', 'v': v}
        r = rng.random()
        if dimless:
            if r < 0.2:
                c.update(u=None, omit=True)
            elif r < 0.4:
                c['u'] = None
            elif r < 0.55:
                c['u'] = {'num': 1}
            elif r < 0.7:
                c['u'] = {'mag': 1.0, 'u': []}
            elif r < 0.9:
                c['u'] = {'mag': rng.choice([1.0, 1.0, 2.0]), 'u': rng.choice(ratio_units[:5])}
            else:
                c['u'] = {'mag': 1.0, 'u': [[rng.choice(['s', 'm', 'mol']), 1]]}
        else:
            if r < 0.5:
                c['u'] = _target(rng, q, True)
            elif r < 0.65:
                c['u'] = _target(rng, q, False)
            elif r < 0.75:
                c.update(u=None, omit=True)                    # dimensional elements against the default target: refusal
            elif r < 0.85:
                c['u'] = None
            elif r < 0.93:
                c['u'] = {'num': 1}
            else:
                c['u'] = {'mag': 1.0, 'u': []}
        return c

    def _g_small(self, rng, tier):
        q = _q(rng) if rng.random() < 0.8 else {'num': rng.choice([3, 2.5])}
        r = rng.random()
        if r < 0.2:
            return {'op': 'unit_of', 'v': rng.choice([q, {'l': [q, _compat_q(rng, q)] if 'u' in q else [q]}, {'k': [['a', q]]}, {'l': []}])}
        if r < 0.45:
            u = rng.choice([_target(rng, q, True), _target(rng, q, False), {'num': 1}, {'mag': 2.0, 'u': [['m', 1]]}]) if 'u' in q else \
                rng.choice([{'num': 1}, {'mag': 1.0, 'u': [['m', 1]]}, {'mag': 2.0, 'u': [['m', 1]]}, {'mag': 1.0, 'u': []}])
            if 'u' in u:
                u = dict(u, mag=u['mag'] if rng.random() < 0.2 else 1.0)
            return {'op': 'rescale', 'v': q, 'u': u}
        if r < 0.7:
            ql = {'mag': _mag(rng), 'u': _units_for_dims(rng, (0,) * 7, own_p=0) + [['km', 1], ['m', -1]]}
            v = rng.choice([q, ql, {'l': [ql, {'num': 1}]}, {'l': [ql, q]}, {'k': [['a', ql], ['b', q]]}, {'s': 'abc'}, {'num': 4}, {'k': [['a', {'num': 1}]]}])
            return {'op': 'is_unitless', 'v': v}
        k = rng.randint(1, 4)
        items = [q] + [(_compat_q(rng, q) if 'u' in q else {'num': rng.randint(1, 9)}) for _ in range(k - 1)]
        if rng.random() < 0.15 and 'u' in q:
            items[-1] = _q(rng)
        if rng.random() < 0.1:
            items = []
        if rng.random() < 0.6:
            return {'op': 'uniform', 'v': {'l': items}}
        return {'op': 'uniform', 'v': {'k': [['k%d' % i, it] for i, it in enumerate(items)]}}

    def _g_registry(self, rng, tier):
        q = _q(rng)
        r = rng.random()
        if r < 0.1:
            v = {'l': [q, _compat_q(rng, q)]}
        elif r < 0.15:
            v = {'num': 3.5}
        elif r < 0.2:
            v = {'mag': _mag(rng), 'u': [['km', 1], ['m', -1]]}
        elif r < 0.23:
            v = {'l': [q, _q(rng)]}
        else:
            v = q
        op = rng.choice(['unitless_in_registry', 'unitless_in_registry', 'default_unit_in_registry', 'get_physical_dimensionality'])
        return {'op': op, 'v': v, 'reg': _registry(rng)}

    def _g_derived(self, rng, tier):
        return {'op': 'get_derived_unit', 'reg': _registry(rng), 'key': rng.choice(sorted(DERIVED_SPEC) + KEYS)}

    def _g_human(self, rng, tier):
        reg = []
        for k in KEYS:
            r = rng.random()
            if r < 0.08:
                reg.append({'num': 1})
            else:
                mag = 1.0 if rng.random() < 0.7 else rng.choice([1e-3, 10.0, 2.5])
                reg.append({'mag': mag, 'u': [[rng.choice(HR_UNITS[k]), 1]]})
        r = rng.random()
        kind = 'standard'
        if r < 0.08:
            k = rng.choice(list(HR_MICRO))
            reg[KEYS.index(k)] = {'mag': 1.0, 'u': [[HR_MICRO[k], 1]]}
            kind = 'micro'
        elif r < 0.12:
            reg[KEYS.index('amount')] = {'mag': 1.0, 'u': [['micromole', 1]]}
            kind = 'own-micromole'
        elif r < 0.17:
            reg[0] = {'mag': 1.0, 'u': [['m', 1], ['s', -1]]}
            kind = 'compound'
        elif r < 0.22:
            reg[0] = {'mag': 1.0, 'u': [['m', rng.choice([2, -1, 3])]]}
            kind = 'power'
        elif r < 0.26:
            reg[rng.randrange(7)] = rng.choice([{'numf': 1.0}, {'mag': 1.0, 'u': []}])     # 1.0 / 1*dimensionless: not the int 1
            kind = 'float-one'
        return {'op': 'human_roundtrip', 'reg': reg, 'kind': kind}

    def _g_compare(self, rng, tier):
        q = {'mag': float(rng.randint(1, 64)), 'u': _lattice(rng, own_p=0)}
        r = rng.random()
        if r < 0.35:
            # the same physical value in other units, with an exactly representable ratio (powers of two) or the same units
            b = dict(q) if rng.random() < 0.5 else {'mag': q['mag'] * 2, 'u': q['u']}
            if b['mag'] != q['mag']:
                b = {'mag': q['mag'], 'u': q['u']}
        elif r < 0.55:
            b = {'mag': q['mag'] + 1, 'u': q['u']}
        elif r < 0.75:
            b = _q(rng)
        elif r < 0.85:
            b = {'num': q['mag']}
        else:
            q = {'mag': 3.0, 'u': [['km', 1], ['m', -1]]}
            b = rng.choice([{'num': 3000}, {'num': 3}, {'mag': 3000.0, 'u': []}])
        return {'op': 'compare_equality', 'a': q, 'b': b}

    def _g_allclose(self, rng, tier):
        a = _q(rng)
        if a['mag'] == 0:
            a['mag'] = 1.0

        def near(q, rel):
            b = _compat_q(rng, q)
            _, f, _ = _book(b)
            b['mag'] = float(_si(q) * (1 + F(rel)) / f)
            return b
        r = rng.random()
        rtol = rng.choice([1e-8, 1e-3])
        atol = None
        if r < 0.35:
            b = near(a, rng.choice([1e-3, -1e-3]) * rtol)
        elif r < 0.7:
            b = near(a, rng.choice([1e3, -1e3, 3.0]) * rtol)
        elif r < 0.8:
            b = _q(rng)
        else:
            b = near(a, 10 * rtol)
            sz = abs(_si(a)) * F(rtol)
            t = _compat_q(rng, a)
            t['mag'] = float(sz * rng.choice([1000, F(1, 1000)]) / _book(t)[1])
            atol = t if rng.random() < 0.8 else rng.choice([{'num': 2}, _q(rng)])
        if rng.random() < 0.25:
            k = rng.randint(1, 3)
            la = [a] + [_compat_q(rng, a) for _ in range(k - 1)]
            lb = [b] + [near(x, 1e-3 * rtol) for x in la[1:]]
            if rng.random() < 0.15:
                lb = lb[:-1]
            return {'op': 'allclose_list', 'a': la, 'b': lb, 'rtol': rtol, 'atol': atol}
        return {'op': 'allclose', 'a': a, 'b': b, 'rtol': rtol, 'atol': atol}

    def _g_linspace(self, rng, tier):
        a = _q(rng) if rng.random() < 0.9 else {'num': 2}
        b = (_compat_q(rng, a) if rng.random() < 0.85 else _q(rng)) if 'u' in a else {'num': 8}
        return {'op': 'linspace', 'start': a, 'stop': b, 'num': rng.choice([0, 1, 2, 3, 5, 11])}

    def _g_logspace(self, rng, tier):
        a = _q(rng)
        a['mag'] = abs(a['mag']) or 1.0
        b = _compat_q(rng, a) if rng.random() < 0.9 else _q(rng)
        b['mag'] = abs(b['mag']) or 1.0
        return {'op': 'logspace_from_lin', 'start': a, 'stop': b, 'num': rng.choice([1, 2, 3, 5, 9])}

    def _arr(self, rng, q, k=None, as_arr=None):
        k = rng.randint(1, 4) if k is None else k
        if (rng.random() < 0.5) if as_arr is None else as_arr:
            # an empty unit list is a PLAIN ndarray (its own branch of to_unitless; since fix 005cbe4 it converts like a list)
            return {'arr': {'mags': [_mag(rng) for _ in range(k)], 'u': _units_for_dims(rng, _book(q)[2])}}
        return {'l': [_compat_q(rng, q) for _ in range(k)]}

    def _dimless_or_q(self, rng):
        """mostly a random lattice quantity; sometimes a scaled dimensionless one, so that plain ndarrays / numbers can be mixed in"""
        if rng.random() < 0.2:
            return {'mag': _mag(rng), 'u': rng.choice([[['km', 1], ['m', -1]], [['cm', 1], ['m', -1]], [['mmol', 1], ['mol', -1]], [['s', 1], ['ms', -1]]])}
        return _q(rng)

    def _g_concat(self, rng, tier):
        q = self._dimless_or_q(rng)
        arrays = [self._arr(rng, q) for _ in range(rng.randint(1, 3))]
        r = rng.random()
        if r < 0.12:
            arrays.append(self._arr(rng, _q(rng)))
        elif r < 0.16:
            arrays = []
        elif r < 0.2:
            arrays[0] = {'l': []}
        return {'op': 'concatenate', 'arrays': arrays}

    def _g_tile(self, rng, tier):
        q = self._dimless_or_q(rng)
        a = self._arr(rng, q)
        if rng.random() < 0.1 and 'l' in a:
            a['l'].append(_q(rng))
        if rng.random() < 0.05:
            a = {'l': []}
        return {'op': 'tile', 'array': a, 'reps': rng.choice([0, 1, 2, 3])}

    def _poly(self, rng):
        ux = [[rng.choice(BY_DIM[T] + BY_DIM[L]), 1]]
        uy = _lattice(rng, own_p=0.2)
        deg = rng.randint(0, 3)
        return ux, uy, deg

    def _g_polyval(self, rng, tier):
        ux, uy, deg = self._poly(rng)
        dx, dy = _book_u(ux)[1], _book_u(uy)[1]
        p = []
        for i in range(deg + 1):
            d = _dadd(dy, dx, -(deg - i))
            p.append({'mag': float(rng.randint(-9, 9)) or 1.0, 'u': _units_for_dims(rng, d, own_p=0.1)})
        r = rng.random()
        if r < 0.12:
            j = rng.randrange(len(p))
            p[j]['u'] = p[j]['u'] + [[rng.choice(['kg', 'A', 'K']), 1]]
        elif r < 0.15:
            p = []
        xq = {'mag': float(rng.randint(-5, 5)) / 2, 'u': _units_for_dims(rng, dx, own_p=0)}
        if rng.random() < 0.4:
            x = {'l': [xq] + [{'mag': float(rng.randint(-5, 5)), 'u': _units_for_dims(rng, dx, own_p=0)} for _ in range(rng.randint(0, 2))]}
        else:
            x = xq
        return {'op': 'polyval', 'p': p, 'x': x}

    def _g_polyfit(self, rng, tier):
        ux, uy, deg = self._poly(rng)
        dx, dy = _book_u(ux)[1], _book_u(uy)[1]
        npts = deg + 1 + rng.randint(0, 3)
        xs = rng.sample(range(-6, 7), npts)
        coef = [rng.randint(-3, 3) for _ in range(deg + 1)]
        x, y = [], []
        for xv in xs:
            yv = sum(c * xv ** (deg - i) for i, c in enumerate(coef)) + rng.choice([0, 0, 1, -1])
            uxx = _units_for_dims(rng, dx, own_p=0)
            uyy = _units_for_dims(rng, dy, own_p=0.1)
            x.append({'mag': float(F(xv) / _book_u(uxx)[0] * _book_u(ux)[0]), 'u': uxx})
            y.append({'mag': float(F(yv) / _book_u(uyy)[0] * _book_u(uy)[0]), 'u': uyy})
        return {'op': 'polyfit', 'x': x, 'y': y, 'deg': deg}

    def _g_backend(self, rng, tier):
        args = []
        for _ in range(rng.randint(1, 3)):
            r = rng.random()
            if r < 0.3:
                args.append({'num': rng.choice([0, 1, 2.5, -1])})
            elif r < 0.75:
                us = _units_for_dims(rng, (0,) * 7, own_p=0) + rng.choice([[['km', 1], ['m', -1]], [['ms', 1], ['s', -1]], [], [['mol', 2], ['mmol', -2]]])
                args.append({'mag': float(rng.randint(-4, 4)) / 4, 'u': us})
            else:
                args.append(_q(rng))
        if rng.random() < 0.3:          # container arguments (lists, arrays, a dict) as in `be.sum([[1000*m/km, 1], [3, 4]], axis=1)`
            k = rng.randint(1, 3)
            shape = rng.choice(['list', 'nested', 'array', 'dict'])
            if shape == 'list':
                cargs = [{'l': args}]
            elif shape == 'nested':
                cargs = [{'l': [{'l': [dict(a) for a in args[:1]] * k}, {'l': [{'num': float(i)} for i in range(k)]}]}]
            elif shape == 'array':
                cargs = [{'arr': {'mags': [float(rng.randint(-3, 3)) for _ in range(k)], 'u': rng.choice([[['km', 1], ['m', -1]], [], [['s', 1]]])}}, args[0]]
            else:
                cargs = [{'k': [['a', args[0]], ['b', {'l': args}]]}]
            return {'op': 'backend_v', 'fn': 'sum', 'args': cargs}
        return {'op': 'backend', 'fn': rng.choice(['exp', 'sin', 'atan']), 'args': args}

    # ------------------------------------------------------------------------------------------------ model cases
    def model_case(self, c):
        op = c['op']
        m = {'op': op, '_c': c}
        if op == 'to_unitless':
            m['v'] = _mj_val(c['v'])
            m['u'] = None if c['u'] is None else _mj(c['u'])
        elif op in ('unit_of', 'uniform', 'is_unitless'):
            m['v'] = _mj_val(c['v'])
            if op == 'unit_of' and 'simplified' in c:
                m['simplified'] = bool(c['simplified'])
        elif op == 'backend_attr':
            return None                     # no unit logic to model: oracle-only
        elif op == 'to_human':
            m['entries'] = None
        elif op == 'from_human':
            m['entries'] = None if c['entries'] is None else [[rat_json(F(f)), s_] for f, s_ in c['entries']]
            m['table'] = [[k, v] for k, v in _hr_table(_chempy(), [] if c['entries'] is None else [s_ for _, s_ in c['entries']]).items()]
        elif op == 'allclose_arrays':
            a, b, t = _arrarg(c['a'], c.get('a_scalar', False)), _arrarg(c['b']), _arrarg(c['atol'])
            # the model is 1-d: two 2-d operands of one shape are flattened; a row against a 2-d operand is tiled first (NumPy broadcasting done here)
            def flat2(x, other):
                if x[0] == 'arr' and other is not None and other[0] == 'arr2' and len(x[1]) == len(other[1][0]) and len(x[1]) > 1:
                    return ('arr', [q for _ in other[1] for q in x[1]])
                if x[0] == 'arr2':
                    return ('arr', [q for row in x[1] for q in row])
                return x
            a2, b2 = flat2(a, b), flat2(b, a)
            # atol is broadcast over the shape of a - b: against a 2-d operand an atol row is tiled like any other row
            t2 = None if t is None else flat2(t, a if a[0] == 'arr2' else (b if b[0] == 'arr2' else None))
            m.update(a=_model_arrarg(a2), b=_model_arrarg(b2), rtol=rat_json(F(c['rtol'])), atol=None if t2 is None else _model_arrarg(t2))
        elif op == 'shape_helper':
            return None                     # n-d shapes of the other helpers: oracle-only (the model of these helpers is 1-d)
        elif op == 'allclose_u':
            m.update(a=_mj(c['a']), b=_mj(c['b']), rtol=rat_json(F(c['rtol'])), atol=None if c.get('atol') is None else _mj(c['atol']))
            for k in ('a', 'b', 'atol'):
                if c.get(k + '_unc') is not None:
                    m[k + '_unc'] = rat_json(F(c[k + '_unc']))
        elif op == 'compare_equality_c':
            m['a'], m['b'] = _cval_mj(c['a']), _cval_mj(c['b'])
        elif op == 'rescale':
            m['v'], m['u'] = _mj(c['v']), _mj(c['u'])
        elif op in ('get_physical_dimensionality', 'default_unit_in_registry', 'unitless_in_registry'):
            m['v'] = _mj_val(c['v'])
            m['reg'] = [_mj(e) for e in c['reg']]
        elif op == 'get_derived_unit':
            m['reg'] = None if c['reg'] is None else [_mj(e) for e in c['reg']]
            m['key'] = c['key']
        elif op == 'human_roundtrip':
            cu = _chempy()
            entries, table = [], {}
            for e in c['reg']:
                if 'numf' in e:
                    entries.append({'nf': rat_json(F(e['numf']))})
                    continue
                if 'num' in e:
                    entries.append({'n': e['num']})
                    continue
                dimy = []
                for name, ex in e['u']:
                    uo = getattr(cu.default_units, name)
                    f, d = UNITS()[name]
                    dimy.append([uo.symbol, rat_json(f), list(d), ex])
                    sym = uo.symbol
                    if sym not in table:
                        # third-party parser of unit strings: what does `pq.Quantity(0, sym).dimensionality` contain?
                        try:
                            items = list(cu.pq.Quantity(0, sym).dimensionality.items())
                        except LookupError:
                            items = None
                        if items is not None:
                            ent = []
                            for po, pe in items:
                                pf, pd = _book_of_real_unit(1 * po)
                                ent.append([po.symbol, rat_json(F(pf)), list(pd), int(pe)])
                            table[sym] = ent
                entries.append({'m': rat_json(F(e['mag'])), 'dimy': dimy})
            m['entries'] = entries
            m['table'] = [[k, v] for k, v in table.items()]
        elif op == 'compare_equality':
            m['a'], m['b'] = _mj(c['a']), _mj(c['b'])
        elif op == 'allclose':
            m.update(a=_mj(c['a']), b=_mj(c['b']), rtol=rat_json(F(c['rtol'])), atol=None if c['atol'] is None else _mj(c['atol']))
        elif op == 'allclose_list':
            m.update(a=[_mj(x) for x in c['a']], b=[_mj(x) for x in c['b']], rtol=rat_json(F(c['rtol'])),
                     atol=None if c['atol'] is None else _mj(c['atol']))
        elif op in ('linspace', 'logspace_from_lin'):
            m.update(start=_mj(c['start']), stop=_mj(c['stop']), num=c['num'])
        elif op == 'concatenate':
            m['arrays'] = [[_mj(x) for x in _leaves(a)] for a in c['arrays']]
        elif op == 'tile':
            m['array'] = [_mj(x) for x in _leaves(c['array'])]
            m['reps'] = c['reps']
        elif op == 'polyval':
            m['p'] = [_mj(x) for x in c['p']]
            m['x'] = _mj_val(c['x'])
            # size of the largest term per evaluation point, in the unit of p[-1]: terms may cancel exactly (exact 0 vs 1e-16)
            if c['p']:
                deg, fy = len(c['p']) - 1, _book(c['p'][-1])[1]
                m['_scale'] = [float(sum(abs(_si(v)) * abs(_si(x)) ** (deg - i) for i, v in enumerate(c['p'])) / fy) for x in _leaves(c['x'])]
        elif op == 'polyfit':
            import numpy as np
            m['x'] = [_mj(x) for x in c['x']]
            m['y'] = [_mj(x) for x in c['y']]
            m['deg'] = c['deg']
            # np.polyfit is a parameter of the model: it is evaluated here on the magnitudes in the first elements' units
            fx, fy = _book(c['x'][0])[1], _book(c['y'][0])[1]
            xs = [float(_si(q) / fx) for q in c['x']]
            ys = [float(_si(q) / fy) for q in c['y']]
            with warnings.catch_warnings():
                warnings.simplefilter('ignore')
                m['p'] = [rat_json(F(float(v))) for v in np.polyfit(xs, ys, c['deg'])]
            xmax, ymax = max(abs(v) for v in xs) or 1.0, max(abs(v) for v in ys) or 1.0
            m['_scale'] = [ymax / xmax ** (c['deg'] - i) for i in range(c['deg'] + 1)]
        elif op == 'backend':
            m['args'] = [_mj(x) for x in c['args']]
        elif op == 'backend_v':
            m['args'] = [_mj_val(x) for x in c['args']]
        elif op in ('own_unit', 'named_unit', 'dim_constant'):
            m['name'] = c['name']
        return m

    # ------------------------------------------------------------------------------------------------ real code
    def impl(self, m):
        try:
            with warnings.catch_warnings():
                warnings.simplefilter('ignore')
                return self._impl(m['_c'])
        except Exception as e:
            return exc_name(e)

    def _impl(self, c):
        import numpy as np
        cu = _chempy()
        op = c['op']
        J_ = lambda x: json.dumps(x)
        if op == 'to_unitless':
            return J_(_res(_call_to_unitless(cu, c)))
        if op == 'unit_of':
            if 'simplified' in c:
                return J_(_pv(cu.unit_of(_real_val(c['v']), c['simplified'])))
            return J_(_pv(cu.unit_of(_real_val(c['v']))))
        if op == 'to_human':
            return str(cu.unit_registry_to_human_readable(None))
        if op == 'from_human':
            if c['entries'] is None:
                return str(cu.unit_registry_from_human_readable(None))
            r = cu.unit_registry_from_human_readable({k: (f, s_) for k, (f, s_) in zip(KEYS, c['entries'])})
            out = []
            for k in KEYS:
                x = r[k]
                if hasattr(x, 'dimensionality'):
                    dimy = []
                    for uo, e in x.dimensionality.items():
                        f, d = _book_of_real_unit(1 * uo)
                        dimy.append([uo.symbol, _jf(f), list(d), int(e)])
                    out.append({'m': _jf(x.magnitude), 'dimy': dimy})
                else:
                    out.append({'n': _jf(x)})
            return J_(out)
        if op == 'allclose_arrays':
            return str(bool(self._call_allclose_arrays(cu, c)))
        if op == 'allclose_u':
            return str(bool(cu.allclose(self._unc(cu, c, 'a'), self._unc(cu, c, 'b'), rtol=c['rtol'],
                                        atol=None if c.get('atol') is None else self._unc(cu, c, 'atol'))))
        if op == 'compare_equality_c':
            return str(bool(cu.compare_equality(_cval_real(c['a']), _cval_real(c['b']))))
        if op == 'rescale':
            return J_(_pv(cu.rescale(_real(c['v']), _real(c['u']))))
        if op == 'is_unitless':
            return str(bool(cu.is_unitless(_real_val(c['v']))))
        if op == 'uniform':
            r = cu.uniform(_real_val(c['v']))
            if isinstance(r, dict):
                return J_({'k': [[k, _pv(v)] for k, v in r.items()]})
            return J_({'l': _pv_list(r)})
        if op == 'get_physical_dimensionality':
            r = cu.get_physical_dimensionality(_real_val(c['v']))
            return J_(sorted([k, int(v)] for k, v in r.items()))
        if op == 'default_unit_in_registry':
            return J_(_pv(cu.default_unit_in_registry(_real_val(c['v']), _real_reg(c['reg']))))
        if op == 'unitless_in_registry':
            return J_(_res(cu.unitless_in_registry(_real_val(c['v']), _real_reg(c['reg']))))
        if op == 'get_derived_unit':
            return J_(_pv(cu.get_derived_unit(None if c['reg'] is None else _real_reg(c['reg']), c['key'])))
        if op == 'human_roundtrip':
            r = cu.unit_registry_from_human_readable(cu.unit_registry_to_human_readable(_real_reg(c['reg'])))
            out = []
            for k in KEYS:
                x = r[k]
                if hasattr(x, 'dimensionality'):
                    dimy = []
                    for uo, e in x.dimensionality.items():
                        f, d = _book_of_real_unit(1 * uo)
                        dimy.append([uo.symbol, _jf(f), list(d), int(e)])
                    out.append({'m': _jf(x.magnitude), 'dimy': dimy})
                else:
                    out.append({'n': _jf(x)})
            return J_(out)
        if op == 'compare_equality':
            return str(bool(cu.compare_equality(_real(c['a']), _real(c['b']))))
        if op == 'allclose':
            return str(bool(cu.allclose(_real(c['a']), _real(c['b']), rtol=c['rtol'], atol=None if c['atol'] is None else _real(c['atol']))))
        if op == 'allclose_list':
            return str(bool(cu.allclose([_real(x) for x in c['a']], [_real(x) for x in c['b']], rtol=c['rtol'],
                                        atol=None if c['atol'] is None else _real(c['atol']))))
        if op == 'linspace':
            return J_(_pv_list(cu.linspace(_real(c['start']), _real(c['stop']), c['num'])))
        if op == 'logspace_from_lin':
            r = cu.logspace_from_lin(_real(c['start']), _real(c['stop']), c['num'])
            return J_(_pv_list(r))
        if op == 'concatenate':
            return J_(_pv_list(cu.concatenate([_real_val(a) for a in c['arrays']])))
        if op == 'tile':
            return J_(_pv_list(cu.tile(_real_val(c['array']), c['reps'])))
        if op == 'polyval':
            return J_(_pv_list(cu.polyval([_real(x) for x in c['p']], _real_val(c['x']))))
        if op == 'polyfit':
            return J_([_pv(v) for v in cu.polyfit([_real(x) for x in c['x']], [_real(y) for y in c['y']], c['deg'])])
        if op == 'backend':
            rec = []
            be = cu.Backend(type('M', (), {c['fn']: staticmethod(lambda *a: rec.extend(a) or 0.0)})())
            getattr(be, c['fn'])(*[_real(x) for x in c['args']])
            return J_([_jf(x) for x in rec])
        if op == 'backend_v':
            rec = []
            be = cu.Backend(type('M', (), {c['fn']: staticmethod(lambda *a: rec.extend(a) or 0.0)})())
            getattr(be, c['fn'])(*[_real_val(x) for x in c['args']])
            return J_([_res(x) for x in rec])
        if op in ('own_unit', 'named_unit'):
            q = getattr(cu.default_units, c['name']).simplified
            d = [0] * 7
            for bo, be_ in q.dimensionality.items():
                d[_CLS[type(bo).__name__]] = int(be_)
            return J_({'f': _jf(q.magnitude), 'd': d})
        if op == 'si_registry':
            return J_([_pv(1 * cu.SI_base_registry[k]) for k in KEYS])
        if op == 'dim_constant':
            v = getattr(cu, c['name'])
            return '[' + ','.join(str(int(v.get(k, 0))) for k in KEYS) + ']'
        return '!unknown-op'

    def _call_allclose_arrays(self, cu, c):
        a, b, t = _arrarg(c['a'], c.get('a_scalar', False)), _arrarg(c['b']), _arrarg(c['atol'])
        like = (_nd_leaves(a[1]) + _nd_leaves(b[1]) + [None])[0] if a[0] != 'scalar' else a[1]
        return cu.allclose(_real_arrarg(a, c.get('like_a', like)), _real_arrarg(b, c.get('like_b', like)), rtol=c['rtol'],
                           atol=None if t is None else _real_arrarg(t, like))

    def _allclose_tie(self, c):
        """is some compared pair within 0.1 % of its limit |a|*rtol + atol (exact arithmetic, broadcast shape)?"""
        import numpy as np
        try:
            if c['op'] == 'allclose_arrays':
                a, b, t = _arrarg(c['a'], c.get('a_scalar', False)), _arrarg(c['b']), _arrarg(c['atol'])
                sv = lambda x: (np.array(_si(x[1]), dtype=object) if x[0] == 'scalar' else _nd_si(x[1]))
                ops = [sv(a), sv(b)] + ([sv(t)] if t is not None else [])
            else:
                la = c['a'] if c['op'] == 'allclose_list' else [c['a']]
                lb = c['b'] if c['op'] == 'allclose_list' else [c['b']]
                ops = [np.array([_si(x) for x in la], dtype=object), np.array([_si(x) for x in lb], dtype=object)]
                if c.get('atol') is not None:
                    ops.append(np.array(_si(c['atol']), dtype=object))
            arrs = np.broadcast_arrays(*ops)
        except Exception:
            return False
        T = arrs[2].ravel() if len(arrs) == 3 else [0] * arrs[0].size
        for x, y, tt in zip(arrs[0].ravel(), arrs[1].ravel(), T):
            lim, dd = abs(x) * F(c['rtol']) + tt, abs(x - y)
            if lim and F(999, 1000) < dd / lim < F(1001, 1000):
                return True
        return False

    def _qarray(self, qs):
        """a `quantities` ARRAY (one unit, the first element's) holding the given quantities"""
        import numpy as np
        f0 = _book(qs[0])[1]
        unit = _real({'mag': 1.0, 'u': qs[0]['u']})
        return np.array([float(_si(q) / f0) for q in qs]) * unit

    def _unc(self, cu, c, k):
        if c.get(k + '_unc') is None:
            return _real(c[k])
        return cu.pq.UncertainQuantity(c[k]['mag'], _real({'mag': 1.0, 'u': c[k]['u']}), c[k + '_unc'])

    def same(self, m, io, mo):
        c = m['_c']
        op = c['op']
        if op in ('allclose', 'allclose_list', 'allclose_arrays', 'allclose_u') and io != mo and {io, mo} == {'True', 'False'} and self._allclose_tie(c):
            return True      # |a-b| sits (within 1e-3) ON the limit: the exact model and float64 may legitimately differ at a tie (the oracle skips the same band)
        try:
            a = json.loads(io)
        except (ValueError, TypeError):
            return io == mo
        try:
            b = json.loads(mo)
        except (ValueError, TypeError):
            return io == mo
        if op == 'get_physical_dimensionality':
            return a == sorted(b)
        if op == 'logspace_from_lin':
            if not isinstance(b, dict):
                return False
            mags = [_bits_to_float(x) for x in b['mags']]
            u = b['unit']
            if len(a) != len(mags):
                return False
            for x, y in zip(a, mags):
                um = float(F(u['m'])) if 'm' in u else float(F(u['n']))
                if not _num_eq(x.get('m', x.get('n')), y * um, 1e-9):
                    return False
                if 'f' in u and not (_num_eq(x['f'], u['f'], RTOL) and x['d'] == u['d']):
                    return False
            return True
        if op == 'polyfit':
            # least squares amplifies rounding: coefficients that are ~0 relative to the data scale are compared absolutely
            if not (isinstance(a, list) and isinstance(b, list) and len(a) == len(b)):
                return False
            for x, y, sc in zip(a, b, m['_scale']):
                if set(x) != set(y):
                    return False
                if 'f' in x and not (_num_eq(x['f'], y['f'], RTOL) and x['d'] == y['d']):
                    return False
                k = 'm' if 'm' in x else 'n'
                if not (abs(float(x[k]) - float(F(y[k]))) <= 1e-9 * max(abs(float(x[k])), abs(float(F(y[k])))) + 1e-9 * sc):
                    return False
            return True
        if op == 'polyval' and isinstance(a, list) and isinstance(b, list) and '_scale' in m and len(a) == len(b) == len(m['_scale']):
            for x, y, sc in zip(a, b, m['_scale']):
                if set(x) != set(y):
                    return False
                if 'f' in x and not (_num_eq(x['f'], y['f'], RTOL) and x['d'] == y['d']):
                    return False
                k = 'm' if 'm' in x else 'n'
                if not (abs(float(x[k]) - float(F(y[k]))) <= 1e-9 * max(abs(float(x[k])), abs(float(F(y[k])))) + 1e-12 * sc):
                    return False
            return True
        if op == 'uniform' or op in ('linspace', 'concatenate', 'tile', 'polyval'):
            # a Quantity array carries ONE unit object: the unit may legitimately be spelled with another (equal) factor split;
            # compare physical magnitudes in the reported unit
            pass
        return _same_json(a, b, 1e-9 if op in ('polyval',) else RTOL)

    # ------------------------------------------------------------------------------------------------ the property on the real code
    def oracle(self, c):
        with warnings.catch_warnings():
            warnings.simplefilter('ignore')
            try:
                return self._oracle(c)
            except AssertionError as e:
                return 'oracle assertion: %s' % e
            except OverflowError:
                return None          # magnitudes beyond the float64 range (not generated): no claim rather than a false alarm

    def _raises(self, f, classes=(ValueError,)):
        try:
            r = f()
        except classes:
            return None
        except Exception as e:
            return 'raised %s instead of %s' % (exc_name(e), '/'.join(k.__name__ for k in classes))
        return 'returned %r instead of raising' % (r,)

    def _oracle(self, c):
        import numpy as np
        cu = _chempy()
        op = c['op']
        ok = lambda x, want, tol=RTOL: close(float(x), float(want), tol, 1e-300)

        def si_of_real(x):
            f, _ = _book_of_real_unit(x)
            return np.asarray(x.magnitude, dtype=float) * float(f)

        if op == 'to_unitless':
            leaves = _leaves(c['v'])
            u = c['u']
            if u is not None and 'u' in u and u['mag'] == 0:
                return None      # 0*unit is not a unit (outside the property); the correspondence pins the behaviour (inf/nan -> NonFinite)
            ub = (F(1), F(1), (0,) * 7) if u is None else _book(u)
            bad = [x for x in leaves if 's' in x or _book(x)[2] != ub[2]]
            call = lambda: _call_to_unitless(cu, c)
            if _has_iterable(c['v']):
                return None      # generators / dict views are outside the statement ("lists, arrays and dictionaries"); mirrored by the model only
            if bad:
                return self._raises(call)
            try:
                r = call()
            except Exception as e:
                return 'to_unitless raised %s for a compatible target' % exc_name(e)
            want = [_si(x) / (ub[0] * ub[1]) for x in leaves]
            got = self._flat(r)
            if len(got) != len(want):
                return 'to_unitless: %d numbers for %d leaves' % (len(got), len(want))
            for g, w in zip(got, want):
                if not ok(g, w):
                    return 'to_unitless = %r, magnitude x unit ratio = %r' % (g, float(w))
            if len(leaves) == 1 and 'u' in c['v'] and u is not None and 'u' in u:
                q, ur = _real(c['v']), _real(u)
                back = r * ur                                      # multiplying back reproduces the quantity
                if not ok(si_of_real(back), _si(c['v'])):
                    return 'round trip: to_unitless(q,u)*u = %r, q = %r (SI)' % (float(si_of_real(back)), float(_si(c['v'])))
                if _book_of_real_unit(back)[1] != _book(c['v'])[2]:
                    return 'round trip changes the dimension'
                if 'w' in c:                                       # conversions compose
                    w = _real(c['w'])
                    lhs = cu.to_unitless(q, ur) * cu.to_unitless(ur, w)
                    rhs = cu.to_unitless(q, w)
                    if not ok(lhs, rhs):
                        return 'composition: via u %r, direct %r' % (lhs, rhs)
                if 'a' in c:                                       # linear
                    if not ok(cu.to_unitless(c['a'] * q, ur), c['a'] * r):
                        return 'scaling is not linear'
                    q2 = _real(c['v2'])
                    s = cu.to_unitless(q + q2, ur)
                    if not close(s, r + cu.to_unitless(q2, ur), 1e-9, 1e-12 * (abs(r) + abs(cu.to_unitless(q2, ur)))):
                        return 'to_unitless is not additive'
            return None

        if op == 'rescale':
            v, u = c['v'], c['u']
            if 'u' in v and 'u' in u and u['mag'] == 1.0:
                call = lambda: cu.rescale(_real(v), _real(u))
                if _book(v)[2] != _book(u)[2]:
                    return self._raises(call)
                r = call()
                if not ok(si_of_real(r), _si(v)) or not ok(r.magnitude, _si(v) / _book(u)[1]):
                    return 'rescale changes the physical value'
            return None

        if op == 'is_unitless':
            want = all('s' in x or not any(_book(x)[2]) for x in _leaves(c['v']))
            got = bool(cu.is_unitless(_real_val(c['v'])))
            return None if got == want else 'is_unitless = %r, expected %r' % (got, want)

        if op == 'backend_attr':
            import math as _m
            be = cu.Backend('math')
            return None if (be.pi == _m.pi and be.e == _m.e and not callable(be.pi)) else 'Backend does not hand a non-callable attribute through'
        if op == 'to_human':
            return None if cu.unit_registry_to_human_readable(None) is None else 'to_human_readable(None) is not None'
        if op == 'from_human':
            if c['entries'] is None:
                return None if cu.unit_registry_from_human_readable(None) is None else 'from_human_readable(None) is not None'
            call = lambda: cu.unit_registry_from_human_readable({k: (f, s_) for k, (f, s_) in zip(KEYS, c['entries'])})
            kinds = c['kinds']
            if 'unknown' in kinds:
                return self._raises(call, (LookupError,)) if kinds.index('unknown') == min(i for i, k in enumerate(kinds) if k in ('unknown', 'compound')) else self._raises(call, (TypeError, LookupError))
            if 'compound' in kinds:
                return self._raises(call, (TypeError,))
            if 'power' in kinds:
                return None      # hand-edited entries with exponents are outside "registry of standard prefixed units" (exponent dropped; noted)
            r = call()
            for k, (f, s_), nm in zip(KEYS, c['entries'], c['names']):
                if s_ == 1:
                    if not (r[k] == f and not hasattr(r[k], 'dimensionality')):
                        return 'from_human_readable((%r, 1)) = %r' % (f, r[k])
                    continue
                uf, ud = UNITS()[nm]
                x = 1 * r[k]
                if _book_of_real_unit(x)[1] != ud or not ok(si_of_real(x), F(f) * uf):
                    return 'from_human_readable(%r) = %r, expected %r x %s' % ((f, s_), r[k], f, nm)
            return None
        if op == 'compare_equality_c':
            return None          # compare_equality is not among the helpers the statement lists; mirrored by the model only
        if op == 'unit_of':
            lv = _leaves(c['v'])
            if not lv:
                return self._raises(lambda: cu.unit_of(_real_val(c['v'])), (IndexError,))
            if c.get('simplified'):
                r = cu.unit_of(_real_val(c['v']), True)
                m, f, d = _book(lv[0])
                if 'num' in lv[0]:
                    return None if r == 1 and not hasattr(r, 'dimensionality') else 'unit_of(number, True) = %r' % (r,)
                bf, bd = _book_of_real_unit(r)
                if not (bd == d and ok(si_of_real(r), f) and bf == 1 and ok(r.magnitude, f)):
                    return 'unit_of(x, simplified=True) = %r: expected %r in SI base units' % (r, float(f))
                return None
            r = cu.unit_of(_real_val(c['v']))
            m, f, d = _book(lv[0])
            if 'num' in lv[0]:
                return None if r == 1 and not hasattr(r, 'dimensionality') else 'unit_of(number) = %r' % (r,)
            if not (ok(r.magnitude, 1) and ok(si_of_real(r), f) and _book_of_real_unit(r)[1] == d):
                return 'unit_of is not the unit of the first element'
            return None

        if op == 'uniform':
            lv = _leaves(c['v'])
            call = lambda: cu.uniform(_real_val(c['v']))
            if not lv:
                return self._raises(call, (IndexError,))
            d0 = _book(lv[0])[2]
            if any(_book(x)[2] != d0 for x in lv):
                return self._raises(call)
            r = call()
            vals = list(r.values()) if isinstance(r, dict) else list(r)
            f0 = _book(lv[0])[1]
            for x, y in zip(lv, vals):
                if hasattr(y, 'dimensionality'):
                    if not (ok(si_of_real(y), _si(x)) and ok(y.magnitude, _si(x) / f0)):
                        return 'uniform changed a value or did not use the first element\'s unit'
                elif not ok(y, _si(x)):
                    return 'uniform changed a plain value'
            return None

        if op in ('get_physical_dimensionality', 'default_unit_in_registry', 'unitless_in_registry'):
            lv = _leaves(c['v'])
            d0 = _book(lv[0])[2]
            reg = _real_reg(c['reg'])
            fn = getattr(cu, op)
            call = (lambda: fn(_real_val(c['v']))) if op == 'get_physical_dimensionality' else (lambda: fn(_real_val(c['v']), reg))
            if any(_book(x)[2] != d0 for x in lv):
                return self._raises(call)
            r = call()
            regf = [_book(e)[0] * _book(e)[1] for e in c['reg']]
            uf = reduce(operator.mul, [regf[i] ** e for i, e in enumerate(d0)], F(1))
            if op == 'get_physical_dimensionality':
                want = {KEYS[i]: e for i, e in enumerate(d0) if e}
                return None if {k: int(v) for k, v in r.items()} == want else 'dimensionality %r, expected %r' % (r, want)
            if op == 'default_unit_in_registry':
                if not any(d0):
                    return None if (r == 1 and not hasattr(r, 'dimensionality')) else 'default unit of a unitless value is %r' % (r,)
                if _book_of_real_unit(r)[1] != d0 or not ok(si_of_real(r), uf):
                    return 'default unit %r: expected factor %r and dimension %r' % (r, float(uf), d0)
                return None
            got = self._flat(r)
            for x, g in zip(lv, got):
                if not ok(g, _si(x) / uf):
                    return 'unitless_in_registry = %r, expected %r' % (g, float(_si(x) / uf))
            # consistency: magnitude x default unit reproduces the quantity
            du = cu.default_unit_in_registry(_real_val(c['v']), reg)
            back = r * du
            if hasattr(back, 'dimensionality'):
                for x, b in zip(lv, np.atleast_1d(si_of_real(back))):
                    if not ok(b, _si(x)):
                        return 'unitless_in_registry x default_unit_in_registry != quantity'
            return None

        if op == 'get_derived_unit':
            if c['reg'] is None:
                return None if cu.get_derived_unit(None, c['key']) == 1.0 else 'registry None must give 1.0'
            reg = _real_reg(c['reg'])
            if c['key'] not in DERIVED_SPEC and c['key'] not in KEYS:
                return self._raises(lambda: cu.get_derived_unit(reg, c['key']), (KeyError,))
            r = 1 * cu.get_derived_unit(reg, c['key'])
            want_d = DERIVED_SPEC.get(c['key']) or tuple(1 if k == c['key'] else 0 for k in KEYS)
            regf = [_book(e)[0] * _book(e)[1] for e in c['reg']]
            uf = reduce(operator.mul, [regf[i] ** e for i, e in enumerate(want_d)], F(1))
            if _book_of_real_unit(r)[1] != want_d:
                return 'derived unit %s has dimension %r, the quantity it names has %r' % (c['key'], _book_of_real_unit(r)[1], want_d)
            if not ok(si_of_real(r), uf):
                return 'derived unit %s has SI value %r, expected %r' % (c['key'], float(si_of_real(r)), float(uf))
            return None

        if op == 'human_roundtrip':
            reg = _real_reg(c['reg'])
            call = lambda: cu.unit_registry_from_human_readable(cu.unit_registry_to_human_readable(reg))
            kind = c.get('kind')
            if kind == 'compound':
                return self._raises(call, (TypeError,))
            if kind == 'float-one':      # only the int 1 stands for "no unit": a float has no dimensionality (AttributeError), 1*dimensionless no unit object (TypeError)
                return self._raises(call, (AttributeError, TypeError))
            if kind == 'power':
                return None          # documented defect outside "registry of standard prefixed units" (exponent dropped); correspondence still runs
            try:
                r = call()
            except Exception as e:   # micro-prefixed units and chempy's own micromole included: must not raise
                return 'human-readable round trip raised %s: %s' % (exc_name(e), str(e)[:80])
            for k, e in zip(KEYS, c['reg']):
                if 'num' in e:
                    if not (r[k] == 1 and not hasattr(r[k], 'dimensionality')):
                        return 'round trip of the entry 1 gives %r' % (r[k],)
                    continue
                x = 1 * r[k]
                if _book_of_real_unit(x)[1] != _book(e)[2] or not ok(si_of_real(x), _si(e)):
                    return 'human-readable round trip changes registry[%s]: %r' % (k, r[k])
            return None

        if op == 'compare_equality':
            a, b = c['a'], c['b']
            got = bool(cu.compare_equality(_real(a), _real(b)))
            if 'num' in b and any(_book(a)[2]) is False and _book(a)[1] != 1:
                return None          # scaled-dimensionless vs plain number: Quantity.__eq__ compares bare magnitudes (documented quirk)
            if _book(a)[2] != _book(b)[2]:
                return None if got is False else 'quantities of different dimension compare equal'
            if 'num' in b and _book(a)[1] != 1:
                return None
            want = _si(a) == _si(b)
            return None if got == want else 'compare_equality = %r, physical equality = %r' % (got, want)

        if op == 'allclose_arrays':
            # the plain routine (chempy's definition: rtol scales |a|) element-wise over the BROADCAST shape, on the SI values
            a, b, t = _arrarg(c['a'], c.get('a_scalar', False)), _arrarg(c['b']), _arrarg(c['atol'])
            call = lambda: self._call_allclose_arrays(cu, c)
            sv = lambda x: (np.array(_si(x[1]), dtype=object) if x[0] == 'scalar' else _nd_si(x[1]))
            lvs = lambda x: [x[1]] if x[0] == 'scalar' else _nd_leaves(x[1])
            A, B = sv(a), sv(b)
            da = {_book(q)[2] for q in lvs(a)} | {_book(q)[2] for q in lvs(b)}
            try:
                A2, B2 = np.broadcast_arrays(A, B)
            except ValueError:
                if A.ndim > 1 or B.ndim > 1:
                    return None      # 2-d against a non-broadcastable 1-d operand: the list fallback compares row i with b[i] (NumPy would refuse); no claim
                got = call()
                return None if bool(got) is False else 'allclose of shapes %r and %r that cannot be broadcast is not False' % (A.shape, B.shape)
            if A2.size == 0:
                return None
            if len(da) > 1:
                got = call()
                return None if bool(got) is False else 'allclose of quantities of different dimension is not False'
            if t is not None:
                if {_book(q)[2] for q in lvs(t)} != da:
                    return self._raises(call)
                TT = sv(t)
                try:
                    T2, A2, B2 = np.broadcast_arrays(TT, A2, B2)      # ONE common shape of a, b and atol (fixes e80401e, dadaf52)
                except ValueError:
                    return self._raises(call)
            else:
                T2 = np.zeros(A2.shape, dtype=object)
            want = True
            for x, y, tt in zip(A2.ravel(), B2.ravel(), T2.ravel()):
                lim = abs(x) * F(c['rtol']) + tt
                dd = abs(x - y)
                if lim and F(999, 1000) < dd / lim < F(1001, 1000):
                    return None
                if dd > lim:
                    want = False
            try:
                got = bool(call())
            except ValueError:
                return 'allclose raised ValueError for broadcastable operands'
            return None if got == want else 'allclose = %r, plain test over the broadcast shape %r on the magnitudes in one unit = %r' % (got, A2.shape, want)

        if op == 'shape_helper':
            return self._shape_oracle(cu, c)

        if op in ('allclose', 'allclose_list', 'allclose_u'):
            la = c['a'] if op == 'allclose_list' else [c['a']]
            lb = c['b'] if op == 'allclose_list' else [c['b']]
            atol = c.get('atol')
            if op == 'allclose_u':
                ra, rb = self._unc(cu, c, 'a'), self._unc(cu, c, 'b')
                ratol = None if atol is None else self._unc(cu, c, 'atol')
            else:
                ra, rb = ([_real(x) for x in la], [_real(x) for x in lb]) if op == 'allclose_list' else (_real(la[0]), _real(lb[0]))
                ratol = None if atol is None else _real(atol)
            call = lambda: cu.allclose(ra, rb, rtol=c['rtol'], atol=ratol)
            if len(la) != len(lb):
                return None if call() is False else 'allclose of lists of different length is not False'
            want = True
            for a, b in zip(la, lb):
                if _book(a)[2] != _book(b)[2]:
                    want = False
                    break
                if atol is not None and _book(atol)[2] != _book(a)[2]:
                    if op == 'allclose_list':       # the list branch swallows every exception of its elements
                        return None if call() is False else 'allclose of lists with an incompatible atol is not False'
                    return self._raises(call)
                lim = abs(_si(a)) * F(c['rtol']) + (0 if atol is None else _si(atol))
                dd = abs(_si(a) - _si(b))
                if lim and F(999, 1000) < dd / lim < F(1001, 1000):
                    return None      # too close to the boundary for floats
                if dd > lim:
                    want = False
                    break
            got = bool(call())
            return None if got == want else 'allclose = %r, plain test on the magnitudes in one unit = %r' % (got, want)

        if op in ('linspace', 'logspace_from_lin'):
            a, b, n = c['start'], c['stop'], c['num']
            call = lambda: getattr(cu, op)(_real(a), _real(b), n)
            if _book(a)[2] != _book(b)[2]:
                return self._raises(call)
            r = call()
            f0 = _book(a)[1]
            s, e = float(_si(a) / f0), float(_si(b) / f0)
            plain = np.linspace(s, e, n) if op == 'linspace' else np.exp2(np.linspace(np.log2(s), np.log2(e), n))
            return self._vs_plain(r, plain, a, op)

        if op == 'concatenate':
            arrs = [_leaves(x) for x in c['arrays']]
            call = lambda: cu.concatenate([_real_val(x) for x in c['arrays']])
            if not arrs or not arrs[0]:
                return self._raises(call, (IndexError,))
            first = arrs[0][0]
            if any(_book(x)[2] != _book(first)[2] for a in arrs for x in a):
                return self._raises(call)
            f0 = _book(first)[1]
            plain = np.concatenate([[float(_si(x) / f0) for x in a] for a in arrs])
            return self._vs_plain(call(), plain, first, op)

        if op == 'tile':
            lv = _leaves(c['array'])
            call = lambda: cu.tile(_real_val(c['array']), c['reps'])
            if not lv:
                return self._raises(call, (IndexError,))
            if any(_book(x)[2] != _book(lv[0])[2] for x in lv):
                return self._raises(call)
            f0 = _book(lv[0])[1]
            return self._vs_plain(call(), np.tile([float(_si(x) / f0) for x in lv], c['reps']), lv[0], op)

        if op == 'polyval':
            p, xs = c['p'], _leaves(c['x'])
            call = lambda: cu.polyval([_real(v) for v in p], _real_val(c['x']))
            if not p:
                return self._raises(call, (IndexError,))
            deg = len(p) - 1
            dx, dy = _book(xs[0])[2], _book(p[-1])[2]
            if any(_book(v)[2] != _dadd(dy, dx, -(deg - i)) for i, v in enumerate(p)) or any(_book(x)[2] != dx for x in xs):
                return self._raises(call)
            r = call()
            want = [sum(_si(v) * _si(x) ** (deg - i) for i, v in enumerate(p)) for x in xs]      # physical polynomial, in SI
            got = np.atleast_1d(si_of_real(r))
            if _book_of_real_unit(r)[1] != dy:
                return 'polyval result has the wrong dimension'
            scale = [sum(abs(_si(v) * _si(x) ** (deg - i)) for i, v in enumerate(p)) for x in xs]
            for g, w, sc in zip(got, want, scale):
                if not close(g, float(w), 1e-9, 1e-11 * float(sc)):
                    return 'polyval = %r (SI), physical polynomial = %r' % (float(g), float(w))
            return None

        if op == 'polyfit':
            x, y, deg = c['x'], c['y'], c['deg']
            r = cu.polyfit([_real(v) for v in x], [_real(v) for v in y], deg)
            # the same fit in SI: coefficient i must be the SI coefficient, with dimension dy - (deg-i) dx
            xs, ys = [float(_si(v)) for v in x], [float(_si(v)) for v in y]
            p_si = np.polyfit(xs, ys, deg)
            dx, dy = _book(x[0])[2], _book(y[0])[2]
            ymax = max(abs(v) for v in ys) or 1.0
            xmax = max(abs(v) for v in xs) or 1.0
            for i, (coef, w) in enumerate(zip(r, p_si)):
                if _book_of_real_unit(1 * coef)[1] != _dadd(dy, dx, -(deg - i)):
                    return 'polyfit coefficient %d has dimension %r' % (i, _book_of_real_unit(1 * coef)[1])
                if not close(float(si_of_real(1 * coef)), float(w), 1e-6, 1e-7 * ymax / xmax ** (deg - i)):
                    return 'polyfit coefficient %d = %r (SI), fit of the SI magnitudes gives %r' % (i, float(si_of_real(1 * coef)), float(w))
            return None

        if op == 'backend':
            rec = []
            be = cu.Backend(type('M', (), {c['fn']: staticmethod(lambda *a: rec.extend(a) or 0.0)})())
            call = lambda: getattr(be, c['fn'])(*[_real(x) for x in c['args']])
            if any(_book(c['args'][0])[2]):
                f0 = self._raises(lambda: cu.patched_numpy.exp(_real(c['args'][0])))
                if f0 is not None:
                    return 'patched_numpy.exp of a dimensional argument: ' + f0
            if any(any(_book(x)[2]) for x in c['args']):
                f = self._raises(call)
                if f is None and rec:
                    return 'wrapped function was called although an argument carries a dimension'
                return f
            call()
            for x, g in zip(c['args'], rec):
                if hasattr(g, 'dimensionality') or not ok(g, _si(x)):
                    return 'Backend passed %r for the dimensionless value %r' % (g, float(_si(x)))
            # patched_numpy.<f> (_wrap_numpy): same wrapper around the NumPy function
            x0 = c['args'][0]
            if abs(float(_si(x0))) < 50:
                got = cu.patched_numpy.exp(_real(x0))
                if hasattr(got, 'dimensionality') or not close(float(got), math.exp(float(_si(x0))), 1e-9):
                    return 'patched_numpy.exp(%r) = %r, exp of the plain value = %r' % (x0, got, math.exp(float(_si(x0))))
            return None

        if op == 'backend_v':
            rec = []
            be = cu.Backend(type('M', (), {c['fn']: staticmethod(lambda *a: rec.extend(a) or 0.0)})())
            call = lambda: getattr(be, c['fn'])(*[_real_val(x) for x in c['args']])
            lv = [x for a in c['args'] for x in _leaves(a)]
            if any(any(_book(x)[2]) for x in lv):
                f = self._raises(call)
                return 'wrapped function was called although an argument carries a dimension' if (f is None and rec) else f
            call()
            got = [y for r in rec for y in self._flat(r)]
            if len(got) != len(lv):
                return 'Backend passed %d numbers for %d leaves' % (len(got), len(lv))
            for x, g in zip(lv, got):
                if hasattr(g, 'dimensionality') or not ok(g, _si(x)):
                    return 'Backend passed %r for the dimensionless value %r' % (g, float(_si(x)))
            return None
        if op in ('own_unit', 'named_unit'):
            f, d = UNITS()[c['name']]
            x = 1 * getattr(cu.default_units, c['name'])
            s = x.simplified
            dd = [0] * 7
            for bo, be_ in s.dimensionality.items():
                dd[{'UnitLength': L, 'UnitMass': M, 'UnitTime': T, 'UnitCurrent': I, 'UnitTemperature': TH,
                    'UnitLuminousIntensity': J, 'UnitSubstance': N}[type(bo).__name__]] = int(be_)
            if tuple(dd) != d or not ok(s.magnitude, f, 1e-9):
                return 'default_units.%s = %r x %r, physical definition %r x %r' % (c['name'], float(s.magnitude), dd, float(f), d)
            return None

        if op == 'dim_constant':
            v = getattr(cu, c['name'])
            got = tuple(int(v.get(k, 0)) for k in KEYS)
            return None if got == DIM_CONST_SPEC[c['name']] else 'units.%s = %r' % (c['name'], dict(v))

        if op == 'si_registry':
            for i, k in enumerate(KEYS):
                x = 1 * cu.SI_base_registry[k]
                s = x.simplified
                if float(s.magnitude) != 1.0 or _book_of_real_unit(x)[1] != tuple(1 if j == i else 0 for j in range(7)):
                    return 'SI_base_registry[%s] is not the SI base unit' % k
            return None
        return None

    def _shape_oracle(self, cu, c):
        """length-1 / empty / 2-d arguments of the array helpers: result == the plain NumPy routine on the magnitudes in ONE common unit, times that unit"""
        import numpy as np
        fn = c['fn']
        fl = lambda d: np.array(_nd_map(d, lambda q: float(_si(q))), dtype=float)        # SI magnitudes
        def si_res(r):
            f, _ = _book_of_real_unit(r)
            return np.asarray(r.magnitude, dtype=float) * float(f)
        def cmp(r, want, what, dims):
            got = si_res(r)
            if _book_of_real_unit(r)[1] != dims:
                return '%s: result dimension %r, expected %r' % (what, _book_of_real_unit(r)[1], dims)
            if got.shape != np.shape(want):
                return '%s: result shape %r, plain routine %r' % (what, got.shape, np.shape(want))
            sc = float(np.max(np.abs(want))) if np.size(want) else 0.0
            if not np.all(np.abs(got - want) <= 1e-9 * np.abs(want) + 1e-11 * sc):
                return '%s = %r (SI), plain routine on the magnitudes in one unit = %r' % (what, got.tolist(), np.asarray(want).tolist())
            return None
        like = c.get('like')
        dims = _book(like)[2]
        if fn in ('linspace', 'logspace_from_lin'):
            a, b, n = c['start'], c['stop'], c['num']
            r = getattr(cu, fn)(_nd_real(a, like) if not isinstance(a, dict) else _real(a), _nd_real(b, like) if not isinstance(b, dict) else _real(b), n)
            A, B = fl(a), fl(b)
            want = np.linspace(A, B, n) if fn == 'linspace' else np.exp2(np.linspace(np.log2(A), np.log2(B), n))
            return cmp(r, want, fn, dims)
        if fn == 'tile':
            arr, reps = c['array'], c['reps']
            reps = tuple(reps) if isinstance(reps, list) else reps
            call = lambda: cu.tile(_nd_real(arr, like) if c.get('as_array', True) else _nd_map(arr, _real), reps)
            if not _nd_leaves(arr):
                return self._raises(call, (IndexError,))       # noted: NumPy tiles an empty array, chempy cannot find its unit
            return cmp(call(), np.tile(fl(arr), reps), 'tile', dims)
        if fn == 'concatenate':
            arrays, kw = c['arrays'], ({'axis': c['axis']} if c.get('axis') is not None else {})
            call = lambda: cu.concatenate([_nd_real(a, like) for a in arrays], **kw)
            return cmp(call(), np.concatenate([fl(a) for a in arrays], **kw), 'concatenate', dims)
        if fn == 'uniform':
            v = c['v']
            r = cu.uniform(_nd_map(v, _real) if not c.get('as_array') else _nd_real(v, like))
            return cmp(r, fl(v), 'uniform', dims)
        if fn == 'polyval':
            p, x = c['p'], c['x']
            r = cu.polyval([_real(q) for q in p], _nd_real(x, c['like_x']))
            return cmp(r, np.polyval([float(_si(q)) for q in p], fl(x)), 'polyval', _book(p[-1])[2])
        if fn == 'polyfit':
            x, y, deg = c['x'], c['y'], c['deg']
            call = lambda: cu.polyfit(_nd_real(x, c['like_x']), _nd_real(y, like), deg)
            if not _nd_leaves(x):
                return self._raises(call, (IndexError, TypeError, ValueError))
            r = call()
            want = np.polyfit(fl(x), fl(y), deg)
            dx = _book(c['like_x'])[2]
            xm, ym = float(np.max(np.abs(fl(x)))) or 1.0, float(np.max(np.abs(fl(y)))) or 1.0
            for i, (coef, w) in enumerate(zip(r, want)):
                if _book_of_real_unit(1 * coef)[1] != _dadd(dims, dx, -(deg - i)):
                    return 'polyfit coefficient %d has dimension %r' % (i, _book_of_real_unit(1 * coef)[1])
                g = si_res(1 * coef)
                if g.shape != np.shape(w) or not np.all(np.abs(g - w) <= 1e-6 * np.abs(w) + 1e-7 * ym / xm ** (deg - i)):
                    return 'polyfit coefficient %d = %r (SI), fit of the SI magnitudes %r' % (i, g.tolist(), np.asarray(w).tolist())
            return None
        return 'unknown shape_helper'

    def _flat(self, r):
        import numpy as np
        if isinstance(r, dict):
            return [y for v in r.values() for y in self._flat(v)]
        if isinstance(r, (list, tuple)) or (isinstance(r, np.ndarray) and r.ndim > 0):
            return [y for v in r for y in self._flat(v)]
        return [r]

    def _vs_plain(self, r, plain, first, op):
        """helper result == plain routine on the magnitudes in the first element's unit, times that unit"""
        import numpy as np
        m, f, d = _book(first)
        if 'num' in first:
            if hasattr(r, 'dimensionality'):
                return '%s of plain numbers returned a quantity' % op
            got, gf = np.atleast_1d(np.asarray(r, dtype=float)), F(1)
        else:
            gf, gd = _book_of_real_unit(r)
            if gd != d:
                return '%s: result dimension %r, first element %r' % (op, gd, d)
            got = np.atleast_1d(np.asarray(r.magnitude, dtype=float))
        if len(got) != len(plain):
            return '%s: %d elements, plain routine gives %d' % (op, len(got), len(plain))
        for g, w in zip(got, plain):
            if not close(g * float(gf), w * float(f), 1e-9, 1e-12 * float(f) * max(abs(plain), default=0)):
                return '%s = %r, plain routine on the magnitudes x unit = %r (SI)' % (op, g * float(gf), w * float(f))
        return None

    # ------------------------------------------------------------------------------------------------ statistics
    def classify(self, c):
        op = c['op']
        if op == 'compare_equality_c' or (op == 'to_unitless' and _has_iterable(c['v'])) or (op == 'from_human' and 'power' in (c.get('kinds') or [])):
            return 'mirrored-only(no oracle claim):' + op
        if op == 'to_unitless' and any('dtype' in (x.get('arr') or x) for x in [c['v']] if isinstance(x, dict)):
            return 'to_unitless:dtype:' + str((c['v'].get('arr') or c['v']).get('dtype'))
        if op == 'to_unitless':
            v = c['v']
            shape = ('objarray2d' if 'oa' in v and v['oa'] and 'oa' in v['oa'][0] else 'objarray' if 'oa' in v else 'zerod' if 'z' in v else 'nested2' if ('l' in v or 't' in v) and any('l' in x or 't' in x for x in v.get('l', v.get('t'))) else
                     'list' if 'l' in v else 'tuple' if 't' in v else 'dict' if 'k' in v else 'array' if 'arr' in v else 'num' if 'num' in v else 'scalar')
            if shape == 'scalar':
                n = len(v['u'])
                own = any(nm in OWN_FOR_LATTICE for nm, _ in v['u'])
                return 'to_unitless:scalar:%s:%dunits%s' % ('compatible' if c.get('compat', True) else 'incompatible', n, ':own' if own else '')
            return 'to_unitless:' + shape
        if op == 'human_roundtrip':
            return op + ':' + c.get('kind', '')
        if op == 'get_derived_unit':
            return op + (':none' if c['reg'] is None else '')
        return op

    def known_key(self, c, failure):
        return None


PROPERTY = C09()
